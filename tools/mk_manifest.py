#!/usr/bin/env python3
"""Writes MANIFEST.json from the table below (kept in one place so it stays valid)."""
import json
import os

ROOT = os.path.dirname(os.path.dirname(os.path.abspath(__file__)))

# property id -> dict(text, note, technique, design_ref) for claimed checks
CLAIMED = {
    'C01': dict(
        text='Machine-checked over the Lean transcription of maildir.c / message.c I/O / matches_exec / exec / main (programs over libc calls, '
             'Model/Scripts.lean, Model/Main.lean) executed on an abstract file system under an ARBITRARY fault plan (any number of faults, any '
             'errno, short transfers): after every call of the execution of any action list (same-device and cross-device move, flag, flags, '
             'label, add-header, exec, in any order) some entry is bound to a complete version of the message (C01_no_loss, ~2200 lines of '
             'proofs); the exit status is a function of the error/reject flags (C01_exit_reports_error). The programs are tied to the real '
             'binary on every run: ~1900 single-fault runs (every call index x errno/short of 18 scenarios incl. stdin delivery) under an '
             'LD_PRELOAD shim are checked call by call against Model.mainP (same calls, possible results, same final directories and exit status) '
             'and judged by a tree oracle (each message exactly once intact, no stray, exit 0 only at the final place, failure reported).',
        note='Also machine-checked for plans with at most one fault (C01_single_fault_exactly_once/_unique/_no_stray/_discard, '
             'C01_exit0_final) and for every plan (C01_fault_reported): after executing an action list the message is bound exactly once '
             'to a complete stage, every other entry and file is untouched, nothing this run created remains except the message itself, '
             'a failing call outside the explicit ignored sites (close, closedir, the fstatat of maildir_move; EEXIST/EXDEV are handled) '
             'makes the result an error, and no error means the final place and content (per message: C01_message_exit0). The whole run, '
             'EVERY fault plan, after EVERY call of mainP in maildir mode over any population and configuration without discard: every '
             'registered message still has an entry bound to a version of it and the processing of one message leaves every other entry '
             'and file alone (C01_start_of_parse, C01_message_no_loss, C01_walk_no_loss, C01_main_no_loss). Trusted: Lean kernel; the abstract file system (applyOk/predict) as model of '
             'POSIX; the shim; stdio internals (faults injected at fflush/fclose level and through RLIMIT_FSIZE). Known findings F17a-e: '
             'failures of close/closedir/fclose(config)/fstatat(mtime)/spool cleanup are not reported (exit 0).',
        technique='Lean 4 proof (invariant over all fault plans of a program-over-calls model) + trace conformance of the real binary + fault sweep'),
    'C02': dict(
        text='Machine-checked: for every action list and EVERY fault plan, after EVERY call (= every process-kill point) some entry is bound to a '
             'complete version of the message (C02_crash_any_prefix), and the same holds for the content on stable storage under the ordered-'
             'metadata / durable-after-fsync storage model: a copy is flushed, fsync\'ed and closed successfully before the original name is removed '
             '(C02_power_failure). Tied to the real binary: the process is SIGKILLed before every call of 18 scenarios (~1100 kills, tree must '
             'keep an intact copy, the killed trace must be a prefix of a run of Model.mainP), and every fault-free real trace is replayed under '
             'the storage model (no original removed before its copy is complete on stable storage).',
        note='Also machine-checked for the WHOLE run (every fault plan, after every call of mainP = every kill point): the durable content of '
             'some entry is a version of every registered message (C02_message/walk/main_power_failure); stdin delivery: exit status 0 '
             'implies a durable complete copy outside the spool whenever the rule list moves the message (C02_stdin_exit0). On the real '
             'trace the check also requires every file renamed into a maildir to be completely on stable storage at that moment. '
             'Trusted: as C01, plus the storage model itself (real power failures are not reproduced); stdio buffering is modelled as: '
             'fprintf fills a buffer that reaches the file at fflush/fclose.',
        technique='Lean 4 proof (always-invariant over call prefixes incl. durable content) + kill sweep + trace replay under the storage model'),
    'C03': dict(
        text='Machine-checked (C03_eval_refines_spec, ~2800 lines of proofs): for EVERY environment (regex engine, clock, commands, file '
             'system), message and rule tree of the grammar shape with arbitrary nesting and number of rules - conditions over all/new/old/'
             'header/body/date and command/isdirectory without back-references, actions move/flag/flags/label/discard/reject/exec/add-header '
             'with pass/break last (decidable domain InDomain) - whenever the documented evaluation is not decided by a pass or action pending '
             'from an enclosing block (the pinned finding F11), the Lean transcription of expr_eval_* and the match-list primitives returns the '
             'documented result and, on a match, the documented actions (same non-move/flag actions in order, same last move-or-flag). Tied to '
             'the working tree on every run: the real yacc parser + expr_eval + matches_interpolate (ASan harness) on bounded-exhaustive small '
             'trees with all valuations plus random trees with every operator; exact match-list comparison with the model, documented '
             'semantics evaluated on the implementation\'s plan, and an independent recursive-descent reading of the grammar compared with '
             'the tree the parser built (precedence/associativity/nesting).',
        note='Also machine-checked: with "-" only stdin blocks are processed, without it only maildir blocks (C03_block_selection: mainP equals '
             'mainP on the selected blocks, as programs). Trusted: Lean kernel, Spec/Rules.lean, the generators, platform regexec/strptime (FFI '
             'on the model side). Attachment conditions and blocks are outside the domain of C03_eval_refines_spec (their meaning is '
             'C11_attachment_cond / C11_attachment_block; the exact correspondence covers them). "No match => nothing changes" at world '
             'level is decided by the process-level stage and the C12_error_no_effect / C05 theorems, a general theorem is in progress. '
             'Known finding F11 (pass crosses block) is confirmed by two witnesses on every run.',
        technique='Lean 4 proof (simulation between match list and documented rule semantics) + differential execution through the real parser'),
    'C04': dict(
        text='Machine-checked: the exit status of Model.mainP under every fault plan is exitStatus of the final flags - 0/1 in maildir mode; with '
             '"-": 75 iff error, else 1 iff a reject was executed, else 0, constants regenerated from mdsort.c (C04_status_table); a rejected or '
             'unreadable configuration is an error and nothing but the configuration file is touched (C04_config_error); C02_power_failure '
             'gives "0 only if stored durably". Tied to the real binary: 40 (thorough 1500) populations with defective messages of 7 kinds '
             '(exit 1 iff one is present, good messages end where the error-free run puts them, defective ones untouched, second maildir still '
             'processed, conformance with Model.mainP) and single-fault sweeps of 5 stdin scenarios judged by the MDA contract (75/1/0, spool removed). '
             'Command errors: 27 programs (exit statuses 0..255, signals, missing / not executable / directory / bad interpreter, PATH lookup, '
             'fork and waitpid failing) as command conditions and exec actions in 10 shapes on the real binary, judged by the documented '
             'meaning (tools/cmdstatus.py), and the real evaluator in-process on the same outcomes against Model.eval; machine-checked: '
             'every non-zero or signalled status of an exec action is an error of the message and stops its actions '
             '(C04_exec_status_is_error, arbitrary call results), a command condition that cannot be run is an error '
             '(C04_command_failure_is_error); death by a signal of a command condition is "no match" in the code (pinned, '
             'C04_command_signal_is_error_false).',
        note='Also machine-checked for arbitrary call results: the calls issued while one message is processed mutate only that message\'s own '
             'name and names this run created (C04_frame, C04_isolation_calls, C04_isolation_calls_main); a message whose processing '
             'fails does not stop the walk and the error flag is sticky (C04_error_isolated, C04_error_flag_inert); the error flag of the '
             'whole run is true IFF one of the enumerated causes occurred (C04_error_iff_partial: configuration, fopen, spool, path join, '
             'opendir, readdir, or a message whose parse/evaluation/interpolation/action failed: C04_message_error_iff). Trusted: as C01. '
             'F18 (over-long maildir path ended the run) is repaired (adcfac2).',
        technique='Lean 4 proof (status table, config error) + populations and stdin fault sweeps on the real binary with trace conformance'),
    'C05': dict(
        text='Machine-checked: with -d in maildir mode Model.mainP issues, for every configuration, population and fault plan, no mutating call '
             '(create, write, rename, unlink, utimensat, mkdir, rmdir) and no fork for an action (C05_dry_no_mutation); with -n the whole run is '
             'fopen/fclose of the configuration (C05_syntax_nothing). Tied to the real binary: the C01 corpus incl. stdin mode, configurations '
             'whose real run fails, targeted pass/attachment shapes and generated rule trees with exec actions, each run with -d and -n: tree '
             'snapshot (names, contents, mtimes) unchanged, TMPDIR empty, no command executed (helper log), no mutating libc call in the trace, '
             'conformance with Model.mainP.',
        note='Trusted: as C01. In stdin mode -d creates and removes its spool below TMPDIR (checked on the real binary; the theorem is stated for '
             'maildir mode). command conditions may run under -d (they are conditions, not exec actions).',
        technique='Lean 4 proof (no mutating call on the dry-run path, for all fault plans) + snapshot/trace checks on the real binary'),
    'C06': dict(
        text='Machine-checked: the plan does not depend on -d (C06_same_plan: for every environment, message, rule tree and state the '
             'evaluation under -d returns the same result, the same action entries up to display fields and the same flag state), the '
             '"-> destination" lines are exactly, in order, the action entries matches_exec iterates over (C06_lines_are_actions), and the '
             'marker line has ^ under the first and $ under the last matched character for every additive width function whenever the match '
             'does not start inside the leading blanks of its line (C06_marker_columns; the complement is known finding F15). Tied to the '
             'code: 1200 generated rule trees x messages run through the real parser/evaluator/matches_inspect with the output compared byte '
             'for byte with the model and each marker judged against the offsets the implementation recorded; 49 configurations run with -d '
             'and then for real on the real binary (listed = acted on, same destinations).',
        note='Also machine-checked (C06_explanations_true): the dry-run output is, group by group, the action line preceded by exactly one block '
             'per non-empty sub-match of every INSPECT entry (header/body/date, C06_inspect_flag) since the previous action, each block '
             'quoting a line of the value the pattern was applied to (C06_explanations_subject), in order. Trusted: as C03 plus the '
             'shim/process harness. Display width is the C-locale width (UTF-8 locales not exercised). Known findings F15, F15b (marker when '
             'the match starts in leading blanks / at a newline) and F21 (walk revisits a message it moved into a directory it has yet to '
             'read) are reported as KNOWN-FINDING lines. Observation O22 (explanations of conditions of rules that did not fire are printed '
             'too) is stronger than the property and recorded in DESIGN.md 9.2.',
        technique='Lean 4 proof (dry-run independence of the evaluator, inspect output = action list, marker columns) + differential '
                  'execution of matches_inspect + dry-run/real-run comparison on the binary'),
    'C07': dict(
        text='PARTIAL. Machine-checked on the model, for every byte string: every decoder output fits the buffer its caller allocated '
             '(base64: n <= strlen so dec[n] is inside the strlen+1 bytes; b64_pton never reports more than targsize; quoted-printable and '
             'RFC 2047 never outgrow their input) (C07_decoders_fit); every probe of the header binary search and the slice it returns are '
             'inside the table, sorted or not, and the search ends by itself (C07_search_in_bounds); findheader/skipline/findboundary return '
             'pieces of the text they were given (C07_scanners_inside); the multipart loop ends by itself (fuel irrelevant), nesting beyond '
             'the limit is an error, and the attachment table never holds more parts than the body has bytes (C07_multipart_terminates); '
             'all model functions are total, so every message yields match, non-match or error. NOT a theorem: that the C code\'s pointers '
             'are where the model\'s list suffixes are - a list model cannot express an out-of-bounds read. That part is observed: the real '
             'parser, MIME code, decoders, evaluator, interpolation, dry-run rendering and message_write run under ASan+UBSan on structured '
             'hostile seeds, their mutants and the inputs a coverage-guided search (libFuzzer) adds; the results of those same executions '
             'are compared with the model; the real ASan binary runs every input in maildir and stdin mode with a time limit, exec/command '
             'rules included, next to a control message that must still be handled.',
        note='SINCE ADDED - an index-level (L0) model (Model/L0): the same C functions over a byte array with its terminating NUL where every '
             'read and write goes through a bounds-checked accessor and pointers into the attachment vector carry its reallocation '
             'generation; machine-checked for EVERY NUL-terminated buffer (13 theorems C07_L0_*): b64_pton/base64_decode/'
             'quoted_printable_decode/rfc2047_decode, skipseparator/findheader (with its in-place NUL writes)/the header loop/'
             'unfoldheader/searchheader, skipline/parseboundary/findboundary/parseattachments/message_get_attachments, pathslice/'
             'isbackref/ismacro never read or write out of bounds and never use a stale vector pointer (the pinned use-after-free is '
             'exhibited as Fault.uaf), and EVERY one of them computes exactly what the list-level model computes (C07_L0_refines_*: '
             'findheader, the header loop and sort, searchheader, the MIME scanners, parseattachments at every depth, whole files, '
             'pathslice, isbackref, ismacro - unconditionally, after the list-level findboundary was repaired to follow message.c on '
             'boundaries containing a newline, a discrepancy this refinement proof found), so the functional theorems of C08/C10/C11/'
             'C12/C16 transfer to the index-level code; the l0 stage also compares both levels on every run. Still '
             'trusted/not modelled: malloc itself, glibc regex, stdio, size_t overflow in vector_reserve1, the libks output buffer. '
             'Inputs up to 64 KiB, C locale, fixed configuration battery (harness/fuzz/battery.conf).',
        technique='Lean 4 proof of the bounds/progress facts + differential execution under ASan/UBSan on hostile inputs + coverage-guided '
                  'search (libFuzzer) as the failing-input search'),
    'C08': dict(
        text='Machine-checked: for EVERY well-formed message (Spec.read: no NUL, header block of fields, one empty line, body not starting '
             'with a newline - the domain the property names) and every sequence of header settings (SetOk: no newline/NUL in the value, no '
             'white space or colon in the name) the bytes produced by the Lean transcription of message_parse_headers / message_set_header / '
             'message_write satisfy Spec.rewriteOk: same body, same other fields with raw values incl. folding and order, each set name exactly '
             'once with its last value, replaced in place (C08_rewrite_preserves_partial (values being set without newline/NUL/leading blank), C08_copy_identity, C08_parse, C08_rewrite_stable; ~2500 lines '
             'of proofs). The same predicate is evaluated on the bytes the real message_write produces (ASan harness, memfd) for generated '
             'messages and setting sequences, and the real table/lookup/second write are compared with the model.',
        note='Trusted: Lean kernel, Spec/Message.lean (line-based reading, rewriteOk), generators; qsort modelled as stable merge sort (glibc); '
             'the four complement classes the property text pins (NUL, no empty line, body starting with newline, CRLF) are replayed as '
             'KNOWN-FINDING witnesses. Not covered: a label value that decodes to a newline (X-Label: =?x?Q?a=0Ab?=) - values are assumed SetOk.',
        technique='Lean 4 proof (refinement to a line-based field list) + differential execution + spec predicate on real output'),
    'C09': dict(
        category='proof',
        text='Machine-checked: flag algebra for every flag set and file name (C09_flags_parse: flags come only from the text after the last '
             'colon of the file NAME; C09_flags_str: written back as :2, + upper case ascending + lower case ascending, each once, within '
             'the 64-byte buffer; C09_flags_roundtrip; C09_S_adjust: new->cur gains S, cur->new loses S, all else preserved); destinations: '
             'for every original path and every sequence of move/flag/flags actions satisfying the decidable predicate Spec.destOK the '
             'message ends in (maildir of the last move, else its own)/(subdirectory of the last flag, else its own), through '
             'matches_append/matches_merge/pathslice and through eval (C09_destination_partial, C09_destination_eval; destOK is the exact '
             'set on which the pinned code is right: C09_destOK_exact_upto_6; outside it: known finding F12, C09_destination_false); '
             'world level, for EVERY fault plan: a successful maildir_move leaves the destination entry with the source\'s modification '
             'time, by rename or by utimensat after a cross-device copy (C09_mtime; lost only when the fstatat failed: '
             'C09_mtime_lost_when_stat_fails = F17d), maildir_genname returns a name that was free, bound to a new empty file, after at '
             'most (candidates present + 1) attempts, and NO plan makes it or maildir_move replace or change a pre-existing entry '
             '(C09_fresh_name, C09_fresh_name_never_replaces, C09_move_never_replaces). Tied to the working tree: differential '
             'execution of the flag functions; the real binary under the shim on move / cross-device move / flag / flags / move+flag '
             'scenarios and destinations pre-populated with the next candidate names, judged on the real tree (place, fresh name, flags, '
             'content, mtime in ns, decoys untouched) and followed call by call through Model.mainP (fstatat value, utimensat arguments, '
             'EEXIST retries); all 310 (thorough 3410) sequences of <= 3 (4) move/flag/flags actions from new and cur against Spec.dest.',
        note='Known finding F12 (destination of an unmerged flag/flags/move entry computed from the original path) is identified by the '
             'sequence lying outside Spec.destOK AND the result being what the transcription computes. Repaired: F6 (401b480, flags parsed '
             'from the whole path) and 7589fcb (S not kept in sync after move+rewrite). Maildir names with special characters at process '
             'level: see evidence (added by the strengthening after seeded change C09-n4).',
        technique='Lean 4 proof (bit-set algebra; merge semantics of the match list; world-level invariants for all fault plans) + '
                  'differential execution + real binary under the shim with trace conformance'),
    'C10': dict(
        text='Machine-checked: searchheader on every table sorted by the case-insensitive comparator returns the first index and length of the '
             'maximal run of equal names (C10_binary_search, all sizes and duplicate arrangements); unfolding yields one logical line '
             '(C10_unfold); for every well-formed message and name, message_get_header returns the RFC 2047-decoded logical values of exactly '
             'the case-insensitively equal occurrences in file order (C10_lookup, using C16_rfc2047); regcomp base flags from the regenerated '
             'table (C10_regflags). Tied to the working tree by differential execution of the real message_parse/message_get_header/'
             'unfoldheader against model and line-based specification.',
        note='Also machine-checked, for EVERY regex engine (arbitrary function): the header condition as a whole (C10_header_cond, _iff, _other): '
             'the candidates are the decoded logical values of the occurrences of the listed names in names order then file order '
             '(C10_header_cands_mem); the first candidate the engine does not answer "no match" for decides - match with exactly one entry '
             'appended carrying its captures, or error - so an earlier error hides a later match and vice versa; no candidate: no match and '
             'the state is unchanged; `date header` uses the first Date occurrence only (C10_date_header). Trusted: Lean kernel, '
             'Spec/Message.lean, generators. POSIX regexec itself is the platform library (outside the model).',
        technique='Lean 4 proof (binary search invariant, stable sort, refinement to line-based reading) + differential execution'),
    'C11': dict(
        text='Machine-checked: for every entity whose multipart boundaries contain no newline (the RFC 2046 grammar; hypothesis BoundaryOk, '
             'decidable, shown necessary by the proved counterexample C11_parts_unrestricted_false), the Lean transcription of parseboundary/'
             'findboundary/parseattachments/message_get_attachments yields exactly the parts of the MIME tree in pre-order as read line by line '
             '(C11_parts), errors (bad boundary parameter, missing terminator, nesting > 4 from the regenerated limit) are errors and never a '
             'shorter list, and message_get_body is the body decoded by the part\'s own transfer encoding with text/plain preferred over '
             'text/html for multipart/alternative (C11_body). Tied to the working tree by differential execution of the real '
             'message_get_attachments/message_get_body (ASan harness) against model and specification on generated MIME trees.',
        note='Also machine-checked: `attachment c` evaluates c on the parts in order and the first part that is not "no match" decides (match iff '
             'some part matches and no earlier part errors), `attachment { ... }` evaluates its block on EVERY part unless one errors and '
             'matches iff some part matched, a malformed multipart is an error and never a match (C11_attachment_cond, '
             'C11_attachment_block, _meaning, _mime); what exec receives on stdin, for arbitrary call results (C11_exec_stdin, '
             '_delivered_iff, _failure): with `stdin body` exactly the decoded body written completely (short writes continued), inside an '
             'attachment block the re-serialised part, otherwise a duplicate of the message descriptor, always rewound; any failing call '
             'means no descriptor and the temporary one closed. Trusted: Lean kernel, Spec/Mime.lean, the generators; entity/header '
             'reading is shared between model and spec (its correctness is C08/C10).',
        technique='Lean 4 proof of model = line-based MIME specification + differential execution model/implementation'),
    'C12': dict(
        text='Machine-checked: for EVERY match list, macro table and template of the documented syntax the Lean transcription of '
             'interpolate/isbackref(strtoul)/ismacro computes exactly the one-pass token substitution Spec.interp - the concatenation of the '
             'substitutions, so substituted text is never scanned again - including which templates are errors (C12_interpolate); a '
             'back-reference resolves to the N-th capture of the M-th pattern of the SAME rule or is an error (C12_backref_lookup); whether a '
             'label action can be interpolated does not depend on message content (C12_label_ignores_message). Tied to the working tree by '
             'running the real parser + expr_eval + matches_interpolate on generated rules/messages whose texts look like templates: exact '
             'comparison with the model, and every interpolated move destination / exec argument / label judged by Spec.interp on the captures '
             'the implementation itself recorded.',
        note='Also machine-checked: a capture is exactly subject[so, eo) of the group, case-folded by the l/u flag, empty for an unset group, '
             'for every regex oracle (C12_captures_exact, C12_capture_is_slice, C12_capture_end_to_end); back-references never see captures '
             'of another rule (C12_backref_rule_local, _ignores_other_rules, _needs_sentinel); `lit1 \\1 lit2` yields lit1 ++ capture ++ '
             'lit2 for EVERY captured text incl. `\\2`, `${path}`, `${` (C12_single_pass, no hypothesis on the capture); missing group / '
             'unknown macro / unterminated macro are errors of the whole list (C12_failed_template_fails_all) and then the run issues no '
             'mutating call for that message under arbitrary call results (C12_error_no_effect). Trusted: Lean kernel, Spec/Interp.lean, '
             'generators, platform regexec. Templates with `\\N.` not followed by a digit are outside the specification (strtoul quirk, '
             'recorded in DESIGN.md). Parse-time macro expansion (Model/Conf.lean, tied to the real parser by the C14 correspondence and '
             'by a macro stage against Spec.mexpand): C12_macros (expandmacros = one token-wise pass, values inserted verbatim and never '
             'rescanned, ${path} deferred exactly in action contexts), C12_macro_definitions (-D wins, redefinition refused), '
             'C12_macros_value_reaches_action_pass (the a="$" b="{path}" corner as a theorem).',
        technique='Lean 4 proof (C loop = token-wise substitution) + differential execution + spec evaluated on real captures'),
    'C13': dict(
        text='PARTIAL. Machine-checked for arbitrary call results (runOracle): the argument vector is one interpolated string per configured '
             'string, in order (C13_argv, with C12_interpolate for the content); the value of exec() is a function of the fork/wait results '
             '- 0, exit code, -1 for 127 and fork/waitpid//dev/null failures, 128+signal (C13_status_exact, C13_exec_status_mapping); a non-zero value is an error of the exec '
             'action (C13_exec_failure_is_error) and an error stops the remaining actions of that message (C13_error_stops_actions). Tied to the '
             'real binary: generated exec/command scenarios with hostile argument vectors, every stdin option, exec after label/move, inside '
             'attachment blocks, in stdin mode, exit statuses and signals; a helper program records argv bytes, stdin bytes, inherited '
             'descriptors and the stdin target, compared with the configured vector and the current message / decoded body / part; '
             'call-by-call conformance with Model.mainP. Status mapping: exec() transcribed on the raw wait status (Model.execStatus) and '
             'characterised for EVERY status (C13_exec_status_mapping); a command condition matches iff the child exited 0, is "no match" '
             'iff it exited 1..126/128..255 or was signalled, an error iff it exited 127 or could not be forked/waited for '
             '(C13_command_status, _run); the command status family of tools/cmdstatus.py (27 programs x 10 shapes on the real binary, 34 '
             'outcomes x 12 rule forms in-process) ties both to the code.',
        note='What the CHILD receives is in the model since package p14: Call.fork carries the argument vector and the stdin handle (fork '
             'followed in the child by dup2 + execvp), C13_child_argv / C13_child_stdin / C13_no_shell are about every fork in the trace of '
             'mainP under arbitrary call results, C13_fd_hygiene gives the descriptor table at that fork, and Model.conform compares vector '
             'and handle of every fork of the real binary (the shim keeps the child instrumented until its exec call). '
             'Also machine-checked: argv = strings.map (cstr . interpolate), same length and order, no splitting of an argument containing '
             'blanks/quotes/globs (C13_argv_exact, _length_order, _no_splitting); the stdin content is C11_exec_stdin. Close-on-exec: in '
             'the model every descriptor-creating call IS its close-on-exec form, so the obligation sits in the trace canonicaliser '
             '(tools/world.py maps only openat/fcntl/mkostemp with exactly the modelled flags; anything else stops the conformance) and '
             'in the helper\'s record of inherited descriptors on the real binary (the seeded changes that drop O_CLOEXEC or install the '
             'descriptor with dup2 are detected that way). fork/execvp/dup2 in the child are the kernel\'s.',
        technique='Lean 4 proof (program-over-calls model, arbitrary results; fork carries argv and stdin) + call-by-call conformance of the real binary incl. what the child execs + helper-recorded observations'),
    'C14': dict(
        text='Machine-checked: the lexer model (Model/Lex.lean, a transcription of yylex1/yypeek) returns a suffix of its input and every '
             'token but end-of-input consumes at least one byte (C14_lexer_total), reads back keywords, strings and age literals and '
             'diagnoses literals >= 2^32 (C14_tokens_read_back, C14_int_literals); the parser model (Model/Conf.lean: the grammar of parse.y '
             'with its semantic actions and the macro table, reading its lookahead where the bison automaton does) never exhausts its '
             'recursion budget and calls the lexer at most length+1 times on every byte string (C14_parser_total); every block it accepts '
             'has the documented shape and satisfies every side condition (C14_accepted_well_formed), so each class of invalidating edit - '
             'discard/reject combined, age overflow, exec body without stdin, invalid pattern, attachment block with other actions, empty '
             'blocks, missing action, reject outside stdin, second stdin, undefined / misplaced / unused macro - is rejected wherever it '
             'occurs (C14_error_classes_tree, _block, C14_error_second_stdin, C14_error_macro_reference, C14_error_macro_unused); every '
             'configuration of Spec.ConfOK written by Spec.printBlocks is accepted and read back exactly, all nodes on line 1 '
             '(C14_accepts_grammar_partial; the statement without the string conditions is refuted: C14_accepts_grammar_full_false); a '
             'rejected configuration makes the run an error whose only calls are fopen/fclose of the configuration file '
             '(C14_reject_whole). Tied to the code: token-level trace of the real yylex under the real parser; the real bison parser '
             'against the model on accept/reject, line of the first diagnostic, every tree with ex_lno and the number of yylex calls '
             '(corner cases, edited, generated, multi-line, token-soup and mutated files, and the written form of every accepted '
             'configuration); a 33-class catalogue of invalidating edits on the real binary (exit 1/75, file:line diagnostic, populated '
             'maildir untouched, no maildir opened); a termination sweep.',
        note='Not modelled: error recovery after the first diagnostic (only "non-zero" and the first line are compared) and the stack '
             'limit of the generated parser (nesting deeper than 10000 states is rejected with "memory exhausted"). regcomp is an oracle '
             '(the platform library on both sides of the comparison). A NUL byte in the file is end-of-input for the parser (observed and '
             'modelled). Text to run: Model.mainText composes the parser model with the run; a rejected TEXT (any of the error classes '
             'anywhere) issues only fopen/fclose of the configuration and exits 1/75, an accepted one runs exactly its tree '
             '(C14_reject_whole_text, C14_accepted_runs_its_tree, C14_well_formed_or_untouched), checked against real runs followed both '
             'through the real parser\'s trees and through the model parser. Lexer diagnostics (l and u together, unknown/ambiguous '
             'unit, literal >= 2^32) reject the file (C14_error_classes_lexer, _tokens). Two genuine defects found by this machinery '
             'were repaired in /repo: e1b4ff1 (empty attachment block accepted, SIGSEGV at run time) and 441105a (macros in add-header/'
             'flags strings neither expanded nor validated); the 18 x 7 macro context matrix passes without exception since.',
        technique='Lean 4 proof (lexer; parser totality/progress, accepted => well formed, error classes, print/parse round trip; '
                  'reject-as-a-whole of main) + token-level and parser-level differential execution of the real bison parser + edit '
                  'catalogue and termination sweep on the real binary'),
    'C15': dict(
        text='Machine-checked: the numeric zone +-hhmm denotes +-(3600 hh + 60 mm) for hh<=23, mm<=59 and nothing else is accepted '
             '(C15_zone_offset, C15_zone_offset_only); the civil-date arithmetic of timegm is the proleptic Gregorian day count for every date '
             'from year 1 (C15_civil); the parsed instant is the UTC reading minus the zone and > / < compare now - instant strictly with the age '
             '(C15_true_age) - the model has no local-zone or DST parameter at all after the fix: commit eb8c9c9; the unit table regenerated '
             'from parse.y is the documented one and a lexeme selects a unit iff it is an unambiguous prefix (C15_units); ages overflow-checked '
             'at 2^32 (C15_overflow). Tied to the working tree by differential execution of tzoff/time_parse under 14 TZ settings over '
             'instants 1970-2037 incl. DST switches, and of date conditions with thresholds at age-1/age/age+1 and every unit prefix through '
             'the real parser and evaluator.',
        note='Also machine-checked: which instant each field uses and that the comparison is strict over Int (C15_fields, C15_fields_source, '
             'C15_fields_strict). The binding modified/created/access -> st_mtim/st_ctim/st_atim is exercised differentially: the harness '
             'gives the message file an old mtime and reports the stat times the evaluator saw, the model gets them as its oracle, the '
             'oracle of the check recomputes the expected verdict from them (a swap of mtime with another field is detected; atime and '
             'ctime are both "now" on this file system). Trusted: Lean kernel, Spec/Time.lean, strptime and the zone-NAME lookup '
             '(platform, FFI on the model side), generators.',
        technique='Lean 4 proof (arithmetic, finite table) + differential execution with pinned clock'),
    'C16': dict(
        text='Machine-checked: the Lean transcription of b64_pton/base64_decode, quoted_printable_decode(_buffer) and rfc2047_decode '
             'equals independent reference decoders (RFC 4648 / QP / RFC 2047) for EVERY byte string (theorems C16_b64, C16_b64_len, '
             'C16_qp, C16_rfc2047, C16_cstring_view, C16_alphabet over the alphabet table regenerated from decode.c); totality is carried by '
             'the types. The transcription is tied to the working tree on every run by differential execution of the real functions '
             '(ASan+UBSan harness that #includes decode.c) against the compiled model and against the reference, exhaustively over all '
             'strings of length <= 4 (quick) / 5 (thorough) over 14 decoder-relevant symbols plus structured random encodings.',
        note='Trusted: Lean kernel (axioms propext, Classical.choice, Quot.sound), the statement of Spec/Decode.lean, the correspondence run '
             '(generator reach), gen_tables.py and gen_grammar.py (bison --xml report of parse.y -> Gen/Grammar.lean); ctype functions are ASCII (C / C.utf8 locale); out-of-bounds access of the C code is observed by '
             'sanitizers in the harness, not proved (no index-level model yet).',
        technique='Lean 4 proof of model = reference decoder + differential execution model/implementation'),
}

CLAIMED.update({
    'C17': dict(
        text='Machine-checked for ARBITRARY call results, hence for every interleaving with any number of parties (another mdsort, a mail client): '
             'executing an action list never unlinks or renames a name other than the message\'s own name or a name this run created with '
             'O_CREAT|O_EXCL, and never renames onto a name it did not create (C17_never_touches_foreign): it never replaces another party\'s '
             'file nor removes the winner\'s copy; a party whose rename finds the source gone reports an error (C17_loser_reports_error). Tied '
             'to the real binaries: 48 ordered pairs of parties x every schedule in which the second runs to completion before call k of the '
             'first (~2100 schedules): every message exactly once, intact, no stray or partial file.',
        note='Also machine-checked on an explicit model of several parties interleaving call by call on ONE abstract file system '
             '(Model/Parties.lean: any number of mdsort parties and an external client, any schedule): at most one party removes a given '
             'source name and every later attempt gets ENOENT (C17_single_winner), the loser reports an error '
             '(C17_loser_in_schedule_reports_error), no party renames onto or removes a foreign name '
             '(C17_parties_never_touch_foreign), and under isolation (no party sees another\'s in-flight file) rename-based parties plus '
             'the client leave every file bound exactly once with its content and nothing stray, at quiescence of ANY schedule '
             '(C17_exactly_once_partial_movers). The exactly-once clause does NOT hold on the pinned code without isolation: known '
             'findings F14 and F13 are exhibited in the model with the real scripts (C17_exactly_once_false, C17_F14_listing, '
             'C17_F13_empty_stray) and confirmed on the real binaries on every run, identified by an explicit table of histories '
             '(known/C17_histories.json); any other loss/duplicate/stray is a violation. Copying actions (label, cross-device move) are '
             'outside the exactly-once theorem. Real kernel interleavings inside a system call are not explored.',
        technique='Lean 4 proof over arbitrary call results (covers all interleavings) + pause-point schedules of two real processes'),
    'C18': dict(
        text='Machine-checked: pathjoin and strlcpy accept exactly the results shorter than the buffer and then return the complete string, for '
             'every buffer size (C18_pathjoin_exact, C18_strlcpy_exact); in the model every fixed-size buffer is filled by an Option-returning '
             'setter, so a truncated path is not a value the programs of Model.mainP can pass to a call. Tied to the real binary: every length '
             'in a +-8 window around the limit for destination paths (literal, after ~, after macro expansion, after interpolation), a move '
             'merged with a flag action (decoy maildir at the 255-character prefix), the generated file name through the host name, and '
             'TMPDIR of the stdin spool: over the limit => non-zero exit and no file appears or disappears, within => delivered exactly at the '
             'intended path, no libc call uses a proper prefix of the intended path.',
        note='pathslice (used to split configured destinations) is transcribed and exercised by the correspondence runs but has no theorem. '
             'HOME and the maildir path literal near PATH_MAX are not in the sweep (readenv errc; fixed F18 covers the maildir path).',
        technique='Lean 4 proof (setters are exact; truncation unrepresentable in the model) + boundary sweeps on the real binary'),
})

NOT_YET = {
}

# what the session of 2026-09-30 added per property (appended to level_note; the full list of theorems is DESIGN.md 9.1 and the
# `theorems` key of every evidence file)
ADDED = {
    'C01': 'loss-freedom by file LINEAGE instead of by content (C01_no_loss_exact, C01_main_no_loss_exact, C01_no_duplicate_lineage_single_fault); fuel exhaustion of the walk is a visible flag with sufficiency theorems (C01_walk_fuel_suffices*); evaluation conditions that make system calls are inside mainP (faults hit them).',
    'C02': 'by-lineage versions (C02_*_exact) and an explicit crash-state model (C02_crash_states_partial); late-failure and attachment-action families; deep thorough tier.',
    'C03': 'pass/break anywhere in an action list (C03_eval_refines_spec_att_wide, three named deviation classes, F28 listed); evaluation issues no mutating call (C03_evaluation_calls); isolation stage.',
    'C04': 'evaluation errors reach the root (C04_eval_error_*), exec/command statuses (C04_exec_status_is_error, C04_command_failure_causes), no hidden per-message state (C04_message_independent*), usage errors (C04_usage_status), fuel irrelevance; stdin-delivery fault family, rule-shape family, command-status family, maildir shapes; F27 listed.',
    'C05': 'world-level frame (C05_dry_world_unchanged, _stdin_world_unchanged/_restored), the command line in the model (C05_options_select_mode, C05_args_*), C05_dry_no_fork (conditions do fork, actions never); maildir shapes, environment lengths, clutter populations.',
    'C06': 'multibyte text (Model.strnwidth over arbitrary mbtowc/wcwidth, C06_marker_display_columns; fix 951a0f1), C06_dry_exit_le_real; locale families, isolation stage.',
    'C07': 'libks/buffer.c at index level (C07_L0_buffer_in_bounds, _contents, _read_fd, _needs_room_for_nul); configuration-byte and 8-bit families.',
    'C08': 'fixes 71eba6c and 4ac7c48 (line breaks in set values); C08_rewrite_preserves_seen, C08_set_value_never_breaks_header, label/add-header theorems without hypotheses on message or value; read-before-rewrite, exact-size and hostile-value families.',
    'C09': 'C09_genname_real (the code\'s unbounded retry loop), C09_S_after_sequence*, destination theorems restored; flag-transition sequences, relative paths, isolation stage.',
    'C10': 'locale stages (real run and -d under C and C.utf8 against regexec in the same locale); isolation stage.',
    'C11': 'fix 098cbec (case-insensitive MIME tokens); an independent RFC 2045 specification of type / encoding / boundary parameter (C11_boundary_param_partial; F30 listed); C11_exec_stdin_body_after_rewrite; spelling and 8-bit families; exec-stdin sequences.',
    'C12': 'C12_D_overrides, C12_label_value; path look-alike family; interpolated move + flag witness (F26 listed).',
    'C14': 'grammar translator (Gen/Grammar.lean from bison --xml; C14_printed_in_yacc_grammar, C14_model_parser_uses_grammar, C14_grammar_shape); C14_int_literals for every digit string, C14_macro_exact_name, C14_error_anywhere_rejects_file, C14_usage_error_no_call, C14_getopt_options; macro-name, integer, path-list, pattern-flag, configuration-byte and command-line families; F33 listed.',
    'C15': 'C15_file_fields, C15_age_literal_exact, an executable strptime model for the regenerated layouts and C15_rfc5322_end_to_end, C15_header_true_age; date text x locale family.',
    'C16': 'RFC readings next to the code\'s (C16_qp_vs_rfc, C16_rfc2047_vs_rfc), C16_output_buffer_in_bounds; 8-bit sweep.',
    'C17': 'C17_exactly_once_partial for every action kind, listing parties and the external client; deep two-preemption thorough tier (F31, F32 listed).',
    'C18': 'limits as parameters and C18_refines_unbounded / C18_no_truncated_path (supersedes "truncation unrepresentable"), pathslice has theorems, defaultconf/readenv (HOME, TMPDIR, TZ) are modelled and swept without -f, sticky interpolation failure (C18_interpolation_failure_*), constants regenerated from the platform headers; position family.',
}


def main():
    checks = []
    for pid in sorted(CLAIMED):
        c = CLAIMED[pid]
        checks.append({
            'property_id': pid,
            'quick_cmd': 'python3 tools/check.py %s --tier quick' % pid,
            'thorough_cmd': 'python3 tools/check.py %s --tier thorough' % pid,
            'evidence_file': '/verif/evidence/%s.json' % pid,
            'replay_cmd_template': 'python3 tools/check.py %s --replay {path}' % pid,
            'engine': 'lean4-proof+correspondence',
            'level_claimed': {'category': c.get('category', 'proof'), 'text': c['text'], 'design_ref': c.get('design_ref', 'DESIGN.md section 4, ' + pid)},
            'level_note': c['note'] + (' ADDED 2026-09-30: ' + ADDED[pid] if pid in ADDED else ''),
            'technique': c['technique'],
        })
    man = {
        'version': 1,
        'setup_cmd': 'python3 tools/check.py --setup',
        'hooks': {
            'guard': 'MDSORT_VERIF',
            'enable': 'checks compile a scratch copy of /repo\'s working tree with -DMDSORT_VERIF (the guard currently guards nothing: static '
                      'functions are reached by #include of the module in the unit harness, libc calls by LD_PRELOAD)',
            'baseline_off_cmd': 'make -C /repo -k test',
            'source_commits': [],
            'add_only': True,
        },
        'engines': [{
            'name': 'lean4-proof+correspondence',
            'path': 'tools/check.py',
            'serves_properties': sorted(CLAIMED),
            'kind_free_text': 'Lean 4 theorems about a hand-written executable model (lean/Mdsort), tied to /repo on every run by '
                              'differential execution of the model driver against harnesses built from the working tree, plus a table translator',
        }],
        'checks': checks,
        'not_applicable': [{'property_id': p, 'reason': r} for p, r in sorted(NOT_YET.items()) if p not in CLAIMED],
        'notes': 'See DESIGN.md. KNOWN_FINDINGS.txt lists genuine defects recorded rather than repaired.',
    }
    with open(os.path.join(ROOT, 'MANIFEST.json'), 'w') as fh:
        json.dump(man, fh, indent=1)
        fh.write('\n')


if __name__ == '__main__':
    main()
