"""World-level correspondence: the real mdsort run (trace from the shim, final tree, exit status)
against the Lean program `Model.mainP` interpreted along the observed trace (`M conform`).

The trace is canonicalised: descriptors become handles numbered in order of creation (0-2 are
the standard descriptors), names/paths stay as they are, results become ok/name/eof/err.
"""
import os
import re
import vlib
import proc
import evalcommon as ec

TMPL = re.compile(rb'mdsort-XXV\d{5}$')


def hx(b):
    return b.hex() if b else '-'


def time_ns(tok):
    """A timestamp token of the shim trace (`sec.nsec`, RUN, NOW) as nanoseconds; 0 = set while the process ran."""
    if tok in ('RUN', 'NOW', ''):
        return 0
    sec, _, ns = tok.partition('.')
    return int(sec) * 1000000000 + int((ns or '0').ljust(9, '0')[:9])


def stat_value(a):
    W = 1 << 64
    word = lambda k: int(a.get(k, '0')) % W
    return (1 if a.get('isdir', '0') == '1' else 0) + 2 * (word('atime') + W * (word('mtime') + W * word('ctime')))


class Canon:
    def __init__(self):
        self.map = {0: 0, 1: 1, 2: 2}
        self.next = 3
        self.notes = []

    def new(self, fd):
        h = self.next
        self.next += 1
        self.map[fd] = h
        return h

    def h(self, fd):
        fd = int(fd)
        if fd not in self.map:
            self.notes.append('unknown fd %d' % fd)
            return 9999
        return self.map[fd]

    def res(self, t, ok_value=0):
        if t['errno']:
            return 'err %s' % t['errno']
        return 'ok %d' % ok_value

    def line(self, t):
        """One canonical wire line for a parsed trace call, or None if the call is not modelled."""
        n, a = t['name'], t['args']
        U = lambda k: proc.unescape(a[k])
        err = t['errno']
        if n == 'opendir':
            # the model's opendir yields a close-on-exec stream (libc contract); the shim records the descriptor's flag
            if not err and a.get('cloexec') != '1':
                self.notes.append('opendir: the descriptor of the stream is not close-on-exec')
                self.new(int(t['result']))
                return 'opendir-without-cloexec %s = ok 0' % hx(U('path'))
            r = self.res(t) if err else 'ok %d' % self.new(int(t['result']))
            return 'opendir %s = %s' % (hx(U('path')), r)
        if n == 'readdir':
            if err:
                r = 'err %s' % err
            elif t['result'] == 'END':
                r = 'eof'
            else:
                r = 'name %s' % hx(proc.unescape(t['result']))
            return 'readdir %d = %s' % (self.h(a['fd']), r)
        if n == 'lseek' and (a.get('off', '0') != '0' or a.get('whence', 'SEEK_SET') != 'SEEK_SET'):
            # the model's `lseek` IS lseek(fd, 0, SEEK_SET), the only form mdsort uses (message_get_fd rewinds the descriptor it hands to a
            # command): a seek to any other position is not the modelled call
            self.notes.append('lseek to offset %s %s' % (a.get('off'), a.get('whence')))
            return 'lseek-to-%s-%s %d = %s' % (a.get('off'), a.get('whence'), self.h(a['fd']), self.res(t))
        if n in ('rewinddir', 'closedir', 'fsync', 'close', 'fflush', 'fclose', 'lseek'):
            h = self.h(a['fd'])
            line = '%s %d = %s' % (n, h, self.res(t))
            if n in ('closedir', 'close', 'fclose'):
                self.map.pop(int(a['fd']), None)
            return line
        if n == 'openat':
            fl = a.get('flags', '')
            d = self.h(a['dirfd'])
            op = 'openexcl' if 'O_CREAT' in fl else 'openrd'
            # the model's openRd / openExcl ARE the close-on-exec, (exclusive) forms: any other flag set is not the modelled call
            want = {'O_WRONLY', 'O_CREAT', 'O_EXCL', 'O_CLOEXEC'} if op == 'openexcl' else {'O_RDONLY', 'O_CLOEXEC'}
            if set(fl.split('|')) != want:
                self.notes.append('openat with flags %s' % fl)
                return 'openat-flags-%s %d %s = ok 0' % (fl.replace('|', '+'), d, hx(U('path')))
            r = self.res(t) if err else 'ok %d' % self.new(int(t['result']))
            return '%s %d %s = %s' % (op, d, hx(U('path')), r)
        if n == 'open':
            # the model's openPath IS open(path, O_RDONLY|O_CLOEXEC) (Model/Fds.lean: C13_fd_hygiene rests on it)
            fl = a.get('flags', '')
            if set(fl.split('|')) != {'O_RDONLY', 'O_CLOEXEC'}:
                self.notes.append('open with flags %s' % fl)
                return 'open-flags-%s %s = ok 0' % (fl.replace('|', '+'), hx(U('path')))
            r = self.res(t) if err else 'ok %d' % self.new(int(t['result']))
            return 'openpath %s = %s' % (hx(U('path')), r)
        if n == 'fopen':
            r = self.res(t) if err else 'ok %d' % self.new(int(t['result']))
            return 'fopen %s = %s' % (hx(U('path')), r)
        if n == 'read':
            return 'read %d = %s' % (self.h(a['fd']), self.res(t, int(t['result']) if not err else 0))
        if n == 'write':
            return 'write %d %s = %s' % (self.h(a['fd']), a.get('n', '0'), self.res(t, int(t['result']) if not err else 0))
        if n == 'fcntl':
            # the model's dupfd IS fcntl(fd, F_DUPFD_CLOEXEC, 0); the shim logs no other command, checked here all the same
            if a.get('cmd', 'F_DUPFD_CLOEXEC') != 'F_DUPFD_CLOEXEC':
                self.notes.append('fcntl command %s' % a.get('cmd'))
                return 'fcntl-%s %d = ok 0' % (a.get('cmd'), self.h(a['fd']))
            src = self.h(a['fd'])
            r = self.res(t) if err else 'ok %d' % self.new(int(t['result']))
            return 'dupfd %d = %s' % (src, r)
        if n == 'fdopen':
            return 'fdopen %d = %s' % (self.h(a['fd']), self.res(t, self.h(a['fd'])))
        if n == 'fprintf':
            return 'fprintf %d 0 = %s' % (self.h(a['fd']), self.res(t, int(t['result']) if not err else 0))
        if n == 'renameat':
            return 'renameat %d %s %d %s = %s' % (self.h(a['olddirfd']), hx(U('old')), self.h(a['newdirfd']), hx(U('new')), self.res(t))
        if n == 'unlinkat':
            return 'unlinkat %d %s = %s' % (self.h(a['dirfd']), hx(U('path')), self.res(t))
        if n == 'unlink':
            p = TMPL.sub(b'mdsort-XXXXXXXX', U('path'))
            return 'unlink %s = %s' % (hx(p), self.res(t))
        if n == 'fstatat':
            # the value of a successful fstatat is the file's modification time in ns (0 = modified while mdsort ran)
            return 'fstatat %d %s = %s' % (self.h(a['dirfd']), hx(U('path')), self.res(t, time_ns(a.get('st_mtime', 'RUN'))))
        if n == 'stat':
            # the value of a successful stat is what mdsort reads from it (Model.statDecode): bit 0 = S_ISDIR, then the three
            # times in seconds (st_atim, st_mtim, st_ctim) as 64-bit two's complement words
            return 'stat %s = %s' % (hx(U('path')), self.res(t, stat_value(a)))
        if n == 'utimensat':
            def tm(v):
                return 'omit' if v == 'OMIT' else str(time_ns(v))
            return 'utimensat %d %s %s %s = %s' % (self.h(a['dirfd']), hx(U('path')), tm(a.get('atime', 'NOW')), tm(a.get('mtime', 'NOW')),
                                                   self.res(t))
        if n in ('mkostemp', 'mkstemp'):
            # the model's mkostemp IS mkostemp(template, O_CLOEXEC): plain mkstemp, or mkostemp without the flag, is another call
            fl = a.get('flags', '')
            if n == 'mkstemp' or 'O_CLOEXEC' not in fl.split('|'):
                self.notes.append('%s without O_CLOEXEC (flags %s)' % (n, fl or '-'))
                if not err:
                    self.new(int(t['result']))
                return '%s-without-cloexec %s = ok 0' % (n, hx(U('template')))
            r = self.res(t) if err else 'ok %d' % self.new(int(t['result']))
            return 'mkostemp %s = %s' % (hx(U('template')), r)
        if n == 'mkdtemp':
            r = self.res(t) if err else 'name %s' % hx(proc.unescape(t['result']))
            return 'mkdtemp %s = %s' % (hx(U('template')), r)
        if n in ('mkdir', 'rmdir'):
            return '%s %s = %s' % (n, hx(U('path')), self.res(t))
        if n == 'fork':
            # the model's `fork argv s` IS fork(); child: dup2(s, 0); execvp(argv[0], argv).  The shim's line carries what the CHILD really
            # handed to exec (function, file, vector) and which descriptor it had duplicated onto 0 - also for an injected failure of
            # fork (ghost child, harness/shim/vshim.c).  Anything but one execvp(argv[0], argv) is not the modelled call.
            if 'argc' not in a:
                self.notes.append('fork: the child called no exec function (%s)' % t['raw'])
                return 'fork-noexec = ok 0'
            argc = int(a['argc'])
            argv = [proc.unescape(a.get('a%d' % i, '')) for i in range(argc)]
            fn, f = a.get('fn'), U('file')
            if fn != 'execvp' or 'execs' in a or argc == 0 or f != argv[0]:
                self.notes.append('fork: the child ran %s(%r, ...) with argv[0] = %r%s' % (
                    fn, f, argv[0] if argv else None, ', %s exec calls' % a['execs'] if 'execs' in a else ''))
                return 'fork-%s%s = ok 0' % (fn, '-file-is-not-argv0' if fn == 'execvp' and 'execs' not in a else '')
            sfd = int(a.get('stdin', '-2'))
            if sfd < 0:
                self.notes.append('fork: descriptor 0 of the child is not the descriptor duplicated onto it last')
            s = self.h(sfd) if sfd >= 0 else 9999
            return 'fork %d %d%s = %s' % (s, argc, ''.join(' ' + hx(x) for x in argv), self.res(t, 1))
        if n == 'waitpid':
            st = a.get('status', '0')
            return 'waitpid = %s' % (self.res(t) if err or st == '-' else 'ok %s' % st)
        # a call the model does not know: kept in the trace, so that the conformance stops there (the driver cannot parse it)
        self.notes.append('unmodelled call %s' % n)
        return 'unmodelled-%s = ok 0' % n


def canon_trace(trace):
    c = Canon()
    out = []
    for t in trace:
        if t['kind'] != 'call':
            continue
        l = c.line(t)
        if l is not None:
            out.append(l)
    return out, c.notes


def blob(text):
    return hx(text.encode('latin-1') if isinstance(text, str) else text)


class WorldCheck:
    """Builds `M conform` requests for a scenario and compares the model's verdict with the real run."""

    def __init__(self, sc, tools):
        self.sc, self.tools = sc, tools
        self.h, self.henv = ec.harness(sc)
        self.driver = [vlib.driver_path()]
        self._ast = {}

    def blocks(self, scen, pats):
        """The configuration as parsed by the real parser (harness `ast`), patterns filled in. None = rejected."""
        key = (scen.config, scen.root)
        if key in self._ast:
            return self._ast[key]
        home = os.path.join(scen.root, 'home')
        out = vlib.run_batch([self.h], ['ast %s %s' % (blob(scen.config), blob(home))], self.henv)[0]
        res = None
        if out.startswith('BLOCKS'):
            toks = out.split(' ')[1:]
            filled = ec.fill_patterns(toks, pats)
            if filled is not None:
                res = [b.strip() for b in filled.split(' ;') if b.strip()]
        self._ast[key] = res
        return res

    def request(self, scen, pats, result, dry=False, syntax=False, stdin=False, relative=False):
        blocks = self.blocks(scen, pats)
        confok = blocks is not None
        env, files, devs, tr, notes = self._parts(scen, result, dry, syntax, stdin, confok, relative=relative)
        req = 'M conform %s %s %s %s %s %s' % (blob(env), blob('\n'.join(blocks or [])), files, blob(devs),
                                                hx(scen.stdin or b''), blob('\n'.join(tr)))
        return req, tr, notes

    def request_text(self, scen, result, defs=(), dry=False, syntax=False, stdin=False):
        """The same scenario for `M conformtext`: the configuration as the TEXT of the file (the parser model decides and builds
        the trees, `Model.mainText`); `defs` are the -D options as (name, value) byte strings."""
        env, files, devs, tr, notes = self._parts(scen, result, dry, syntax, stdin, False)
        dlines = '\n'.join('%s %s' % (hx(k), hx(v)) for k, v in defs)
        req = 'M conformtext %s %s %s %s %s %s %s' % (blob(env), blob(scen.config), blob(dlines), files, blob(devs),
                                                      hx(scen.stdin or b''), blob('\n'.join(tr)))
        return req, tr, notes

    def request_args(self, scen, result, argv, raw, conftext, permute=True, relative=False):
        """The scenario for `M conformargs`: the run of `Model.mainArgs` from the argument vector `argv` (bytes, argv[1..]), the raw
        environment `raw` = (HOME, pw_dir, TMPDIR, TZ, _PATH_TMP), each bytes or None = absent, and the text of the configuration file
        the run reads.  Modes and paths are computed by the model (parseArgs, readenv, defaultconf); the mode words of <env> are unused."""
        env, files, devs, tr, notes = self._parts(scen, result, False, False, False, False, relative=relative)
        alines = '\n'.join(hx(a) for a in argv)
        rlines = '\n'.join('~' if v is None else hx(v) for v in raw)
        req = 'M conformargs %s %s %s %s %s %s %s %s %s' % ('31' if permute else '30', blob(alines), blob(rlines), blob(env), hx(conftext), files,
                                                            blob(devs), hx(scen.stdin or b''), blob('\n'.join(tr)))
        return req, tr, notes

    def _parts(self, scen, result, dry, syntax, stdin, confok, relative=False):
        """relative: the abstract file system names every directory relative to the sandbox root, which is the working directory of the
        run (scenarios whose configuration names its maildirs by relative paths; absolute and relative names of one directory would be
        two directories to the model); the run was started with `-f conf`."""
        env = ' '.join([proc.PIN['VSHIM_TIME'], proc.PIN['VSHIM_PID'], hx(proc.PIN['VSHIM_HOST'].encode()), proc.PIN['VSHIM_RANDOM'],
                        hx(os.path.join(scen.root, 'tmp').encode()), hx(os.path.join(scen.root, 'home').encode()),
                        hx(b'conf' if relative else os.path.join(scen.root, 'conf').encode()), '1' if dry else '0', '1' if syntax else '0', '1' if stdin else '0',
                        '1' if confok else '0',
                        # the zone `time_format` (file-time date conditions) formats in: TZ of the run, `-` = unset
                        hx((scen.env_extra.get('TZ') or '').encode('latin-1'))])     # None = the scenario unsets TZ (ce13)
        files = []
        dirs = set()
        for rel, (kind, data, mt) in scen.initial.items():
            full = rel if relative else os.path.join(scen.root, rel)
            if relative and '/' not in rel:
                continue
            if kind == 'dir':
                dirs.add(full)
            elif kind == 'file':
                files.append((os.path.dirname(full), os.path.basename(full), data, mt or 0))
        lines = ['%s %s %s %d' % (hx(d.encode('latin-1')), hx(n.encode('latin-1')), hx(c), mt) for d, n, c, mt in files]
        # directories without files still have to exist in the abstract file system: an empty-name marker
        for d in sorted(dirs):
            lines.append('%s - -' % hx(d.encode('latin-1')))
        devs = '\n'.join('%s %d' % (hx(p.encode('latin-1')), i + 1) for i, p in enumerate(scen.devmap))
        tr, notes = canon_trace(result.trace)
        return env, blob('\n'.join(lines)), devs, tr, notes

    def verdict(self, reqs):
        return vlib.run_batch(self.driver, reqs)


def parse_fs(dump):
    """'FS <dump>' part of an OK answer -> {dir: {name: (data, durable)}}"""
    fs = {}
    if not dump:
        return fs
    for d in dump.split(';'):
        if '=' not in d:
            continue
        p, es = d.split('=', 1)
        ents = {}
        for e in es.split(','):
            if not e:
                continue
            n, data, dur, mt = (e.split(':') + ['0'])[:4]
            name = vlib.unhex(n)
            if name == b'':
                continue
            ents[name] = (vlib.unhex(data) if data != '?' else None, vlib.unhex(dur) if dur != '?' else None, int(mt))
        fs[vlib.unhex(p).decode('latin-1')] = ents
    return fs


def real_fs(scen, result):
    fs = {}
    for rel, (kind, data, mt) in result.final.items():
        full = os.path.join(scen.root, rel)
        if kind == 'dir':
            fs.setdefault(full, {})
        elif kind == 'file':
            fs.setdefault(os.path.dirname(full), {})[os.path.basename(full).encode('latin-1')] = data
    return fs


def compare(scen, result, answer):
    """-> (kind, detail): 'ok' | 'diverge' | 'impossible' | 'exit' | 'fs' | 'bad'"""
    if answer.startswith('DIVERGE'):
        return 'diverge', answer
    if answer.startswith('IMPOSSIBLE'):
        return 'impossible', answer
    if answer.startswith('FUELOUT'):
        # a readdir loop of the model stopped because its fuel ran out (MainSt.fuelOut), not because the directory
        # stream ended: the model's run is a truncation of the real one - a divergence, never an agreement
        return 'diverge', 'the model ran out of fuel in a readdir loop: ' + answer
    if not answer.startswith('OK'):
        return 'bad', answer[:300]
    m = re.match(r'OK exit=(\d+) reject=(\w+)( EXTRA \d+ next=.*?)? FS (.*?) LOG ?(.*)$', answer)
    if not m:
        return 'bad', answer[:300]
    if m.group(3):
        return 'diverge', 'model finished, trace continues:' + m.group(3)
    if result.status != int(m.group(1)):
        return 'exit', 'model exit %s, real %s' % (m.group(1), result.status)
    mfs = parse_fs(m.group(4))
    rfs = real_fs(scen, result)
    for d, ents in mfs.items():
        if not (d.endswith('/new') or d.endswith('/cur')):
            continue
        if not d.startswith('/'):
            d = os.path.join(scen.root, d)         # a scenario with relative names (request_args relative=True): the run's cwd is the root
        real = rfs.get(d, {})
        if set(real) != set(ents):
            return 'fs', 'directory %s: model %s, real %s' % (d, sorted(ents), sorted(real))
        rmt = real_mtimes(scen, result).get(d, {})
        for n, (data, dur, mt) in ents.items():
            if data is not None and real[n] != data:
                return 'fs', 'content of %s/%r differs' % (d, n)
            # modification time: the model carries the ns value of files that existed before the run (0 = set during the run)
            if mt != 0 and rmt.get(n) != mt:
                return 'fs', 'modification time of %s/%r: model %d, real %s' % (d, n, mt, rmt.get(n))
            if mt == 0 and rmt.get(n) is not None and rmt[n] < scen.t0_ns:
                return 'fs', 'modification time of %s/%r: the model says it was set during the run, real %d is older' % (d, n, rmt[n])
    return 'ok', m.group(5)


def real_mtimes(scen, result):
    mts = {}
    for rel, (kind, data, mt) in result.final.items():
        if kind == 'file':
            full = os.path.join(scen.root, rel)
            mts.setdefault(os.path.dirname(full), {})[os.path.basename(full).encode('latin-1')] = mt
    return mts
