"""C11, 8-bit family: bytes 0x80-0xff inside transfer-encoded bodies and parts.

Mail that went through an 8-bit unclean hop, a list footer in Latin-1 / UTF-8 appended after the encoded block, a flipped top bit:
bytes that the 7-bit transfer encodings do not have.  What the property says about them is decided by the SPECIFICATION
(lean/Mdsort/Spec/Decode.lean, Spec/Mime.lean; driver `S body` / `S parts`), not here:

* base64 (`Spec.b64`): the byte is no alphabet character, no `=`, no white space => the body is undecodable => `body`, `attachment
  body`, `exec stdin body` on it are an ERROR for that message and never a match;
* quoted-printable (`Spec.qp`) and the identity encodings: every byte that is not part of a valid `=XY` / `=\\n` is data.

Generators (tools/gen_msg.py: b64_with_8bit, qp_with_8bit): every value 0x80-0xff x the places a decoder treats differently (first /
inner / last data character, a whole group of four, around a line break of the encoding, instead of / before / between / after the
padding, a line of its own before / after a valid block, one character too many; in quoted-printable: literal, behind `=`, around a
soft line break) x payloads whose encodings end in no / one / two `=` x where the entity stands (the message itself, the text/plain
part of a multipart/alternative, the first / middle / last part of a multipart/mixed, a part of a nested multipart).

Two levels:

(a) unit (`requests`): `body` / `parts` of harness/unit/h_message.c against `M ...` / `S ...` of the Lean driver through
    vlib.Differential - implementation != specification is a failing input.  `check_family` makes sure the family is what it claims:
    the specification answers for every member (none is outside its domain) and says "undecodable" for every base64 member.
(b) process (`stage`): the real binary under the shim over maildirs with ONE defective message among healthy ones (which carry the
    same byte where it IS data: quoted-printable, 8bit), under the rule shapes of the property:
        match body /hello/ move            match body /./ move              match all exec stdin body CMD
        match attachment body /x/ move     match all attachment { match body /x/ exec stdin body CMD } [move]
    Per message the documented result comes from the specification's decoded body / part list; oracle:
      error    => exit status non-zero, a diagnostic that names the message, the message byte for byte where it was, no command ran on it;
      match    => moved (rules with move) with its content unchanged, the commands read exactly the specification's decoded bodies;
      no match => untouched, no command;
      exit status 0 iff no message is an error (error isolation: the healthy messages of the maildir are processed as if alone).
"""
import concurrent.futures as cf
import random
import vlib
import proc
import gen_msg
import worldscen as ws

R = '@R@'
H = ws.HELPER

# payloads: 15 / 14 / 16 bytes => the encoding ends in no / one / two `=`; a longer one => two lines of base64
TEXTS = [b'hello world, x\n', b'hello world x\n', b'hello world x y\n',
         b'hello world x: a text that is long enough for a second line of base64 characters\n']
PLACES = ['top', 'alternative', 'mixed-first', 'mixed-middle', 'mixed-last', 'nested']
CLASSES = ['alphabet', 'pad', 'space', 'nul', 'other']


def tagged(text, tag):
    """The payload with a marker (so that what a command read can be attributed), same length class (three more characters)."""
    return text[:-1] + b' ' + tag + b'\n'


def place(i, where, ent):
    """The message number i (X-Id) with the entity `ent` (bytes: headers, empty line, body) at `where`."""
    top = [b'To: user%d@example.com' % i, b'X-Id: %d' % i, b'Subject: message %d' % i]
    hd = b''.join(x + b'\n' for x in top)
    sib1 = gen_msg.entity(b'text/plain', None, b'first sibling of message %d\n' % i)
    sib2 = gen_msg.entity(b'text/html', b'quoted-printable', b'<p>second sibling of message %d =3D caf=E9</p>\n' % i)
    if where == 'top':
        return hd + ent
    if where == 'alternative':
        # the text/plain part is the one a body condition reads, whatever stands before it
        html = gen_msg.entity(b'text/html', None, b'<p>hello html %d</p>\n' % i)
        if not ent.startswith(b'Content-Type:'):
            ent = b'Content-Type: text/plain\n' + ent
        return hd + gen_msg.multipart(b'alternative', b'alt%d' % i, [html, ent])
    if where in ('mixed-first', 'mixed-middle', 'mixed-last'):
        parts = {'mixed-first': [ent, sib1, sib2], 'mixed-middle': [sib1, ent, sib2], 'mixed-last': [sib1, sib2, ent]}[where]
        return hd + gen_msg.multipart(b'mixed', b'b%d' % i, parts, preamble=b'This is a multi-part message.\n')
    if where == 'nested':
        inner = gen_msg.multipart(b'related', b'in%d' % i, [sib2, ent])
        return hd + gen_msg.multipart(b'mixed', b'b%d' % i, [sib1, inner])
    raise ValueError(where)


# ----------------------------------------------------------------------------------------------------------------------------------
# (a) unit level
# ----------------------------------------------------------------------------------------------------------------------------------

def requests(tier):
    """-> (requests for vlib.Differential, meta per request: dict(byte, enc, variant, where, expect))  expect: 'error' | 'data'"""
    reqs, meta = [], []

    def add(op, msg, **kw):
        reqs.append((op, msg))
        meta.append(kw)

    k = 0
    for b in gen_msg.EIGHTBIT:
        for ti, text in enumerate(TEXTS):
            for label, body in gen_msg.b64_with_8bit(text, b):
                ent = gen_msg.entity(None, b'base64', body)
                v = 'b64/%d/%s' % (ti, label)
                add('body', place(1, 'top', ent), byte=b, enc='base64', variant=v, where='top', expect='error')
                # one further place per variant in turn (every place meets every byte and every variant over the payloads);
                # the thorough tier has all of them
                ws_ = PLACES[1:] if tier != 'quick' else [PLACES[1 + k % (len(PLACES) - 1)]]
                k += 1
                for where in ws_:
                    ent2 = gen_msg.entity(b'text/plain' if where == 'alternative' else b'application/octet-stream', b'base64', body)
                    m = place(2, where, ent2)
                    add('parts', m, byte=b, enc='base64', variant=v, where=where, expect='error')
                    if where == 'alternative':
                        add('body', m, byte=b, enc='base64', variant=v, where=where, expect='error')
        for label, body in gen_msg.qp_with_8bit(b'hello caf\xe9 = x\n', b):
            ent = gen_msg.entity(None, b'quoted-printable', body)
            add('body', place(3, 'top', ent), byte=b, enc='quoted-printable', variant='qp/' + label, where='top', expect='data')
            where = PLACES[1 + k % (len(PLACES) - 1)]
            k += 1
            m = place(4, where, gen_msg.entity(b'text/plain', b'quoted-printable', body))
            add('parts', m, byte=b, enc='quoted-printable', variant='qp/' + label, where=where, expect='data')
            if where == 'alternative':
                add('body', m, byte=b, enc='quoted-printable', variant='qp/' + label, where=where, expect='data')
        c = bytes([b])
        for cte in (None, b'8bit', b'7bit', b'binary'):
            body = b'hello ' + c + b' x\n' + c + b'\n'
            add('body', place(5, 'top', gen_msg.entity(None, cte, body)), byte=b, enc=(cte or b'none').decode(), variant='identity', where='top', expect='data')
        add('parts', place(6, 'mixed-middle', gen_msg.entity(b'text/plain', b'8bit', b'hello ' + c + b' x\n')), byte=b, enc='8bit', variant='identity',
            where='mixed-middle', expect='data')
    return reqs, meta


def _decoded_of(meta, op, ans):
    """What the answer says about the family member's entity: None (error), bytes (decoded), 'absent' (not among the parts)."""
    if op == 'body':
        return None if ans == 'NONE' else (vlib.unhex(ans[1:].split(' ')[0] or '-') if ans.startswith('B') else 'absent')
    if not ans.startswith('P'):
        return None if ans == 'NONE' else 'absent'
    toks = ans.split(' ')[1:]
    idx = {'alternative': 1, 'mixed-first': 0, 'mixed-middle': 1, 'mixed-last': 2, 'nested': 3}[meta['where']]
    if idx >= len(toks):
        return 'absent'
    d = toks[idx].split('|')[-1]
    return None if d == 'NONE' else vlib.unhex(d[1:] or '-')


def check_family(rep, reqs, meta, impl, spec):
    """The family must be what it claims (a generator that drifts would silently weaken the stage).  -> coverage dict"""
    cov = {'requests': len(reqs), 'bytes': len(set(m['byte'] for m in meta)), 'outside_specification_domain': 0,
           'base64_members': 0, 'base64_members_the_specification_calls_undecodable': 0,
           'data_members': 0, 'data_members_whose_decoded_content_holds_the_byte': 0, 'by_class': {}, 'by_place': {}, 'variants': 0}
    bad = []
    for r, m, im, sp in zip(reqs, meta, impl, spec):
        if sp is None:
            cov['outside_specification_domain'] += 1
            bad.append('outside the domain of the specification: %s %r' % (r[0], r[1][:200]))
            continue
        d = _decoded_of(m, r[0], sp)
        cls = gen_msg.eightbit_class(m['byte'])
        cov['by_class'][cls] = cov['by_class'].get(cls, 0) + 1
        cov['by_place'][m['where']] = cov['by_place'].get(m['where'], 0) + 1
        if m['expect'] == 'error':
            cov['base64_members'] += 1
            if d is None:
                cov['base64_members_the_specification_calls_undecodable'] += 1
            else:
                bad.append('base64 with the byte 0x%02x (%s, %s) is not undecodable by the specification: %s' % (m['byte'], m['variant'], m['where'], sp[:80]))
        else:
            cov['data_members'] += 1
            if isinstance(d, bytes) and bytes([m['byte']]) in d:
                cov['data_members_whose_decoded_content_holds_the_byte'] += 1
            else:
                bad.append('%s with the byte 0x%02x (%s, %s): the specification does not keep the byte as data: %s' % (m['enc'], m['byte'], m['variant'], m['where'], sp[:80]))
    cov['variants'] = len(set(m['variant'] for m in meta))
    cov['rule'] = ('every byte 0x80-0xff x %d places of a base64 / quoted-printable / identity encoding (base64: first, inner, last data character, a '
                   'group of four, around the line break, one character too many, instead of / before / between / after the padding, lines of '
                   'their own before / after a valid block, over payloads ending in no / one / two `=` and a two-line one; quoted-printable: '
                   'literal, behind `=`, around a soft line break) x the message itself / text/plain part of a multipart/alternative / first, '
                   'middle, last part of a multipart/mixed / nested part; `body` and `parts` of message.c against Spec.decodedBody / Spec.parts: '
                   'undecodable base64 is an error, elsewhere the byte is data' % cov['variants'])
    if bad:
        rep.violation({'obligation': 'C11 8-bit family (unit level): the generated messages are not what the family claims', 'problems': bad[:10],
                       'count': len(bad)}, False)
    return cov


# ----------------------------------------------------------------------------------------------------------------------------------
# (b) process level
# ----------------------------------------------------------------------------------------------------------------------------------

RULES = {
    'body-hello': ('match body /hello/ move "%s/dst"' % R, [('hello', '')]),
    'body-any': ('match body /./ move "%s/dst"' % R, [('.', '')]),
    'exec-body': ('match all exec stdin body { "%s" "body" }' % H, []),
    'att-cond': ('match attachment body /x/ move "%s/dst"' % R, [('x', '')]),
    'att-block': ('match all attachment { match body /x/ exec stdin body { "%s" "part" } }' % H, [('x', '')]),
    'att-block-move': ('match all attachment { match body /x/ exec stdin body { "%s" "part" } } move "%s/dst"' % (H, R), [('x', '')]),
}
BODY_RULES = ('body-hello', 'body-any', 'exec-body')
MOVES = ('body-hello', 'body-any', 'att-cond', 'att-block-move')


def config(rule):
    return 'maildir "%s/src" {\n\t%s\n}\n' % (R, RULES[rule][0])


def healthy(i, kind, b):
    """Healthy messages; those that can carry the byte as DATA do."""
    import base64
    c = bytes([b])
    t = b'm%d' % i
    if kind == 'b64':
        return place(i, 'top', gen_msg.entity(None, b'base64', base64.encodebytes(tagged(TEXTS[0], t))))
    if kind == 'qp':
        return place(i, 'top', gen_msg.entity(b'text/plain; charset=iso-8859-1', b'quoted-printable', b'hello caf=E9 ' + c + b' x =3D ' + t + b'\n'))
    if kind == '8bit':
        return place(i, 'top', gen_msg.entity(None, b'8bit', b'hello ' + c + b' plain x ' + t + b'\n'))
    if kind == 'mixed':
        return place(i, 'mixed-last', gen_msg.entity(b'application/octet-stream', b'base64', base64.encodebytes(tagged(TEXTS[1], t))))
    if kind == 'alternative':
        return place(i, 'alternative', gen_msg.entity(b'text/plain', b'base64', base64.encodebytes(tagged(TEXTS[2], t))))
    if kind == 'nomatch':
        return place(i, 'top', gen_msg.entity(None, b'base64', base64.encodebytes(b'\n\n')))          # decodes to empty lines: no hello, no x, no `.`
    if kind == 'mixed-qp':
        return place(i, 'mixed-first', gen_msg.entity(b'text/plain', b'quoted-printable', b'caf=E9 ' + c + b' x=\n ' + t + b'\n'))
    raise ValueError(kind)


HEALTHY = ['b64', 'qp', '8bit', 'mixed', 'alternative', 'nomatch', 'mixed-qp']


def population(rng, rule, b, variant, where):
    """-> ({(sub, name): bytes}, meta {id: dict}), the defective message at a position of the directory order chosen by rng"""
    kinds = rng.sample(HEALTHY, 4)
    for must in (('b64', 'alternative') if rule in BODY_RULES else ('mixed', 'mixed-qp')):
        if must not in kinds:
            kinds[rng.randrange(len(kinds))] = must
    kinds = list(dict.fromkeys(kinds))
    pos = rng.choice([0, len(kinds) // 2, len(kinds)])
    msgs, meta = {}, {}
    ids = list(range(1, len(kinds) + 2))
    hk = iter(kinds)
    for n, i in enumerate(ids):
        if n == pos:
            ti, label = variant
            body = dict(gen_msg.b64_with_8bit(tagged(TEXTS[ti], b'm%d' % i), b))[label]
            ct = None if where == 'top' else (b'text/plain' if where == 'alternative' else b'application/octet-stream')
            m = place(i, where, gen_msg.entity(ct, b'base64', body))
            meta[i] = {'defective': True, 'what': 'base64 %s with the byte 0x%02x (%s; payload %d), entity at: %s' % (label, b, gen_msg.eightbit_class(b), ti, where)}
        else:
            k = next(hk)
            m = healthy(i, k, b)
            meta[i] = {'defective': False, 'what': 'healthy: ' + k}
        meta[i]['name'] = '%d.host' % i
        msgs[('new', meta[i]['name'])] = m
    return msgs, meta


def sample_bytes(rng, tier):
    """Values from every class of gen_msg.eightbit_class (what the byte would be without its top bit)."""
    if tier != 'quick':
        return list(gen_msg.EIGHTBIT)
    by = {}
    for b in gen_msg.EIGHTBIT:
        by.setdefault(gen_msg.eightbit_class(b), []).append(b)
    out = rng.sample(by['alphabet'], 16) + by['pad'] + rng.sample(by['space'], 3) + by['nul'] + rng.sample(by['other'], 11)
    return out


def jobs(tier, seed):
    rng = random.Random(seed * 7919 + 11)
    variants = {}
    for ti, t in enumerate(TEXTS):
        for label, _ in gen_msg.b64_with_8bit(t, 0x80):
            variants.setdefault(label, []).append(ti)
    labels = sorted(variants)
    out = []
    n = 0
    for b in sample_bytes(rng, tier):
        for rule in RULES:
            places = ['top', 'alternative'] if rule in BODY_RULES else ['mixed-first', 'mixed-middle', 'mixed-last', 'nested']
            if rule == 'att-cond':
                # a condition is decided by the first part that matches or fails, in order: the nested multipart itself is a part,
                # stands before its own parts and its undecoded text (`Content-Type: text/...`) matches /x/
                places.remove('nested')
            if tier == 'quick':
                picks = [(labels[(n * 5 + j * 7) % len(labels)], places[(n + j) % len(places)]) for j in range(3)]
                # the plain case (one damaged character, count still a multiple of four) in every population set
                picks[0] = (['replace-first', 'replace-middle', 'replace-last', 'trailer-4'][n % 4], picks[0][1])
            else:
                picks = [(l, places[(n + j) % len(places)]) for j, l in enumerate(labels)]
            n += 1
            for label, where in picks:
                ti = rng.choice(variants[label])
                out.append({'byte': b, 'rule': rule, 'variant': (ti, label), 'where': where, 'rng': rng.randrange(1 << 30)})
    return out


def spec_answers(msgs_list):
    """{message bytes: (S body answer, S parts answer)} from the Lean driver."""
    uniq = list(dict.fromkeys(m for ms in msgs_list for m in ms))
    lines = []
    for m in uniq:
        lines.append('S body ' + vlib.hexs(m))
        lines.append('S parts ' + vlib.hexs(m))
    ans = vlib.run_batch([vlib.driver_path()], lines)
    return {m: (ans[2 * i], ans[2 * i + 1]) for i, m in enumerate(uniq)}


def _dec(tok):
    """`B<hex>` / `NONE` -> bytes / None"""
    return None if tok == 'NONE' else vlib.unhex(tok[1:] or '-')


def documented(rule, sbody, sparts):
    """The documented result of the rule on one message from the specification's decoded body and part list:
    -> ('ERROR' | 'MATCH' | 'NOMATCH' | None (the specification does not answer), [what the commands read, in order])"""
    if rule in BODY_RULES:
        if sbody in ('NOTWF', 'BADOP') or not (sbody == 'NONE' or sbody.startswith('B')):
            return None, []
        d = _dec(sbody.split(' ')[0])
        if d is None:
            return 'ERROR', []
        if rule == 'body-hello':
            return ('MATCH' if b'hello' in d else 'NOMATCH'), []
        if rule == 'body-any':
            return ('MATCH' if any(c != 10 for c in d) else 'NOMATCH'), []        # REG_NEWLINE: `.` is any byte but a newline
        return 'MATCH', [d]
    if sparts == 'NONE':
        return 'ERROR', []
    if not sparts.startswith('P'):
        return None, []
    decs = [_dec(t.split('|')[-1]) for t in sparts.split(' ')[1:]]
    if rule == 'att-cond':
        for d in decs:                       # parts in order: the first match or error decides
            if d is None:
                return 'ERROR', []
            if b'x' in d:
                return 'MATCH', []
        return 'NOMATCH', []
    if any(d is None for d in decs):         # a block visits every part; nothing is done for a message that cannot be evaluated
        return 'ERROR', []
    reads = [d for d in decs if b'x' in d]
    return ('MATCH' if reads else 'NOMATCH'), reads


def helper_reads(r):
    from props.c13 import parse_helper
    out = []
    for line in r.helper:
        argv, stdin, fds, target = parse_helper(line)
        out.append(stdin)
    return out


def judge(rule, msgs, meta, verdicts, r):
    """-> problems (list of str)"""
    probs = []
    files = ws.maildir_files(r.final)
    where = {}
    for rel, data in files.items():
        where.setdefault(ws.msg_id(data), []).append(rel)
    err = r.err.decode('latin-1')
    want_reads, nerr = [], 0
    for i in sorted(meta):
        m = meta[i]
        rel0 = 'src/new/' + m['name']
        orig = msgs[('new', m['name'])]
        res, reads = verdicts[i]
        desc = 'message %d (%s)' % (i, m['what'])
        at = where.get(i, [])
        if res == 'ERROR':
            nerr += 1
            why = 'cannot be decoded (specification: error)'
            if files.get(rel0) != orig:
                probs.append('%s %s but it was moved or changed: now at %s' % (desc, why, at or 'nowhere'))
            if not any(rel0 in l for l in err.split('\n')):
                probs.append('%s %s but no diagnostic names it' % (desc, why))
            continue
        want_reads += reads
        if len(at) != 1:
            probs.append('%s exists %d times after the run: %s' % (desc, len(at), at))
            continue
        if files[at[0]] != orig:
            probs.append('%s: content changed' % desc)
        moved = res == 'MATCH' and rule in MOVES
        if moved and not at[0].startswith('dst/new/'):
            probs.append('%s matches (specification) but is at %s, not in dst/new' % (desc, at[0]))
        if not moved and at[0] != rel0:
            probs.append('%s: %s, but it is at %s' % (desc, 'no match (specification)' if res == 'NOMATCH' else 'the rule does not move', at[0]))
    got = helper_reads(r)
    if sorted(got) != sorted(want_reads):
        extra = list(got)
        for w in want_reads:
            if w in extra:
                extra.remove(w)
        missing = list(want_reads)
        for g in got:
            if g in missing:
                missing.remove(g)
        if extra:
            probs.append('commands read content that is no decoded body / part of a message that can be evaluated: %r' % [e[:120] for e in extra[:3]])
        if missing:
            probs.append('no command read the decoded content %r' % [e[:120] for e in missing[:3]])
    for i in where:
        if i not in meta:
            probs.append('stray file(s) %s' % where[i])
    if nerr and r.status == 0:
        probs.insert(0, 'exit status 0 although %d message(s) cannot be decoded' % nerr)
    if not nerr and r.status != 0:
        probs.insert(0, 'exit status %r although every message can be evaluated: %s' % (r.status, err[-300:]))
    if r.status not in (0, 1):
        probs.append('exit status %r' % (r.status,))
    return probs


def run_job(tools, job):
    rng = random.Random(job['rng'])
    msgs, meta = population(rng, job['rule'], job['byte'], job['variant'], job['where'])
    t = {}
    t.update(proc.maildir_tree('src', msgs))
    t.update(proc.maildir_tree('dst', {}))
    scen = ws.Spec('c11bytes', config(job['rule']), RULES[job['rule']][1], tree=t).build(tools)
    try:
        r = scen.run(trace=False)
        return {'job': job, 'msgs': msgs, 'meta': meta, 'r': r, 'config': scen.config.replace(scen.root, R).replace(tools.helper, H),
                'stderr': r.err[-600:].decode('latin-1').replace(scen.root, R)}
    finally:
        scen.cleanup()


def verdicts_of(x, ans):
    v = {}
    for i, m in x['meta'].items():
        sb, sp = ans[x['msgs'][('new', m['name'])]]
        v[i] = documented(x['job']['rule'], sb, sp)
    return v


def describe(x, verdicts, probs):
    j = x['job']
    return {'stage': 'c11bytes', 'harness': 'process (real binary under the shim)', 'family': '8-bit bytes in transfer-encoded content',
            'rule': j['rule'], 'byte': '0x%02x' % j['byte'], 'byte_class': gen_msg.eightbit_class(j['byte']), 'variant': j['variant'][1],
            'payload': j['variant'][0], 'entity_at': j['where'], 'config': x['config'], 'exit_status': x['r'].status, 'stderr': x['stderr'],
            'documented': {str(i): verdicts[i][0] for i in verdicts},
            'defective_message': [x['msgs'][('new', m['name'])].decode('latin-1') for i, m in x['meta'].items() if m['defective']][0],
            'commands_read': [g[:200].decode('latin-1') for g in helper_reads(x['r'])],
            'final_places': {str(ws.msg_id(d)): rel for rel, d in ws.maildir_files(x['r'].final).items()},
            'messages': {'src/%s/%s' % k: v.decode('latin-1') for k, v in x['msgs'].items()},
            'what': probs[:8], 'replay_cmd': 'python3 tools/check.py C11 --replay <this file>'}


def stage(rep, tools, nthreads=None):
    js = jobs(rep.tier, rep.seed)
    nthreads = nthreads or (4 if rep.tier == 'quick' else min(8, vlib.NCPU))
    with cf.ThreadPoolExecutor(nthreads) as ex:
        xs = list(ex.map(lambda j: run_job(tools, j), js))
    ans = spec_answers([list(x['msgs'].values()) for x in xs])
    stats = {'populations': len(xs), 'messages': sum(len(x['msgs']) for x in xs), 'documented': {}, 'failing': 0, 'by_rule': {}, 'by_byte_class': {},
             'by_variant': {}, 'by_place': {}, 'bytes': sorted(set('0x%02x' % j['byte'] for j in js))}
    nrep, drift = 0, []
    for x in xs:
        j = x['job']
        v = verdicts_of(x, ans)
        for i, (res, _) in v.items():
            stats['documented'][res or 'no answer'] = stats['documented'].get(res or 'no answer', 0) + 1
            # the family claims: exactly the defective message is an error, and the specification answers for all of them
            if res is None or (res == 'ERROR') != x['meta'][i]['defective']:
                drift.append('%s / %s: message %d (%s) has the documented result %s' % (j['rule'], j['variant'][1], i, x['meta'][i]['what'], res))
        for k, val in (('by_rule', j['rule']), ('by_byte_class', gen_msg.eightbit_class(j['byte'])), ('by_variant', j['variant'][1]), ('by_place', j['where'])):
            stats[k][val] = stats[k].get(val, 0) + 1
        if any(res is None for res, _ in v.values()):
            continue
        probs = judge(j['rule'], x['msgs'], x['meta'], v, x['r'])
        if probs:
            stats['failing'] += 1
            if nrep < 6:
                nrep += 1
                rep.finding('unlisted', describe(x, v, probs))
    if drift:
        rep.violation({'obligation': 'C11 8-bit family (process level): a population is not "one undecodable message among healthy ones" by the specification',
                       'problems': drift[:10], 'count': len(drift)}, False)
    stats['rule'] = ('maildirs with ONE message whose base64 content holds a byte 0x80-0xff (values from every class of what the byte would be without its '
                     'top bit: base64 character / = / white space / NUL / other; first, inner, last data character, group of four, padding, lines '
                     'before / after a valid block; the message itself, the text/plain part of a multipart/alternative, the first / middle / last '
                     'part of a multipart/mixed, a nested part) among healthy messages carrying the same byte as quoted-printable / 8bit data; '
                     'rules: body /hello/ move, body /./ move, exec stdin body, attachment body /x/ move, attachment block with body /x/ exec '
                     'stdin body (with and without move); real binary under the shim; per message the documented result from Spec.decodedBody / '
                     'Spec.parts (driver S body / S parts): error => status non-zero, diagnostic naming the message, message untouched, no '
                     'command; match => moved unchanged, commands read the specification\'s decoded content; status 0 iff no error')
    return stats


def replay(tools, j):
    """Re-run a recorded finding: configuration and messages are in the replay file."""
    msgs = {}
    for rel, data in (j.get('messages') or {}).items():
        _, sub, name = rel.split('/', 2)
        msgs[(sub, name)] = data.encode('latin-1')
    t = {}
    t.update(proc.maildir_tree('src', msgs))
    t.update(proc.maildir_tree('dst', {}))
    rule = j['rule']
    scen = ws.Spec('c11bytes-replay', config(rule), RULES[rule][1], tree=t).build(tools)
    try:
        r = scen.run(trace=False)
        ans = spec_answers([list(msgs.values())])
        meta = {ws.msg_id(d): {'name': k[1], 'what': 'see the replay file', 'defective': False} for k, d in msgs.items()}
        v = {i: documented(rule, *ans[msgs[('new', m['name'])]]) for i, m in meta.items()}
        print('config:\n' + scen.config.replace(scen.root, R))
        print('exit status', r.status)
        print('stderr:', r.err.decode('latin-1').replace(scen.root, R))
        for i in sorted(meta):
            print('message %d: documented %s' % (i, v[i][0]))
        for rel, d in sorted(ws.maildir_files(r.final).items()):
            print('final: %s (message %s)' % (rel, ws.msg_id(d)))
        for g in helper_reads(r):
            print('a command read %r' % g[:200])
        for p in judge(rule, msgs, meta, v, r):
            print('PROBLEM', p)
    finally:
        scen.cleanup()
