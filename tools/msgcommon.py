"""Shared pieces of the checks built on harness/unit/h_message.c (C08, C10, C11)."""
import random
import vlib
import gen_msg

SETVALS = [b'v', b'val ue', b'', b'\\1', b'${path}', b'x' * 80, b'\xe9', b'a:b', b'=?utf-8?Q?x?=']
NEWKEYS = [b'New', b'X-New', b'Importance', b'X-Label', b'A', b'M-mid', b'zz-last']


def hset_oracle(req, out):
    o = out.split(' ')[0]
    return tuple(['hsetcheck', vlib.unhex(o)] + list(req[1:]))


def harness(sc):
    return sc.unit_harness('h_message', ['message.c']), dict(vlib.ASAN_ENV, HARNESS_TMP=sc.dir)


def messages(rng, n, wf_share=0.75, mime_share=0.0, mutate_share=0.15):
    out = []
    for _ in range(n):
        if rng.random() < mime_share:
            m = gen_msg.mime_message(rng, maxdepth=rng.choice([1, 2, 3, 6]), parts_max=rng.choice([3, 6, 20, 60]))
        else:
            m = gen_msg.simple_message(rng, wellformed=rng.random() < wf_share)
        if rng.random() < mutate_share:
            m = gen_msg.mutate(rng, m)
        out.append(m)
    return out


def set_requests(rng, m):
    kvs = []
    for _ in range(rng.choice([0, 1, 1, 2, 3, 4])):
        kvs += [rng.choice(gen_msg.NAMES + NEWKEYS + NEWKEYS), rng.choice(SETVALS)]
    return tuple(['hset', m, rng.choice(gen_msg.NAMES + NEWKEYS)] + kvs)


def corpus(prop):
    """Minimised past disagreements: one request per line, `op hex hex ...`."""
    import os
    path = os.path.join(vlib.ROOT, 'corpus', prop + '.txt')
    reqs = []
    if os.path.exists(path):
        for line in open(path):
            line = line.split('#')[0].strip()
            if not line:
                continue
            p = line.split(' ')
            reqs.append(tuple([p[0]] + [vlib.unhex(x) for x in p[1:]]))
    return reqs


def generic_replay(rep, path, prop, spec_ops, oracles, included=('message.c',), hname='h_message'):
    import json
    j = json.load(open(path))
    sc = vlib.Scratch()
    h = sc.unit_harness(hname, list(included))
    vlib.lean_gate(rep, prop, sc, [])
    reqs = []
    lines = [j['request']] if 'request' in j else [e['request'] for e in j.get('examples', [])]
    for line in lines:
        p = line.split(' ')
        reqs.append(tuple([p[0]] + [vlib.unhex(x) for x in p[1:]]))
    d = vlib.Differential(rep, [h], env=dict(vlib.ASAN_ENV, HARNESS_TMP=sc.dir), spec_ops=spec_ops, oracles=oracles, name=hname)
    impl, model, spec = d.run(reqs, shrink=False)
    for r, i, m, s in zip(reqs, impl, model, spec):
        print('request        %s' % d.line(r))
        print('implementation %s' % i)
        print('model          %s' % m)
        print('specification  %s' % s)
    d.conclude('replay')
    rep.coverage.update({'evaluations': len(reqs), 'distinct_nontrivial': len(reqs)})
