"""C18, position family: an over-long path that arises in the MIDDLE of an action list.

The boundary sweep of props/c18.py puts each path-building site under a rule with ONE action.  Here the action (or condition)
whose path does not fit stands at every position of action lists of length 1..3 - before / after label, add-header, flag, exec,
move, and with the list split over two rules chained by `pass` - for every site where an over-long path can arise at RUN time:

  move-interp    move "P\\1": the destination is over-long only after interpolation of a header-chosen capture
  isdir-interp   isdirectory "P\\1" (a condition: every action of its rule and of later rules comes after it)
  flag           flag !new / flags "F" on a message of a maildir so deep that the new message path no longer fits (or, with a long
                 host name, the generated name exceeds NAME_MAX)
  rewrite        label / add-header: the rewritten message gets a generated name that no longer fits (PATH_MAX / NAME_MAX)
  exec-tmp       exec stdin body: the temporary file TMPDIR/mdsort-XXXXXXXX does not fit

Every tree is built through directory descriptors, so the INTENDED object exists in full whatever its length, and a decoy of the
right kind stands at the truncation: a maildir X with the truncation being X/new, X/cur, X/new/ ; a maildir rooted at a prefix cut
inside a component; a maildir at the NAME_MAX truncation of an over-long component; a directory at the first PATH_MAX-1 bytes
of an isdirectory path; a sibling message at the truncation of a message path / of a generated name.

Oracle, from the property (and C01 for where the message may be): the run reports the failure (non-zero exit, a diagnostic); the
message exists exactly once, NOT in a decoy, in the maildir it was in (in `cur` only if a flag action precedes the failing one; for
flag: possibly at the intended place in full) with its content intact (original, or original plus headers the list configures when a
rewriting action comes no later than the failing one); everything else in the tree is byte for byte what it was; no traced call
names a truncation of an intended path or name; no action AFTER the failing one was executed (helper record, destination of a later
move, `cur`); the other messages of the maildir (before and after it in reading order) are delivered normally by their own rule.
Controls: the same shapes with everything fitting must carry out every action (exit 0, every command run in order, final place).
"""
import concurrent.futures as cf
import os
import subprocess
import vlib
import proc
import worldscen as ws

PATH_MAX, NAME_MAX = 4096, 255
GEN = '1790000000.4242_8.'            # maildir_genname under proc.PIN: <time>.<pid>_<count>.<host><flags>
TMPL = 'mdsort-XXXXXXXX'


def base():
    import props.c18 as b
    return b


# --------------------------------------------------------------------------
# trees beyond PATH_MAX: everything through descriptors
# --------------------------------------------------------------------------

def dwalk(root):
    """{relative path: content} of every regular file below root (any depth, any path length)."""
    out = {}

    def rec(fd, rel):
        with os.scandir(fd) as it:
            ents = [(e.name, e.is_dir(follow_symlinks=False), e.is_file(follow_symlinks=False)) for e in it]
        for name, isd, isf in ents:
            if isd:
                try:
                    nfd = os.open(name, os.O_RDONLY | os.O_DIRECTORY | os.O_NOFOLLOW, dir_fd=fd)
                except OSError:
                    continue
                try:
                    rec(nfd, rel + '/' + name)
                finally:
                    os.close(nfd)
            elif isf:
                try:
                    f = os.open(name, os.O_RDONLY | os.O_NOFOLLOW, dir_fd=fd)
                except OSError:
                    continue
                try:
                    out[rel + '/' + name] = os.read(f, 1 << 20)
                finally:
                    os.close(f)
    fd = os.open(root, os.O_RDONLY | os.O_DIRECTORY)
    try:
        rec(fd, '.')
    finally:
        os.close(fd)
    return out


def msg_id(data):
    return ws.msg_id(data)


# --------------------------------------------------------------------------
# shapes: which actions, where the failing one stands, where the list is split by `pass`
# --------------------------------------------------------------------------

FILL = {
    # a flag action AFTER the move absorbs it (matches_merge keeps the later entry, of type flag, whose path is not interpolated: the
    # list then holds no over-long path at all, see design-notes/pkg-ce12.md); a flag action before it gives the move its subdirectory
    'move-interp': {'before': ['label', 'addhdr', 'exec', 'flag'], 'after': ['label', 'addhdr', 'exec']},
    'isdir-interp': {'before': ['label', 'addhdr', 'exec', 'flag'], 'after': ['label', 'addhdr', 'exec', 'flag', 'movedst']},
    # a deep maildir / a long host name make EVERY renaming action fail: only commands may precede the first one
    'flag': {'before': ['exec'], 'after': ['label', 'addhdr', 'exec']},
    'rewrite': {'before': ['exec'], 'after': ['label', 'addhdr', 'exec', 'flag', 'movedst']},
    'exec-tmp': {'before': ['label', 'addhdr', 'exec', 'flag'], 'after': ['label', 'addhdr', 'exec', 'flag', 'movedst']},
}
OVS = {'move-interp': ['move'], 'isdir-interp': ['isdir'], 'flag': ['flagcur', 'flagsF'], 'rewrite': ['label', 'addhdr'],
       'exec-tmp': ['execbody']}


def ok_list(kinds):
    """At most one action that chooses a destination besides the failing one (move and flag are merged by matches_merge: a list
    with two of them is a different list)."""
    return sum(1 for k in kinds if k in ('flag', 'movedst')) <= 1


def shapes(site, rng, thorough):
    """[(kinds before, kinds after, split)]: the failing action stands after `before`; split = number of actions in the first of two
    rules chained by `pass` (None: one rule)."""
    fb, fa = FILL[site]['before'], FILL[site]['after']
    out = [([], [], None)]
    two = [([f], [], None) for f in fb] + [([], [f], None) for f in fa]
    three = [([f, g], [], None) for f in fb for g in fb] + [([f], [g], None) for f in fb for g in fa] + \
            [([], [f, g], None) for f in fa for g in fa]
    three = [s for s in three if ok_list(s[0] + s[1])]
    if not thorough:
        keep = []
        for pos in (0, 1, 2):
            cand = [s for s in three if len(s[0]) == pos]
            keep += rng.sample(cand, min(3, len(cand)))
        three = keep
    out += two + three
    chained = []
    for b, a, _ in two + three:
        n = len(b) + len(a) + 1
        for split in range(1, n):
            chained.append((b, a, split))
    if not thorough:
        chained = rng.sample(chained, min(8, len(chained)))
    return out + chained


# --------------------------------------------------------------------------
# one scenario
# --------------------------------------------------------------------------

class Scen:
    def __init__(self, site, ovkind, kind, over, before, after, split, control=False):
        self.site, self.ovkind, self.kind, self.over = site, ovkind, kind, over
        self.before, self.after, self.split, self.control = list(before), list(after), split, control

    def label(self):
        acts = self.before + ['<' + self.ovkind + '>'] + self.after
        if self.split is not None:
            acts = acts[:self.split] + ['pass', '|'] + acts[self.split:]
        return '%s/%s %s%+d: %s' % (self.site, self.kind, 'fits' if self.control else 'over', self.over, ' '.join(acts))


def run_scen(tools, sc):
    B = base()
    b = B.Box(tools)
    box = b.box
    helper = tools.helper
    probs = []
    host = 'host'
    tmpdir = b.tmp
    srcdir = box + '/src'
    extra_hdr = b''
    intended, intended_names, legit = [], [], []
    cond = ''
    ovtext = None
    allowed_cur = False
    final_dir = None               # control: where the message must be at the end (None: computed from the fillers)
    limit_total = PATH_MAX - 1 + sc.over if not sc.control else PATH_MAX - 1 - sc.over   # control: over = distance below the limit

    def capture_of(P, cut):
        return P[:cut], P[cut:]

    if sc.site == 'move-interp':
        # intended destination D, delivery directory D/new (or D/cur with a flag action in the list): limit_total characters
        if sc.control:
            # the delivery directory fits and so does the path of the delivered message (directory + / + generated name)
            D = B.chain(box + '/lists', limit_total - 4 - 1 - len(GEN + host + ':2,S'))
            B.maildir_at(D)
            cut = len(D) - 40
        elif sc.kind in ('cur', 'new'):
            # the truncation of D/new to PATH_MAX-1 characters is X/<kind> for an existing maildir X
            X = B.chain(box + '/lists', PATH_MAX - 1 - 4)
            B.maildir_at(X)
            tail = {6: '/a', 7: '/ab', 8: '/abc', 9: '/a/bc', 12: '/inbox/a'}[sc.over]
            D = X + '/' + sc.kind + tail
            assert (D + '/new')[:PATH_MAX - 1] == X + '/' + sc.kind
            B.maildir_at(D)
            cut = len(D) - 40
        elif sc.kind == 'new/':
            X = B.chain(box + '/lists', PATH_MAX - 1 - 5)
            B.maildir_at(X)
            D = X + '/new'
            assert (D + '/new')[:PATH_MAX - 1] == X + '/new/' and sc.over == 4
            B.maildir_at(D)
            cut = len(D) - 40
        elif sc.kind == 'dir':
            # the truncation is no maildir subdirectory: it cuts a component of D (over >= 5) or the "/new" itself; a directory
            # stands there and a maildir is rooted in it
            D = B.chain(box + '/lists', PATH_MAX - 1 - 4 + sc.over)
            B.maildir_at(D)
            for sub in ('/new', '/cur'):
                T = (D + sub)[:PATH_MAX - 1].rstrip('/')
                if T != D:
                    B.dmkdir(T)
                    B.maildir_at(T)
            cut = len(D) - 40
        else:
            # 'name': a component of D exceeds NAME_MAX (the path itself fits): a maildir stands at its NAME_MAX truncation
            comp = 'n' * (NAME_MAX + sc.over)
            P = box + '/lists/sub'
            D = P + '/' + comp + '/in'
            B.maildir_at(P + '/' + comp[:NAME_MAX])
            B.maildir_at(P + '/' + comp[:NAME_MAX] + '/in')
            cut = len(P) + 1
        prefix, cap = capture_of(D, cut)
        extra_hdr = b'X-Tail: ' + cap.encode() + b'\n'
        cond = 'header "X-Tail" /^(.*)$/ and '
        ovtext = 'move "%s\\1"' % prefix
        intended = [D + '/new', D + '/cur']
        final_dir = D
    elif sc.site == 'isdir-interp':
        if sc.control:
            I = B.chain(box + '/w', limit_total)
            B.dmkdir(I)
        else:
            I = B.chain(box + '/w', PATH_MAX - 1)
            B.dmkdir(I)                                  # the decoy: a directory at the first PATH_MAX-1 characters
            I += 'z' * sc.over
        cut = len(I) - 40
        prefix, cap = capture_of(I, cut)
        extra_hdr = b'X-Tail: ' + cap.encode() + b'\n'
        cond = 'header "X-Tail" /^(.*)$/ and '
        intended = [I]
    elif sc.site in ('flag', 'rewrite'):
        sub = 'cur' if sc.ovkind == 'flagcur' else 'new'
        suffix = {'flagcur': ':2,S', 'flagsF': ':2,F', 'label': ':2,', 'addhdr': ':2,'}[sc.ovkind]
        if sc.kind == 'name':
            # the generated name exceeds NAME_MAX through the host name
            n = (NAME_MAX + sc.over if not sc.control else NAME_MAX - sc.over) - len(GEN) - len(suffix)
            host = 'h' * n
            R = box + '/m/deep'
        else:
            n = limit_total - 1 - len(GEN + host + suffix) - 4
            R = B.chain(box + '/m', n)
        B.maildir_at(R)
        srcdir = R
        newname = GEN + host + suffix
        newpath = R + '/' + sub + '/' + newname
        intended = [newpath]
        intended_names = [newname]
        if not sc.control:
            # a sibling message stands at the truncation of the new message path / of the generated name
            t = newpath[:PATH_MAX - 1] if sc.kind != 'name' else R + '/' + sub + '/' + newname[:NAME_MAX]
            if not t.endswith('/'):
                B.dwrite(t, ws.msg(7))
                legit = [t]
        ovtext = {'flagcur': 'flag !new', 'flagsF': 'flags "F"', 'label': 'label "LOV"', 'addhdr': 'add-header "X-FOV" "vov"'}[sc.ovkind]
        allowed_cur = sc.ovkind == 'flagcur'
    else:
        total = PATH_MAX + sc.over if not sc.control else PATH_MAX - 1 - sc.over
        T = B.chain(box + '/t', total - 1 - len(TMPL))
        B.dmkdir(T)
        tmpdir = T
        intended = [T + '/' + TMPL]
        ovtext = 'exec stdin body { "%s" "tOV" }' % helper

    # ---- the action list ----
    texts, kinds = [], sc.before + [sc.ovkind] + sc.after
    for k, f in enumerate(kinds):
        if k == len(sc.before):
            texts.append(ovtext)
        elif f == 'label':
            texts.append('label "L%d"' % k)
        elif f == 'addhdr':
            texts.append('add-header "X-F%d" "v%d"' % (k, k))
        elif f == 'exec':
            texts.append('exec { "%s" "t%d" }' % (helper, k))
        elif f == 'flag':
            texts.append('flag !new')
        elif f == 'movedst':
            texts.append('move "%s/dst"' % box)
    ov = len(sc.before)
    if sc.site == 'isdir-interp':
        # the condition belongs to the rule holding the action at position `ov`; all actions of that rule and of later ones follow it
        texts = [t for t in texts if t is not None]
        kinds = sc.before + sc.after
        if sc.split is not None and sc.split <= len(kinds) - 1 and ov >= sc.split:
            ov = sc.split
        else:
            ov = 0
        first_later = ov
    else:
        first_later = ov + 1
    pick = 'header "X-Pick" /one/'
    isdir = 'isdirectory "%s\\1" and ' % prefix if sc.site == 'isdir-interp' else ''

    def rule(acts, with_cond, with_isdir, passing):
        c = (cond if with_cond else '') + (isdir if with_isdir else '') + pick
        return '\tmatch %s %s%s\n' % (c, ' '.join(acts), ' pass' if passing else '')
    if sc.site == 'isdir-interp' and not texts:
        texts, kinds = ['exec { "%s" "t0" }' % helper], ['exec']
    if sc.split is None or sc.split >= len(texts) or sc.split <= 0:
        rules = rule(texts, True, True, False)
    else:
        s = sc.split
        first_has = ov < s
        rules = rule(texts[:s], first_has, first_has, True) + rule(texts[s:], not first_has, not first_has, False)
    B.maildir_at(box + '/oth')
    long_host = sc.site in ('flag', 'rewrite') and sc.kind == 'name' and not sc.control
    other = 'exec { "%s" "other" }' % helper if long_host else 'move "%s/oth"' % box
    conf = 'maildir "%s" {\n%s\tmatch header "X-Pick" /other/ %s\n}\n' % (srcdir, rules, other)

    # ---- the messages: the one under test between two others ----
    M = ws.msg(1, extra=b'X-Pick: one\n' + extra_hdr)
    M0 = ws.msg(5, extra=b'X-Pick: other\n')
    M2 = ws.msg(2, extra=b'X-Pick: other\n')
    B.dwrite(srcdir + '/new/0.host', M0)
    B.dwrite(srcdir + '/new/1.host', M)
    B.dwrite(srcdir + '/new/2.host', M2)

    # ---- run ----
    with open(box + '/conf', 'w', encoding='latin-1') as fh:
        fh.write(conf)
    env = {'PATH': os.environ.get('PATH', ''), 'HOME': b.home, 'TMPDIR': tmpdir, 'LD_PRELOAD': tools.shim,
           'VSHIM_LOG': box + '.log', 'LC_ALL': 'C', 'EXECHELPER_OUT': box + '.helper'}
    env.update(proc.PIN)
    env['VSHIM_HOST'] = host
    before = dwalk(box)
    try:
        r = subprocess.run([tools.mdsort, '-f', box + '/conf'], input=b'', capture_output=True, env=env, cwd=box, timeout=60)
        status, err = r.returncode, r.stderr.decode('latin-1')
    except subprocess.TimeoutExpired:
        status, err = 'timeout', ''
    trace = B.read_trace(box)
    ran = []
    if os.path.exists(box + '.helper'):
        for line in open(box + '.helper', encoding='latin-1').read().split('\n')[:-1]:
            kv = dict(x.split('=', 1) for x in line.split(' ') if '=' in x)
            argv = [] if kv.get('argv') == 'none' else [vlib.unhex(a).decode('latin-1') for a in kv.get('argv', '').split(',')]
            ran.append(argv[0] if argv else '')
        os.unlink(box + '.helper')
    after = dwalk(box)

    # ---- judge ----
    ours = (1, 2, 5)
    rest_before = {p: d for p, d in before.items() if msg_id(d) not in ours}
    rest_after = {p: d for p, d in after.items() if msg_id(d) not in ours}
    if rest_before != rest_after:
        diff = sorted(set(rest_before) ^ set(rest_after)) + sorted(p for p in rest_before if p in rest_after and rest_before[p] != rest_after[p])
        probs.append('objects other than the three messages changed: %s' % ['...' + p[-50:] for p in diff[:3]])
    where = {i: sorted(p for p, d in after.items() if msg_id(d) == i) for i in ours}
    rel = lambda p: './' + p[len(box) + 1:]
    src_rel = rel(srcdir)
    if long_host:
        if ran.count('other') != 2:
            probs.append('the other messages of the maildir (rule `exec other`) were not processed normally: the command ran %d times' % ran.count('other'))
        ran = [t for t in ran if t != 'other']
    for i, orig in ((5, M0), (2, M2)):
        want_at = src_rel + '/new/' if long_host else './oth/new/'
        if len(where[i]) != 1 or not where[i][0].startswith(want_at) or after[where[i][0]] != orig:
            probs.append('message %d of the same maildir (its own rule) was not processed normally: found at %s' %
                         (i, ['...' + p[-50:] for p in where[i]]))
    exec_tags = [(k, 't%d' % k) for k, f in enumerate(sc.before + [sc.ovkind] + sc.after) if f == 'exec'] if sc.site != 'isdir-interp' else \
                [(k, t.split('"')[3]) for k, t in enumerate(texts) if t.startswith('exec {')]
    conf_short = conf if len(conf) < 500 else conf[:200] + ' ...(%d characters)... ' % len(conf) + conf[-260:]
    if len(where[1]) != 1:
        probs.append('the message exists %d times after the run: %s' % (len(where[1]), ['...' + p[-60:] for p in where[1][:3]]))
    if sc.control:
        if status != 0:
            probs.append('everything fits (%s) but the exit status is %r: %s' % (sc.label(), status, err[-160:]))
        want = [t for _, t in exec_tags] + (['tOV'] if sc.ovkind == 'execbody' else [])
        if sc.ovkind == 'execbody':
            want = [t for k, t in exec_tags if k < len(sc.before)] + ['tOV'] + [t for k, t in exec_tags if k > len(sc.before)]
        allk = sc.before + [sc.ovkind] + sc.after
        # a message flagged from new into cur of the maildir being walked is met again there and its rule applies again (F21)
        twice = ('flag' in allk or sc.ovkind == 'flagcur') and 'movedst' not in allk and sc.site != 'move-interp'
        if ran != want and not (twice and ran == want + want):
            probs.append('everything fits but the commands run were %s, expected %s' % (ran, want))
        if len(where[1]) == 1:
            p = where[1][0]
            allk = sc.before + [sc.ovkind] + sc.after
            if sc.site == 'move-interp':
                want_dir = rel(final_dir) + ('/cur/' if 'flag' in allk else '/new/')
            elif 'movedst' in allk:
                want_dir = './dst/' + ('cur/' if 'flag' in allk else 'new/')
            else:
                want_dir = src_rel + ('/cur/' if ('flag' in allk or sc.ovkind == 'flagcur') else '/new/')
            if not p.startswith(want_dir):
                probs.append('everything fits but the message ended at ...%s, expected below ...%s' % (p[-60:], want_dir[-40:]))
    else:
        if status == 0:
            probs.append('a path of the run does not fit but the exit status is 0')
        elif not err.strip():
            probs.append('a path of the run does not fit but nothing is reported on stderr')
        if len(where[1]) == 1:
            p = where[1][0]
            data = after[p]
            d = p.rsplit('/', 1)[0]
            ok_dirs = [src_rel + '/new']
            if allowed_cur or 'flag' in sc.before:
                ok_dirs.append(src_rel + '/cur')
            if d not in ok_dirs:
                kind = 'a decoy / truncation' if any(d == rel(t.rsplit('/', 1)[0]) or rel(t).startswith(d) for t in [x[:PATH_MAX - 1] for x in intended]) else 'another place'
                probs.append('the message was found in %s: ...%s (%d characters; intended path %s characters)' %
                             (kind, p[-60:], len(box) + len(p) - 1, '/'.join(str(len(x)) for x in intended)))
            # content: the original, or (a rewriting action stands no later than the failing one) original + configured headers
            body_ok = data.split(b'\n\n', 1)[-1] == M.split(b'\n\n', 1)[-1]
            oh = M.split(b'\n\n', 1)[0].split(b'\n')
            nh = data.split(b'\n\n', 1)[0].split(b'\n')
            rewriting_early = any(f in ('label', 'addhdr') for f in (sc.before + [sc.ovkind]))
            extra = [h for h in nh if h not in oh]
            missing = [h for h in oh if h not in nh]
            configured = [b'X-Label: ', b'X-F']
            if not body_ok or missing or (extra and not rewriting_early) or any(not h.startswith(tuple(configured)) for h in extra):
                probs.append('the content of the message changed: body intact %s, headers missing %s, added %s' % (body_ok, missing[:2], extra[:3]))
        late = [t for k, t in exec_tags if k >= first_later]
        if sc.ovkind == 'execbody' and 'tOV' in ran:
            probs.append('the temporary file does not fit but the command of `exec stdin body` was run')
        hit = [t for t in ran if t in late]
        if hit:
            probs.append('actions after the failing one were executed: commands %s ran' % hit)
    probs += B.truncated_calls(trace, intended, len(box) + 8, legit=legit)
    for t in trace:
        # the sibling message at the truncation may be read (it is an entry of a walked directory); no call may create, replace or remove it
        if t['kind'] != 'call' or sc.control or not legit:
            continue
        dname, fname = legit[0].rsplit('/', 1)
        a = t['args']
        named = None
        if t['name'] == 'renameat' and proc.unescape(a.get('new', '')).decode('latin-1') == fname:
            named = a.get('newdir', '')
        elif t['name'] == 'unlinkat' and proc.unescape(a.get('path', '')).decode('latin-1') == fname:
            named = a.get('dir', '')
        elif t['name'] == 'openat' and 'O_CREAT' in t['raw'] and proc.unescape(a.get('path', '')).decode('latin-1') == fname:
            named = a.get('dir', '')
        if named is not None and proc.unescape(named).decode('latin-1')[-30:] == dname[-30:]:
            probs.append('call %s names the %d-character truncation of the %d-character generated name' % (t['name'], len(fname), len(intended_names[0])))
    B.shutil_rm(box)
    return {'family': 'position-' + sc.site, 'scenario': sc.label(), 'length': max([len(x) for x in intended] or [0]), 'status': status,
            'problems': probs[:5], 'stderr': err[-200:], 'config': conf_short, 'commands_run': ran, 'control': sc.control,
            'message': repr(M[:120])}


# --------------------------------------------------------------------------
# unit level: matches_interpolate with a failing entry FOLLOWED by entries that can be interpolated
# --------------------------------------------------------------------------

def unit_sticky(rep, sc):
    """`eval` of harness/unit/h_expr.c (the real expr_eval + matches_interpolate, ASan + UBSan): rules whose action list holds one
    entry that cannot be interpolated - destination over-long after interpolation (exactly PATH_MAX, PATH_MAX+3), reference to a
    group that does not exist - at every position among label / add-header / exec entries that CAN, also across `pass`; and the
    same lists with a destination of PATH_MAX-1 characters.  Judged: matches_interpolate reports failure iff an entry fails
    (specification), the destination that fits is the whole interpolated string; and the Lean model agrees field by field."""
    import evalcommon as ec
    h, env = ec.harness(sc)
    home = sc.dir + '/heXXXXXX'     # the harness expands ~ to its own mkdtemp directory below the scratch directory (same length in every process)
    fills = ['label "k\\1"', 'add-header "X-Out" "\\1"', 'exec { "echo" "\\1" }', 'label "plain"']
    cases, want = [], []
    base_len = len(home) + len('/dst/') + len('/new')
    for total, fails in ((PATH_MAX - 1, False), (PATH_MAX, True), (PATH_MAX + 3, True), (None, True)):
        for pos in (0, 1, 2):
            for n in (1, 2, 3):
                if pos >= n:
                    continue
                for chained in ((False, True) if n > 1 else (False,)):
                    for rot in range(2):
                        acts = [fills[(k + rot) % len(fills)] for k in range(n)]
                        if total is None:
                            acts[pos] = 'move "~/dst/\\1/\\7"'      # no group 7
                            cap = 'abc'
                        else:
                            acts[pos] = 'move "~/dst/\\1"'
                            cap = ''.join('/' + 'c' * 199 for _ in range(30))[1:][:total - base_len]
                            cap = cap.rstrip('/') + 'e' * (total - base_len - len(cap.rstrip('/')))
                        c1 = 'header "X-Tail" /^(.*)$/'
                        if chained:
                            conf = 'maildir "~/md" {\n\tmatch %s %s pass\n\tmatch %s %s\n}\n' % (c1, ' '.join(acts[:1]), c1, ' '.join(acts[1:]))
                            pats = [('^(.*)$', ''), ('^(.*)$', '')]
                        else:
                            conf = 'maildir "~/md" {\n\tmatch %s %s\n}\n' % (c1, ' '.join(acts))
                            pats = [('^(.*)$', '')]
                        msg = b'To: u@example.com\nX-Tail: ' + cap.encode() + b'\n\nbody\n'
                        cases.append(ec.Case(conf, pats, msg, 'new', '1.host', '0'))
                        want.append((fails, total, '/dst/' + cap + '/new', pos, n, chained))
    # an over-long isdirectory path after interpolation: the evaluation itself is an error
    for total, fails in ((PATH_MAX - 1, False), (PATH_MAX, True), (PATH_MAX + 2, True)):
        cap = ''.join('/' + 'c' * 199 for _ in range(30))[1:][:total - len(home) - 3]
        cap = cap.rstrip('/') + 'e' * (total - len(home) - 3 - len(cap.rstrip('/')))
        conf = 'maildir "~/md" {\n\tmatch header "X-Tail" /^(.*)$/ and isdirectory "~/w\\1" label "x"\n}\n'
        cases.append(ec.Case(conf, [('^(.*)$', '')], b'To: u@example.com\nX-Tail: /' + cap.encode() + b'\n\nbody\n', 'new', '1.host', '0'))
        want.append((fails, total, None, 0, 1, False))
    ec.run_cases(h, env, cases, want_spec=False)
    bad_spec, bad_model, stat = [], [], {'cases': len(cases), 'failing_entry': 0, 'failing_not_last': 0, 'fits': 0, 'model_compared': 0}
    for c, (fails, total, dest, pos, n, chained) in zip(cases, want):
        if c.note == 'fault':
            rep.finding('sanitizer-fault', dict(c.readable(), implementation=c.impl[:300], family='unit-sticky'))
            continue
        e = (c.impl or '').split(' ')
        what = None
        if dest is None:
            # isdirectory: error at evaluation when it does not fit; otherwise the path is looked up (no such directory: no match)
            if fails and e[0] != 'ERROR':
                what = 'isdirectory path of %d characters after interpolation: evaluation answered %s, expected ERROR' % (total, e[0])
            if not fails and e[0] == 'ERROR':
                what = 'isdirectory path of %d characters after interpolation fits but the evaluation answered ERROR' % total
        elif e[0] != 'MATCH':
            what = 'the rule must match, evaluation answered %s' % e[0]
        else:
            interr = len(e) >= 4 and e[3] == 'INTERR'
            if fails:
                stat['failing_entry'] += 1
                stat['failing_not_last'] += pos < n - 1
                if not interr:
                    what = ('entry %d of %d cannot be interpolated (%s) but matches_interpolate reported success%s' %
                            (pos + 1, n, 'destination of %d characters' % total if total else 'no group 7',
                             ' - the entries after it can' if pos < n - 1 else ''))
            else:
                stat['fits'] += 1
                if interr:
                    what = 'destination of %d characters fits but matches_interpolate failed' % total
                else:
                    post = ec.parse_ml(e[3])
                    got = [vlib.unhex(f[3]).decode('latin-1') for f in post if f[0] == 'move']
                    if len(got) != 1 or len(got[0]) != total or not got[0].endswith(dest):
                        what = 'destination after interpolation has %s characters, expected the whole %d' % ([len(g) for g in got], total)
        stat['model_compared'] += c.model is not None
        if what:
            bad_spec.append((c, what))
        elif c.model is None or ec.impl_core(c) != ec.model_core(c):
            bad_model.append(c)
    for c, what in bad_spec[:4]:
        rd = c.readable()
        rd['message'] = rd['message'][:200]
        rd['request'] = rd['request'][:200] + '...'
        rep.finding('unlisted', dict(rd, family='unit-sticky', what=[what], implementation=(c.impl or '')[:300] + '...'))
    stat.update(spec_failures=len(bad_spec), model_mismatches=len(bad_model),
                model_examples=[dict(config=c.conf, implementation=ec.impl_core(c)[:200], model=(ec.model_core(c) or '')[:200]) for c in bad_model[:3]])
    return stat


# --------------------------------------------------------------------------
# the stage
# --------------------------------------------------------------------------

def scenarios(rng, thorough):
    out = []
    for site in ('move-interp', 'isdir-interp', 'flag', 'rewrite', 'exec-tmp'):
        shp = shapes(site, rng, thorough)
        if site == 'move-interp':
            variants = [('cur', 6), ('new', 6), ('new/', 4), ('dir', 1), ('dir', 5), ('name', 1), ('cur', 12), ('new', 7)]
        elif site == 'isdir-interp':
            variants = [('dir', 1), ('dir', 3), ('dir', 2)]
        elif site == 'exec-tmp':
            variants = [('path', 0), ('path', 1), ('path', 3)]
        elif site == 'flag':
            variants = [('path', 1), ('path', 5), ('name', 1), ('name', 5)]      # the truncated name is itself a valid message name
        else:
            variants = [('path', 3), ('path', 4), ('name', 3), ('name', 4)]
        k = 0
        for b, a, split in shp:
            short = len(b) + len(a) <= 1 and split is None
            for ovk in OVS[site]:
                # the short lists meet every decoy kind; the longer ones go round the kinds
                vs = variants if (short or thorough) and site == 'move-interp' else [variants[k % len(variants)]]
                k += 1
                for kind, over in vs:
                    out.append(Scen(site, ovk, kind, over, b, a, split))
        # controls: the same site with everything fitting, one list of each length and a chained one
        ctl = [s for s in shp if len(s[0]) + len(s[1]) == 2][:2] + [s for s in shp if s[2] is not None][:1] + shp[:1]
        for b, a, split in ctl:
            for ovk in OVS[site]:
                for kind in (('path', 'name') if site in ('flag', 'rewrite') else ('path',)):
                    out.append(Scen(site, ovk, kind, 6, b, a, split, control=True))    # 6 below the limit: a later flag action lengthens the name
    return out


def stage(rep, tools, sc, rng):
    thorough = rep.tier != 'quick'
    scs = scenarios(rng, thorough)
    with cf.ThreadPoolExecutor(min(vlib.NCPU, 12)) as ex:
        results = list(ex.map(lambda s: run_scen(tools, s), scs))
    fam, bad = {}, 0
    for r in results:
        key = r['family'] + ('-control' if r['control'] else '')
        fam[key] = fam.get(key, 0) + 1
        if r['problems']:
            bad += 1
            rep.finding('unlisted', {'family': r['family'], 'scenario': r['scenario'], 'length': r['length'], 'exit_status': r['status'],
                                     'what': r['problems'][:4], 'stderr': r['stderr'], 'config': r['config'], 'message': r['message'],
                                     'commands_run': r['commands_run']})
    unit = unit_sticky(rep, sc)
    if unit['model_mismatches'] and not rep.violations:
        rep.violation({'obligation': 'correspondence match.c (matches_interpolate: order, stop at the first failure) <-> Model/Eval.lean',
                       'disagreements': unit['model_mismatches'], 'examples': unit['model_examples']}, False)
    rep.coverage['position_family'] = {
        'runs': len(results), 'rejected': sum(1 for r in results if not r['control'] and r['status'] not in (0, 'timeout')),
        'controls': sum(1 for r in results if r['control']), 'with_problems': bad, 'families': fam,
        'earlier_commands_run': sum(len(r['commands_run']) for r in results if not r['control']),
        'rule': 'the action (condition) whose path does not fit at every position of action lists of length 1-3 among label / add-header / '
                'flag / exec / move, also split over two rules chained by pass; sites: interpolated move destination, interpolated '
                'isdirectory path, flag / flags in a deep maildir or with a long host name, label / add-header whose regenerated name no '
                'longer fits (PATH_MAX, NAME_MAX), exec stdin body with a long TMPDIR; decoys at the PATH_MAX-1 truncation (X/new, X/cur, '
                'X/new/, maildir rooted at a cut component, directory, sibling message) and at the NAME_MAX truncation; judged: failure '
                'reported, the message exactly once, not in a decoy, intact, everything else unchanged, no call names a truncation, no later '
                'action executed, the other two messages delivered; controls: the same lists with everything fitting carry out every action',
        'unit_sticky': unit,
        'samples': [results[0]['scenario'], results[len(results) // 2]['scenario'], results[-1]['scenario']],
    }
    return results
