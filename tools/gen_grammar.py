#!/usr/bin/env python3
"""Translate the context-free grammar of parse.y into Lean data.

usage: gen_grammar.py <repo-dir> <out.lean>

bison is run on the working tree's parse.y (`bison --xml`, nothing else of the
repository is read and nothing is written into it); its XML report is the only
input of the translation.  What is emitted is plain data:

  Gen.grammarStart        the start symbol (right-hand side of `$accept`)
  Gen.grammarTokens       every terminal (token names, character literals as
                          `'{'`, bison's own `$end` and `error`)
  Gen.grammarUnusedTokens terminals no rule mentions
  Gen.grammarNonterminals every non-terminal (mid-rule actions are bison's `$@n`)
  Gen.productions         every rule but `$accept`, in the order of the file:
                          (left-hand side, right-hand side symbols)
  Gen.errorProductions    the rules that mention bison's `error` token
                          (they are in `productions` too: "marked" = listed here)
  Gen.grammarPrecedence   the %left / %right / %nonassoc / %precedence
                          declarations, lowest level first
  Gen.grammarRulePrec     rules with an explicit %prec

The generator is deterministic (no time stamps, no paths, no bison version in the
output) and fails loudly: a non-zero exit status means the translator could not
read bison's report (the check then reports the translator as the obligation that
no longer holds).
"""
import hashlib
import os
import shutil
import subprocess
import sys
import tempfile
import xml.etree.ElementTree as ET


class Fail(Exception):
    pass


def must(x, what):
    if x is None:
        raise Fail('bison report: no %s' % what)
    return x


def lean_str(s):
    for ch in s:
        if ord(ch) < 32 or ord(ch) > 126:
            raise Fail('symbol name with a character outside printable ASCII: %r' % s)
    return '"' + s.replace('\\', '\\\\').replace('"', '\\"') + '"'


def lean_list(xs):
    return '[' + ', '.join(lean_str(x) for x in xs) + ']'


def run_bison(repo):
    src = os.path.join(repo, 'parse.y')
    if not os.path.isfile(src):
        raise Fail('no parse.y in %s' % repo)
    exe = shutil.which('bison') or shutil.which('yacc')
    if exe is None:
        raise Fail('neither bison nor yacc found')
    base = os.environ.get('VERIF_SCRATCH_BASE', '/var/tmp')
    tmp = tempfile.mkdtemp(prefix='gen-grammar-', dir=base)
    try:
        shutil.copy(src, os.path.join(tmp, 'parse.y'))
        env = dict(os.environ, LC_ALL='C')
        r = subprocess.run([exe, '--xml=parse.xml', '-o', 'parse.c', 'parse.y'], cwd=tmp, env=env,
                           capture_output=True, text=True)
        if r.returncode != 0:
            raise Fail('%s failed on parse.y: %s' % (os.path.basename(exe), r.stderr.strip()[:800]))
        path = os.path.join(tmp, 'parse.xml')
        if not os.path.isfile(path):
            raise Fail('%s wrote no XML report (is `%s` bison >= 2.4?)' % (exe, exe))
        with open(path, 'rb') as fh:
            return fh.read()
    finally:
        shutil.rmtree(tmp, ignore_errors=True)


def parse_report(data):
    """-> dict(start, terminals, unused, nonterminals, rules, prec, ruleprec)."""
    try:
        root = ET.fromstring(data)
    except ET.ParseError as e:
        raise Fail('bison report is not XML: %s' % e)
    if root.tag != 'bison-xml-report':
        raise Fail('unexpected root element <%s>' % root.tag)
    g = must(root.find('grammar'), '<grammar>')
    terms = []          # (symbol-number, name, usefulness, prec, assoc)
    for t in must(g.find('terminals'), '<terminals>').findall('terminal'):
        a = t.attrib
        for k in ('symbol-number', 'token-number', 'name', 'usefulness'):
            if k not in a:
                raise Fail('<terminal> without %s' % k)
        prec = a.get('prec')
        assoc = a.get('assoc')
        if (prec is None) != (assoc is None):
            raise Fail('terminal %s: prec/assoc not both present' % a['name'])
        terms.append((int(a['token-number']), a['name'], a['usefulness'], None if prec is None else int(prec), assoc))
    nonterms = []
    for t in must(g.find('nonterminals'), '<nonterminals>').findall('nonterminal'):
        a = t.attrib
        for k in ('symbol-number', 'name', 'usefulness'):
            if k not in a:
                raise Fail('<nonterminal> without %s' % k)
        nonterms.append((int(a['symbol-number']), a['name'], a['usefulness']))
    if not terms or not nonterms:
        raise Fail('no terminals or no non-terminals')
    terms.sort()
    nonterms.sort()
    tnames = [t[1] for t in terms]
    nnames = [n[1] for n in nonterms]
    if len(set(tnames)) != len(tnames) or len(set(nnames)) != len(nnames) or set(tnames) & set(nnames):
        raise Fail('symbol names are not unique')
    for need in ('$end', 'error'):
        if need not in tnames:
            raise Fail('terminal %s missing' % need)
    known = set(tnames) | set(nnames)
    rules = []
    for i, r in enumerate(must(g.find('rules'), '<rules>').findall('rule')):
        if r.attrib.get('number') != str(i):
            raise Fail('rule numbers are not consecutive at %d' % i)
        if r.attrib.get('usefulness') != 'useful':
            raise Fail('rule %d is %s: the grammar has useless rules' % (i, r.attrib.get('usefulness')))
        lhs = must(r.find('lhs'), 'lhs of rule %d' % i).text
        rhs_el = must(r.find('rhs'), 'rhs of rule %d' % i)
        kids = list(rhs_el)
        if len(kids) == 1 and kids[0].tag == 'empty':
            rhs = []
        else:
            rhs = []
            for k in kids:
                if k.tag != 'symbol' or not k.text:
                    raise Fail('rule %d: unexpected <%s> in rhs' % (i, k.tag))
                rhs.append(k.text)
            if not rhs:
                raise Fail('rule %d: empty rhs without <empty/>' % i)
        if lhs not in nnames:
            raise Fail('rule %d: lhs %r is no non-terminal' % (i, lhs))
        for s in rhs:
            if s not in known:
                raise Fail('rule %d: unknown symbol %r' % (i, s))
        rules.append((lhs, rhs, r.attrib.get('percent_prec')))
    if not rules or rules[0][0] != '$accept' or len(rules[0][1]) != 2 or rules[0][1][1] != '$end':
        raise Fail('rule 0 is not `$accept: <start> $end`')
    if any(l == '$accept' for l, _, _ in rules[1:]) or any('$accept' in r for _, r, _ in rules):
        raise Fail('$accept used outside rule 0')
    if any('$end' in r for _, r, _ in rules[1:]):
        raise Fail('$end used outside rule 0')
    start = rules[0][1][0]
    if start not in nnames:
        raise Fail('start symbol %r is no non-terminal' % start)
    levels = {}
    for _, name, _, prec, assoc in terms:
        if prec is not None:
            lv = levels.setdefault(prec, (assoc, []))
            if lv[0] != assoc:
                raise Fail('precedence level %d has two associativities' % prec)
            lv[1].append(name)
    prec = [(levels[k][0], levels[k][1]) for k in sorted(levels)]
    ruleprec = [(i, p) for i, (_, _, p) in enumerate(rules) if p is not None]
    for _, p in ruleprec:
        if p not in tnames:
            raise Fail('%%prec %r is no terminal' % p)
    return dict(start=start, terminals=tnames, unused=[t[1] for t in terms if t[2] != 'useful'],
                nonterminals=[n for n in nnames if n != '$accept'],
                rules=[(l, r) for l, r, _ in rules[1:]], prec=prec, ruleprec=ruleprec)


def table_hash(g):
    """Hash of what was read from the source (evidence of the C14 check)."""
    h = hashlib.sha256()
    h.update(repr((g['start'], g['terminals'], g['unused'], g['nonterminals'], g['rules'], g['prec'], g['ruleprec'])).encode())
    return h.hexdigest()


def emit(g):
    out = []
    w = out.append
    w('/-! GENERATED by tools/gen_grammar.py from parse.y (bison XML report) - do not edit. -/')
    w('namespace Mdsort.Gen')
    w('')
    w('def grammarStart : String := %s' % lean_str(g['start']))
    w('')
    w('def grammarTokens : List String := [')
    w(',\n'.join('  ' + lean_str(t) for t in g['terminals']))
    w(']')
    w('def grammarUnusedTokens : List String := %s' % lean_list(g['unused']))
    w('')
    w('def grammarNonterminals : List String := [')
    w(',\n'.join('  ' + lean_str(t) for t in g['nonterminals']))
    w(']')
    w('')
    w('/-- Rule `i` of bison\'s report is entry `i - 1` (rule 0 is `$accept: %s $end`). -/' % g['start'])
    w('def productions : List (String × List String) := [')
    w(',\n'.join('  (%s, %s)' % (lean_str(l), lean_list(r)) for l, r in g['rules']))
    w(']')
    w('')
    w('/-- The rules of `productions` that mention bison\'s `error` token (error recovery). -/')
    w('def errorProductions : List (String × List String) := [%s]' %
      ', '.join('(%s, %s)' % (lean_str(l), lean_list(r)) for l, r in g['rules'] if 'error' in r))
    w('')
    w('/-- Precedence declarations, lowest level first: (associativity, tokens). -/')
    w('def grammarPrecedence : List (String × List String) := [%s]' %
      ', '.join('(%s, %s)' % (lean_str(a), lean_list(ts)) for a, ts in g['prec']))
    w('/-- Rules with an explicit `%prec`: (rule number, token). -/')
    w('def grammarRulePrec : List (Nat × String) := [%s]' % ', '.join('(%d, %s)' % (i, lean_str(p)) for i, p in g['ruleprec']))
    w('')
    w('end Mdsort.Gen')
    return '\n'.join(out) + '\n'


def read_grammar(repo):
    return parse_report(run_bison(repo))


def main():
    if len(sys.argv) != 3:
        sys.stderr.write(__doc__)
        return 2
    repo, outp = sys.argv[1], sys.argv[2]
    try:
        g = read_grammar(repo)
        text = emit(g)
    except Fail as e:
        sys.stderr.write('gen_grammar: %s\n' % e)
        return 2
    old = None
    if os.path.exists(outp):
        with open(outp) as fh:
            old = fh.read()
    if old != text:
        with open(outp, 'w') as fh:
            fh.write(text)
    return 0


if __name__ == '__main__':
    sys.exit(main())
