"""Environment-LENGTH family: every value mdsort takes from its environment, at lengths around the buffer it is copied into.

mdsort.c `readenv()` copies HOME, TMPDIR and TZ into fixed buffers of `struct environment` (extern.h) and lets `gethostname` fill a
fourth one; the options `-d` / `-n` / `-` live in the same structure.  Whatever the length of a value, C18 says it is used in full or
the run ends with an error - never a truncation - and C05 says that `-d` changes nothing and `-n` opens nothing; both must hold for
lengths just below, at and beyond the size of each buffer (where a wrong bound overwrites what follows in the structure and then the
stack).  The buffer sizes are read from extern.h of the tree under check.

For every variable x length x fill byte x mode (real run, `-d`, `-n`, `-`, `-d -`, `-n -`) one run of the real binary under the shim:

* the value does not fit (length >= size of its buffer): rejected - non-zero exit status, a diagnostic naming the variable, and the
  run ends BEFORE anything is touched (no traced call at all, tree unchanged, nothing executed);
* it fits: the run behaves as the run with a short value of the same kind (same exit status, same final tree, same command records,
  same standard output) - the configuration uses neither `~`, dates nor temporary files, so that none of the values matters;
* in every case: `-d` leaves the tree (names, contents, modification times, directories included) as it was and runs nothing, `-n`
  issues no call beyond reading the configuration, no run ends by a signal.

The host name (pinned by the shim, `VSHIM_HOST`) becomes part of generated file names: a long one that fits the buffer makes names
longer than NAME_MAX, so for real runs only "no message lost or duplicated" is judged there.  LC_ALL has no buffer in mdsort
(`setlocale`): every length must behave like a short unknown locale name.  PATH is only used by `execvp` for relative program names.
"""
import concurrent.futures as cf
import os
import re
import proc
import vlib
import worldscen as ws
import mdshapes

PATH_MAX = 4096
R = '@R@'
CONF = ('maildir "%(R)s/src" {\n'
        '\tmatch header "X-Id" /^1$/ exec { "%(H)s" "one" } move "%(R)s/dst"\n'
        '\tmatch new flag !new\n'
        '\tmatch all move "%(R)s/dst2"\n'
        '}\n'
        'stdin {\n\tmatch all exec stdin { "%(H)s" "in" } move "%(R)s/dst"\n}\n') % {'R': R, 'H': ws.HELPER}
MODES = {'run': [], 'dry': ['-d'], 'syntax': ['-n'], 'stdin': ['-'], 'dry-stdin': ['-d', '-'], 'syntax-stdin': ['-n', '-']}
MUTATING = {'renameat', 'unlinkat', 'unlink', 'utimensat', 'fprintf', 'write', 'mkostemp', 'mkstemp', 'mkdir', 'mkdtemp', 'rmdir', 'fork'}


def buffer_sizes(src):
    """Size of the buffer each value is copied into, from `struct environment` of the tree under check."""
    text = open(os.path.join(src, 'extern.h'), encoding='latin-1').read()

    def size(field):
        m = re.search(r'\bchar\s+%s\[(\w+)\]' % field, text)
        if not m:
            raise vlib.CheckError('extern.h: no buffer %s[...] in struct environment' % field)
        return PATH_MAX if m.group(1) == 'PATH_MAX' else int(m.group(1))
    return {'HOME': size('ev_home'), 'TMPDIR': size('ev_tmpdir'), 'TZ': size('t_buf'), 'hostname': size('ev_hostname'), 'LC_ALL': None}


def lengths(buf, tier):
    """Around the size of the value's own buffer: 2 below to `dense` beyond (the bytes that follow it in the structure and on the stack),
    then in growing steps; around the other buffer sizes of the structure; well beyond everything."""
    dense = 40 if tier == 'quick' else 160
    out = {8192, 16384}
    for s in {256, PATH_MAX, buf or 256}:
        if s == buf or buf is None:
            out |= set(range(s - 2, s + dense + 1)) | {s + 48, s + 56, s + 64, s + 72, s + 80, s + 96, s + 128, 2 * s, 2 * s + 1}
        else:
            out |= set(range(s - 2, s + 3))
    return sorted(n for n in out if n > 0)


def value(var, fill, n):
    if var in ('HOME', 'TMPDIR'):
        # an absolute path with components of at most 200 characters (that does not exist)
        comp = '/' + fill * 199
        return (comp * (n // 200 + 1))[:n - 1] + fill if n > 1 else '/'
    return fill * n


FILLS = {'HOME': ['p'], 'TMPDIR': ['q'], 'TZ': ['x', 'U', 'G', 'B'], 'hostname': ['h', 'E'], 'LC_ALL': ['l']}
ENVNAME = {'hostname': 'VSHIM_HOST'}
DIAG = {'hostname': b'gethostname'}


def tree():
    t = {}
    t.update(proc.maildir_tree('src', {('new', '1.host'): ws.msg(1), ('new', '2.host'): ws.msg(2), ('cur', '3.host:2,S'): ws.msg(3)}))
    for d in ('dst', 'dst2'):
        t.update(proc.maildir_tree(d, {}))
    return t


def norm(scen, b):
    return b.replace(scen.root.encode(), b'@R@')


def helper_records(scen, r):
    out = []
    for line in r.helper:
        kv = dict(x.split('=', 1) for x in line.split(' ') if '=' in x)
        out.append((kv.get('argv', ''), kv.get('stdin', '')))
    return out


def observe(scen, var, val, mode):
    if getattr(scen, 'dirty', True):
        scen.reset()          # (only after a run that changed something: most runs of this family must not)
    scen.args = MODES[mode]
    scen.stdin = ws.msg(7) if 'stdin' in mode else None
    scen.env_extra = {ENVNAME.get(var, var): val}
    r = scen.run()
    scen.dirty = not (r.final == scen.initial and proc.dir_mtimes(scen.root) == scen.initial_dirs)
    return r


def content(snap, t0=None):
    """Kind, content and modification time of every entry (a file written while mdsort ran: 'run' instead of its time)."""
    return {k: (v[0], v[1], (v[2] if t0 is None or v[2] < t0 else 'run') if v[0] == 'file' else None) for k, v in snap.items() if k != 'conf'}


def accounting(scen, r, mode):
    """Every message of the tree exists exactly once and unchanged; the stdin message exactly once iff the exit status is 0."""
    probs = []
    where = {}
    for rel, v in r.final.items():
        if v[0] == 'file' and v[1]:
            i = ws.msg_id(v[1])
            if i is not None:
                where.setdefault(i, []).append((rel, v[1]))
    for i in (1, 2, 3):
        c = where.get(i, [])
        if len(c) != 1 or c[0][1] != ws.msg(i):
            probs.append('message %d exists %d times or changed: %s' % (i, len(c), [x[0] for x in c]))
    if 'stdin' in mode:
        c = [x for x in where.get(7, []) if not x[0].startswith('tmp/')]
        want = 1 if r.status == 0 and mode == 'stdin' else 0
        if len(c) != want:
            probs.append('the message on standard input is stored %d times, exit status %r' % (len(c), r.status))
    return probs


def judge(scen, var, buf, n, mode, r, ref):
    probs = []
    fits = buf is None or n < buf
    calls = r.calls()
    names = [c['name'] for c in calls]
    if not isinstance(r.status, int) or r.status < 0 or r.status >= 126:
        probs.append('abnormal termination (exit status %r): %s' % (r.status, r.err[-160:].decode('latin-1')))
    same_tree = ({k: v for k, v in content(r.final).items() if not k.startswith('tmp/')} ==
                 {k: v for k, v in content(scen.initial).items() if not k.startswith('tmp/')})
    dirs_same = proc.dir_mtimes(scen.root) == scen.initial_dirs
    if not fits:
        what = '%s of %d bytes does not fit its buffer of %d' % (var, n, buf)
        if r.status == 0:
            probs.append('%s but the exit status is 0' % what)
        if DIAG.get(var, var.encode()) not in r.err:
            probs.append('%s but no diagnostic names it: %r' % (what, r.err[-120:]))
        if names:
            probs.append('%s but the run went on: %d calls (%s ...)' % (what, len(names), ' '.join(names[:6])))
        if not same_tree or not dirs_same or r.helper:
            probs.append('%s but the tree changed or a command ran' % what)
    elif var == 'hostname' and mode in ('run', 'stdin', 'dry-stdin'):
        # the host name is part of every generated file name (also of the spool's): NAME_MAX decides, not mdsort's buffer
        probs += accounting(scen, r, mode)
    else:
        what = '%s of %d bytes fits' % (var, n) + (' its buffer of %d' % buf if buf else ' (no buffer in mdsort)')
        if r.status != ref['status']:
            probs.append('%s but the exit status is %r (with a short value: %r): %s' % (what, r.status, ref['status'], r.err[-160:].decode('latin-1')))
        if content(r.final, scen.t0_ns) != ref['final']:
            diff = sorted(set(content(r.final, scen.t0_ns).items()) ^ set(ref['final'].items()), key=lambda kv: kv[0])
            probs.append('%s but the final tree differs from the run with a short value: %s' % (what, sorted({k for k, _ in diff})[:6]))
        if helper_records(scen, r) != ref['helper']:
            probs.append('%s but the commands run differ from the run with a short value: %d / %d' % (what, len(r.helper), len(ref['helper'])))
        if norm(scen, r.out) != ref['out']:
            probs.append('%s but standard output differs from the run with a short value' % what)
    if mode.startswith('dry'):
        if not same_tree:
            a, b = content(r.final), content(scen.initial)
            probs.append('-d changed the tree: %s' % sorted(k for k in set(a) | set(b) if a.get(k) != b.get(k))[:6])
        if not dirs_same:
            probs.append('-d changed the modification time of a directory')
        if ws.tmp_entries(r.final):
            probs.append('-d left something in TMPDIR: %s' % ws.tmp_entries(r.final)[:2])
        if r.helper:
            probs.append('-d ran a command')
        tmpdir = scen.env_extra.get('TMPDIR', '@R@/tmp').replace(scen.root, '@R@')
        for c in calls:
            if c['name'] in MUTATING or (c['name'] == 'openat' and 'O_CREAT' in c['args'].get('flags', '')):
                where = c['raw'].replace(scen.root, '@R@')
                if c['errno']:
                    continue          # a call that failed changed nothing
                if mode.endswith('stdin') and tmpdir in where and c['name'] != 'fork':
                    continue          # the spool below TMPDIR is created and removed
                if c['name'] == 'write' and mode.endswith('stdin'):
                    continue          # (the spooled message)
                probs.append('-d issued a mutating call: %s' % where[:160])
                break
    if mode.startswith('syntax'):
        if names not in (['fopen', 'fclose'], ['fopen'], []):
            probs.append('-n issued calls beyond reading the configuration: %s' % names[:10])
        if not same_tree or not dirs_same or r.helper:
            probs.append('-n changed the tree or ran a command')
    return probs


def worker(tools, bufs, tasks):
    sp = ws.Spec('envlen', CONF, [], tree=tree(), mtimes=mdshapes.backdate(tree()))
    scen = sp.build(tools)
    out = []
    refs = {}
    try:
        for var, fill, n, mode in tasks:
            if (var, mode) not in refs:
                # the run with a short value of the same kind, in this very sandbox (-d indents its explanations by the paths it prints)
                r = observe(scen, var, value(var, FILLS[var][0], 9), mode)
                refs[(var, mode)] = {'status': r.status, 'final': content(r.final, scen.t0_ns), 'helper': helper_records(scen, r), 'out': norm(scen, r.out)}
            val = value(var, fill, n)
            r = observe(scen, var, val, mode)
            probs = judge(scen, var, bufs[var], n, mode, r, refs[(var, mode)])
            out.append({'variable': var, 'length': n, 'fill': fill, 'mode': mode, 'args': MODES[mode], 'buffer': bufs[var], 'status': r.status,
                        'problems': probs, 'ncalls': len(r.calls()), 'stderr': r.err[-200:].decode('latin-1').replace(scen.root, '@R@')})
        return out
    finally:
        scen.cleanup()


def stage(rep, sc, tools, modes=None, tier='quick', focus=None):
    """Run the family (all modes, or the given ones) and report failing inputs; returns the coverage record.
    focus='dry' (C05): what -d / -n did wrong is reported first; otherwise (C18) what happened to the value."""
    bufs = buffer_sizes(sc.src)
    tasks = []
    for var, buf in bufs.items():
        fills = FILLS[var] if tier != 'quick' else FILLS[var][:2]
        for fill in fills:
            for n in lengths(buf, tier):
                for mode in MODES:
                    if modes is None or mode in modes:
                        tasks.append((var, fill, n, mode))
    nw = vlib.NCPU
    tasks.sort(key=lambda t: (t[0], t[3]))
    size = (len(tasks) + nw - 1) // nw
    chunks = [tasks[i:i + size] for i in range(0, len(tasks), size)]
    res = []
    with cf.ThreadPoolExecutor(nw) as ex:
        for o in ex.map(lambda c: worker(tools, bufs, c), [c for c in chunks if c]):
            res.extend(o)
    bad = [r for r in res if r['problems']]
    seen = set()
    first = (lambda p: not p.startswith(('-d ', '-n '))) if focus == 'dry' else (lambda p: p.startswith(('-d ', '-n ')))
    for r in bad:
        r['problems'].sort(key=first)
    for r in sorted(bad, key=lambda r: (first(r['problems'][0]), r['variable'], r['mode'], r['length'])):
        key = (r['variable'], r['mode'], r['problems'][0].split(' but ')[-1][:30])
        if key in seen:
            continue
        seen.add(key)
        rep.finding('unlisted', {'family': 'environment-length', 'variable': r['variable'], 'value': '%r x %d' % (r['fill'], r['length']) if r['variable'] not in ('HOME', 'TMPDIR')
                                 else 'a path of %d bytes (components of 200 bytes of %r)' % (r['length'], r['fill']),
                                 'value_length': r['length'], 'buffer_size': r['buffer'], 'arguments': ['-f', 'conf'] + r['args'], 'exit_status': r['status'],
                                 'what': r['problems'][:6], 'stderr': r['stderr'], 'config': CONF,
                                 'how': 'env %s=<value> mdsort -f conf %s' % (ENVNAME.get(r['variable'], r['variable']), ' '.join(r['args']))})
    return {'runs': len(res), 'variables': {v: b for v, b in bufs.items()}, 'modes': sorted(set(t[3] for t in tasks)),
            'lengths': {v: len(lengths(b, tier)) for v, b in bufs.items()},
            'rejected': len([r for r in res if r['buffer'] and r['length'] >= r['buffer']]),
            'accepted': len([r for r in res if not (r['buffer'] and r['length'] >= r['buffer'])]),
            'failing': len(bad),
            'rule': 'HOME, TMPDIR, TZ, the host name (gethostname through the shim) and LC_ALL at every length from 2 below to 40 (thorough: 160) beyond '
                    'the size of the buffer readenv() copies it into (sizes read from struct environment of the tree under check), +48 ... +128, '
                    'twice the size, 8192 and 16384 bytes, and around the OTHER buffer sizes, x fill bytes with different low bits, x real run / -d / '
                    '-n / - / -d - / -n -: a value that does not fit is rejected before ANY traced call (non-zero exit, diagnostic naming it, tree '
                    'unchanged); one that fits gives the outcome of the run with a 9-byte value (exit status, final tree, command records, standard '
                    'output); under -d the tree incl. directory modification times is unchanged and no mutating call is issued, under -n no call '
                    'beyond fopen/fclose of the configuration; no run ends by a signal'}


def unit(rep, sc, tier='quick'):
    """readenv() of the real mdsort.c in-process (harness/unit/h_main.c, ASan + UBSan, one child per request; op `renvz`) with HOME,
    TMPDIR and TZ at the lengths of the family, against Model.readenv (`M renvz`) and against the statement of C18_readenv_exact /
    C18_readenv_tz_exact: accepted iff every value is shorter than its buffer, and then each is the complete value; the options and
    the configuration path main() stored in the structure before are untouched."""
    bufs = buffer_sizes(sc.src)
    h = sc.unit_harness('h_main', ['mdsort.c'])
    reqs, want = [], []

    def add(home, tmpdir, tz):
        reqs.append(('renvz', home, tmpdir, tz))
        ok = len(home) < bufs['HOME'] and len(tmpdir) < bufs['TMPDIR'] and (tz == b'~' or len(tz) < bufs['TZ'])
        state = 0 if tz == b'~' else 1 if tz == b'' else 2
        want.append('OK %s %s %d %s INTACT' % (vlib.hexs(home), vlib.hexs(tmpdir), state, vlib.hexs(b'' if tz == b'~' else tz)) if ok else 'EXIT 1')
    for fill in (FILLS['TZ'] if tier != 'quick' else FILLS['TZ'][:2]):
        for n in lengths(bufs['TZ'], tier):
            add(b'/h', b'/t', fill.encode() * n)
    for n in lengths(bufs['HOME'], tier):
        add(value('HOME', 'p', n).encode(), b'/t', b'UTC')
        add(b'/h', value('TMPDIR', 'q', n).encode(), b'~')
    for tz in (b'~', b'', b'U', b'UTC', b'Europe/Stockholm', b':/etc/localtime', b'\xff\xfe'):
        add(b'/h', b'/t', tz)
    lines = [vlib.Differential.line(r) for r in reqs]
    impl = vlib.run_batch([h], lines, vlib.ASAN_ENV)
    model = vlib.run_batch([vlib.driver_path()], ['M ' + l for l in lines])
    bad_spec = [(r, l, i, m, w) for r, l, i, m, w in zip(reqs, lines, impl, model, want) if i != w and not (i == 'BADOP' and vlib.DEGRADED)]
    bad_model = [(r, l, i, m, w) for r, l, i, m, w in zip(reqs, lines, impl, model, want) if i == w and i != m]
    seen = set()
    for r, l, i, m, w in bad_spec:
        which = 'TZ' if len(r[3]) > 64 else 'HOME' if len(r[1]) > 64 else 'TMPDIR' if len(r[2]) > 64 else 'TZ'
        got = 'ends the process' if i.startswith('EXIT') else 'a sanitizer / signal stops it: ' + i if i.startswith('FAULT') else \
            'accepts it and overwrites the options or the configuration path' if i.endswith('CLOBBERED') else 'accepts it'
        key = (which, got[:20])
        if key in seen:
            continue
        seen.add(key)
        n = len(r[{'HOME': 1, 'TMPDIR': 2, 'TZ': 3}[which]])
        rep.finding('sanitizer-fault' if i.startswith('FAULT') else 'unlisted',
                    {'family': 'unit-readenv', 'harness': 'h_main', 'request': l[:200] + ('...' if len(l) > 200 else ''), 'variable': which, 'value_length': n,
                     'buffer_size': bufs[which],
                     'what': ['readenv() with %s of %d bytes (buffer: %d): the implementation %s; expected: %s' %
                              (which, n, bufs[which], got, 'exit status 1' if w.startswith('EXIT') else 'the complete values, options untouched')],
                     'implementation': i[:60] + '...' + i[-40:] if len(i) > 110 else i, 'model': m[:60] + '...' + m[-40:] if len(m) > 110 else m})
    return {'requests': len(reqs), 'rejected': sum(1 for w in want if w.startswith('EXIT')), 'spec_failures': len(bad_spec), 'model_mismatches': len(bad_model),
            'model_examples': [{'request': l[:200], 'implementation': i[:100], 'model': m[:100]} for r, l, i, m, w in bad_model[:5]]}
