#!/usr/bin/env python3
"""One-off tool (never run by a check): list the histories of the C17 schedule sweep that end in a wrong tree on the CURRENT /repo,
so that they can be reviewed and committed as known/C17_histories.json.  Each history was looked at before being listed
(DESIGN.md, C17): all of them are instances of F13 (placeholder created in new/cur) or F14 (new copy written next to its original).

  pin_histories.py            print the table as JSON on stdout
"""
import concurrent.futures as cf
import json
import os
import sys
sys.path.insert(0, os.path.dirname(os.path.abspath(__file__)))
import vlib, proc            # noqa: E402
from props import c17        # noqa: E402


def main():
    sc = vlib.Scratch()
    tools = proc.Tools(sc)
    pairs = [(a, b) for a in c17.A_KINDS for b in c17.B_KINDS]
    res = []
    with cf.ThreadPoolExecutor(vlib.NCPU) as ex:
        for r in ex.map(lambda p: c17.pair(tools, p[0], p[1], 'quick'), pairs):
            res.extend(r)
        for r in ex.map(lambda p: c17.pair(tools, p[0], p[1], 'quick', rule='match all', b_rule='match all'), c17.WITNESS_PAIRS):
            res.extend(r)
    table = {}
    for r in res:
        if not r['problems']:
            continue
        lost = any('lost' in p for p in r['problems'])
        if lost or r['status'] not in (0, 1):
            sys.stderr.write('NOT LISTED (loss / abnormal exit): %s\n' % c17.signature(r))
            continue
        strays = [p for p in r['problems'] if 'stray' in p]
        dup = any('exists' in p for p in r['problems'])
        if r['a_kind'] == 'label' and r['phase'] in ('inflight-complete', 'inflight-empty'):
            cls = 'inflight-copy-visible'
        elif r['a_kind'] == 'flag' and strays and all('(0 bytes)' in p for p in strays) and not dup:
            cls = 'placeholder-visible'
        else:
            sys.stderr.write('NOT LISTED (matches neither pinned finding): %s\n' % c17.signature(r))
            continue
        table[c17.signature(r)] = cls
    json.dump(table, sys.stdout, indent=1, sort_keys=True)
    sys.stdout.write('\n')


if __name__ == '__main__':
    main()
