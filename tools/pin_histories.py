#!/usr/bin/env python3
"""One-off tool (never run by a check): list the histories of the C17 schedule sweep that end in a wrong tree on the CURRENT /repo,
so that they can be reviewed and committed as known/C17_histories.json.  Each history was looked at before being listed
(DESIGN.md, C17): all of them are instances of F13 (placeholder created in new/cur) or F14 (new copy written next to its original).

  pin_histories.py            print the table of the single-preemption sweep (known/C17_histories.json) as JSON on stdout
  pin_histories.py sched [budget] [seeds]
                              the same for the schedule families of tools/c17sched.py (known/C17_sched_histories.json): EXACT histories
                              of the families that are enumerated completely, history SHAPES harvested from them and from the sampled
                              families under the given seeds (default: every sample universe, 0 .. SAMPLE_UNIVERSES-1, i.e. every
                              schedule any VERIF_SEED can draw).  A class is PROPOSED by c17sched.review_class (F13 / F14
                              as above for every preempted party; F31: a preempted flag party and a preempted copying party, one message
                              duplicated (and another lost), no stray; F32: rules matching every file, a copying party preempted with its
                              copy in flight, a message lost and only short strays) and only for histories the parties model reproduces;
                              everything else is printed on stderr as NOT LISTED and stays a violation.
"""
import concurrent.futures as cf
import json
import os
import sys
sys.path.insert(0, os.path.dirname(os.path.abspath(__file__)))
import vlib, proc            # noqa: E402
from props import c17        # noqa: E402


def sched_main(argv):
    import c17sched as cs
    budget = int(argv[0]) if argv else cs.BUDGET
    seeds = [int(x) for x in argv[1].split(',')] if len(argv) > 1 else list(range(cs.SAMPLE_UNIVERSES))
    sc = vlib.Scratch()
    tools = proc.Tools(sc)
    exact, shapes = {}, {}
    for n, seed in enumerate(seeds):
        only = None if n == 0 else ('three-switches', 'three-parties', 'fine-grained')
        fam, hist, done, wall, nproc = cs.sweep(tools, sc, seed, budget, only=only)
        sys.stderr.write('seed %d: %d schedules, %d distinct histories, %.0f s\n' % (seed, done, len(hist), wall))
        for (family, sig, shape, has_probs, agrees), g in sorted(hist.items(), key=lambda kv: str(kv[0])):
            if not has_probs or not agrees:
                sys.stderr.write('NOT LISTED (%s): %s x%d %s\n' % ('the model disagrees' if not agrees else 'no wrong tree', family, g['n'],
                                                                 g['example'].get('model_disagrees', [])[:2]))
                continue
            rs, ps, vs = shape.split(' || ')
            cls = cs.review_class(rs, ps.split(','), [v for v in vs.split(',') if v])
            if cls is None:
                sys.stderr.write('NOT LISTED (matches no pinned finding): %s %s x%d e.g. %s\n' % (family, sig, g['n'], g['example']['schedule']))
                continue
            if family in cs.EXHAUSTIVE:
                exact[sig] = cls
            # the shape: rule shape, what is wrong, and ONE preempted (kind, phase) pair of those the class is about
            pl = [t for t in ps.split(',') if cls == 'name-reuse-unlink' or t != 'stale-unlink']
            for v in cs.essential_victims(cls, [v for v in vs.split(',') if v]):
                shapes[cs.shape_key(rs, pl, [v])] = cls
    minimal = shapes
    json.dump({'exact': exact, 'shapes': minimal}, sys.stdout, indent=1, sort_keys=True)
    sys.stdout.write('\n')


def main():
    if len(sys.argv) > 1 and sys.argv[1] == 'sched':
        return sched_main(sys.argv[2:])
    sc = vlib.Scratch()
    tools = proc.Tools(sc)
    pairs = [(a, b) for a in c17.A_KINDS for b in c17.B_KINDS]
    res = []
    with cf.ThreadPoolExecutor(vlib.NCPU) as ex:
        for r in ex.map(lambda p: c17.pair(tools, p[0], p[1], 'quick'), pairs):
            res.extend(r)
        for r in ex.map(lambda p: c17.pair(tools, p[0], p[1], 'quick', rule='match all', b_rule='match all'), c17.WITNESS_PAIRS):
            res.extend(r)
    table = {}
    for r in res:
        if not r['problems']:
            continue
        lost = any('lost' in p for p in r['problems'])
        if lost or r['status'] not in (0, 1):
            sys.stderr.write('NOT LISTED (loss / abnormal exit): %s\n' % c17.signature(r))
            continue
        strays = [p for p in r['problems'] if 'stray' in p]
        dup = any('exists' in p for p in r['problems'])
        if r['a_kind'] == 'label' and r['phase'] in ('inflight-complete', 'inflight-empty'):
            cls = 'inflight-copy-visible'
        elif r['a_kind'] == 'flag' and strays and all('(0 bytes)' in p for p in strays) and not dup:
            cls = 'placeholder-visible'
        else:
            sys.stderr.write('NOT LISTED (matches neither pinned finding): %s\n' % c17.signature(r))
            continue
        table[c17.signature(r)] = cls
    json.dump(table, sys.stdout, indent=1, sort_keys=True)
    sys.stdout.write('\n')


if __name__ == '__main__':
    main()
