#!/bin/sh
# usage: confirm_seed.sh <name> <property> <patch.diff> <demo.sh> [extra demo files...]
# Confirms in a fresh scratch worktree of /repo HEAD that the change compiles, keeps the 272 tests
# passing, that the demonstration passes without it and fails with it; then files it under seeded/<name>/.
set -u
name=$1; prop=$2; patch=$3; demo=$4; shift 4
wt=/tmp/seedwt.$$
git -C /repo worktree add -q --detach $wt HEAD || exit 2
cp /repo/config.h /repo/config.mk $wt/
res=fail
( cd $wt && make >/dev/null 2>&1 && sh "$demo" $wt >/tmp/seed_demo_clean.out 2>&1 ); clean_rc=$?
( cd $wt && git apply "$patch" ) || { echo "patch does not apply to current HEAD"; git -C /repo worktree remove --force $wt; exit 3; }
( cd $wt && make >/tmp/seed_build.out 2>&1 ); build_rc=$?
npass=$( cd $wt && make -k test 2>&1 | grep -c PASS )
( cd $wt && sh "$demo" $wt >/tmp/seed_demo_mut.out 2>&1 ); mut_rc=$?
echo "name=$name build_rc=$build_rc tests_pass=$npass demo_clean_rc=$clean_rc demo_mutant_rc=$mut_rc"
if [ $build_rc -eq 0 ] && [ "$npass" = 272 ] && [ $clean_rc -eq 0 ] && [ $mut_rc -ne 0 ]; then
  d=/verif/seeded/$name; mkdir -p $d
  cp "$patch" $d/patch.diff; cp "$demo" $d/demo.sh
  for f in "$@"; do cp "$f" $d/; done
  cat > $d/meta.json <<EOM
{"property": "$prop", "name": "$name",
 "confirmed": {"builds": true, "tests_pass": $npass, "demo_rc_without_change": $clean_rc, "demo_rc_with_change": $mut_rc,
               "how": "tools/confirm_seed.sh in a scratch worktree of /repo HEAD (removed afterwards)"}}
EOM
  res=kept
fi
git -C /repo worktree remove --force $wt
echo "result=$res"
