#!/bin/sh
# usage: confirm_all.sh <dir-with-<id>/patch.diff,demo.sh,...>...   -- confirm every delivered change and file it under seeded/
for d in "$@"; do
  [ -f "$d/patch.diff" ] || continue
  name=$(basename "$d"); prop=$(echo "$name" | cut -c1-3)
  if [ -d /verif/seeded/$name ]; then echo "name=$name already filed"; continue; fi
  extras=$(find "$d" -maxdepth 1 -type f ! -name patch.diff ! -name demo.sh | tr '\n' ' ')
  sh /verif/tools/confirm_seed.sh "$name" "$prop" "$d/patch.diff" "$d/demo.sh" $extras 2>&1 | grep -E '^name=|^result=|does not apply'
done
echo CONFIRM-ALL-DONE
