#!/bin/sh
# Re-base the seeded patches onto /repo's current HEAD (after a fix: commit changed their context).
# For every seeded/<id>/patch.diff that no longer applies cleanly: apply it with fuzz in a scratch worktree, regenerate the
# diff, and re-confirm (build, 272 tests, demo passes without / fails with the change).  Never touches /repo's working tree.
for d in /verif/seeded/*/; do
  id=$(basename $d); [ -f $d/patch.diff ] || continue
  wt=$(mktemp -d /tmp/rs.XXXXXX); rmdir $wt
  git -C /repo worktree add -q --detach $wt HEAD || exit 2
  if git -C $wt apply --check $d/patch.diff 2>/dev/null; then
    git -C /repo worktree remove --force $wt; continue
  fi
  cp /repo/config.h /repo/config.mk $wt/
  if ( cd $wt && patch -p1 -s --fuzz=3 --no-backup-if-mismatch < $d/patch.diff >/dev/null 2>&1 ); then
    ( cd $wt && find . -name '*.orig' -delete -o -name '*.rej' -delete; git diff ) > /tmp/rs.new.diff
    ( cd $wt && make >/dev/null 2>&1 ); b=$?
    np=$( cd $wt && make -k test 2>&1 | grep -c PASS )
    ( cd $wt && sh $d/demo.sh $wt >/dev/null 2>&1 ); m=$?
    if [ $b -eq 0 ] && [ "$np" = 272 ] && [ $m -ne 0 ]; then
      cp /tmp/rs.new.diff $d/patch.diff; echo "$id: refreshed (build ok, 272 PASS, demo fails with the change: rc=$m)"
    else
      echo "$id: REFRESH FAILED build=$b pass=$np demo=$m"
    fi
  else
    echo "$id: DOES NOT APPLY even with fuzz"
  fi
  git -C /repo worktree remove --force $wt
done
echo REFRESH-DONE
