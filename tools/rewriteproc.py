"""C08 at process level: rewriting actions on the real binary when the transfer of the rewritten message is disturbed.

`label`, `add-header`, both, a cross-device `move` (copy through message_write), label + cross-device move, and stdin-mode delivery
with a label / across devices, each with a small, a multi-KiB and a > 64 KiB message (stdio issues several write(2) calls), one run
per (call index, errno / short count) of the fault-free run and one run per file size limit (proc.run(fsize=N): the kernel cuts the
write(2) calls stdio issues itself - `fail=` cannot reach those) at boundaries of the header block, the stdio buffer and the file.

Oracle = the property on the real final tree, evaluated by the SPECIFICATION side of the Lean driver (`S hsetcheck`: Spec.rewriteOk,
the predicate tools/props/c08.py uses at unit level): every message file present afterwards is byte for byte the original, or a
complete documented rewrite of it (Spec.rewriteOk original settings file) for the settings of a prefix of the rule's actions; never
anything else (truncated, extended, mixed); exit status 0 only if every file is the complete rewrite by ALL actions at the place the
rule says; in maildir mode the message is never gone.
"""
import concurrent.futures as cf
import hashlib
import os
import vlib
import proc
import worldscen as ws

R = '@R@'
# calls of the rewrite path (quick tier); the thorough tier disturbs every call
REWRITE_CALLS = {'openat', 'fcntl', 'fdopen', 'fprintf', 'fflush', 'fsync', 'fclose', 'write', 'read', 'close', 'unlinkat', 'renameat', 'utimensat', 'mkdtemp'}
XL = b'X-Label'
XA = b'X-Added'


def message(i, n, label=None, longhdr=False):
    extra = b''
    if longhdr:
        # a header block larger than one stdio buffer
        extra += b'References: ' + b' '.join(b'<%04d.%s@example.com>' % (j, b'x' * 40) for j in range(110)) + b'\n'
    if label is not None:
        extra += b'X-Label: ' + label + b'\n'
    return ws.msg(i, extra=extra, body=ws.text_body(n))


class Case:
    def __init__(self, name, conf, msg, stages, devmap=(), stdin_mode=False, final_dir='src/new', exact=False):
        """stages: list of settings lists [(key, value)...], one per rewriting step of the rule, cumulative; the last one is the
        complete rewrite.  final_dir: where the message is after a successful run.  exact: a case of the exact-size family (only the
        undisturbed run; a wrong result there is a failing input by itself)."""
        self.name, self.conf, self.msg, self.stages, self.devmap, self.stdin_mode, self.final_dir = name, conf, msg, stages, tuple(devmap), stdin_mode, final_dir
        self.exact = exact
        self.fieldcheck = False     # hostile_cases: also compare the field NAMES of the rewritten header block (independent of the driver)

    def spec(self):
        tree = {}
        tree.update(proc.maildir_tree('dst', {}))
        if self.stdin_mode:
            return ws.Spec(self.name, self.conf, [], tree=tree, stdin=self.msg, args=['-'], kind='stdin', devmap=self.devmap, stdin_file=True)
        tree.update(proc.maildir_tree('src', {('new', '1.host'): self.msg}))
        return ws.Spec(self.name, self.conf, [], tree=tree, devmap=self.devmap)


def cases(tier):
    C = []
    sizes = [('small', 60), ('kib', 10000), ('big', 70000)]
    if tier != 'quick':
        sizes += [('buf', 4096 - 60), ('huge', 300000)]
    md = 'maildir "%s/src" {\n\tmatch all %%s\n}\n' % R
    dst = '%s/dst' % R
    for sn, n in sizes:
        m = message(1, n)
        ml = message(2, n, label=b'old')
        mh = message(3, n, longhdr=True)
        C.append(Case('label-' + sn, md % 'label "lbl"', m, [[(XL, b'lbl')]]))
        C.append(Case('relabel-' + sn, md % 'label "lbl"', ml, [[(XL, b'old lbl')]]))
        C.append(Case('add-header-' + sn, md % 'add-header "X-Added" "v1"', m, [[(XA, b'v1')]]))
        C.append(Case('label-add-header-' + sn, md % 'label "lbl" add-header "X-Added" "v1"', m, [[(XL, b'lbl')], [(XL, b'lbl'), (XA, b'v1')]]))
        C.append(Case('move-exdev-' + sn, md % ('move "%s"' % dst), m, [[]], devmap=(dst,), final_dir='dst/new'))
        C.append(Case('label-move-exdev-' + sn, md % ('label "lbl" move "%s"' % dst), ml, [[(XL, b'old lbl')], [(XL, b'old lbl')]], devmap=(dst,), final_dir='dst/new'))
        C.append(Case('longhdr-label-' + sn, md % 'label "lbl"', mh, [[(XL, b'lbl')]]))
        C.append(Case('stdin-label-' + sn, 'stdin {\n\tmatch all label "in" move "%s"\n}\n' % dst, ml, [[(XL, b'old in')]], stdin_mode=True, final_dir='dst/new'))
        C.append(Case('stdin-exdev-' + sn, 'stdin {\n\tmatch all move "%s"\n}\n' % dst, m, [[]], devmap=('%s/tmp' % R,), stdin_mode=True, final_dir='dst/new'))
    return C


def xmessage(to=b'user1', label=None, hdr_block=None, total=None, body=b'the body\nsecond line\n'):
    """A message with a header block of exactly `hdr_block` bytes (blank line included) and/or exactly `total` bytes."""
    head = b'To: ' + to + b'@example.com\nX-Id: 1\nSubject: exact sizes\n'
    if label is not None:
        head += b'X-Label: ' + label + b'\n'
    if hdr_block is not None:
        pad = hdr_block - len(head) - 1 - len(b'X-Pad: \n')
        assert pad >= 1, (hdr_block, len(head))
        words = b' '.join(b'%04d' % i for i in range(pad // 5 + 2))[:pad - 1] + b'p'
        head += b'X-Pad: ' + words + b'\n'
        assert len(head) + 1 == hdr_block
    if total is not None:
        body = ws.text_body(total - len(head) - 1)
    m = head + b'\n' + body
    assert total is None or len(m) == total
    return m


def exact_cases(src, tier):
    """Exact-size family: rewrites in which a header value being built, the header block or the whole message ends exactly on, one
    below and one above a capacity of the growable buffer it passes through - the X-Label value (128 bytes, doubling), an interpolated
    add-header / label string (64, doubling), the message as read from its descriptor (buffer_read_fd: 8192, room for half its size
    after every read); sizes read from the buffer_alloc() calls of the source being checked (tools/lbuf.py).  Undisturbed runs only."""
    import lbuf
    C = []
    md = 'maildir "%s/src" {\n\tmatch %%s\n}\n' % R
    cap1 = 'header "To" /^([a-z]+)@/'
    letters = lambda n: bytes(97 + i % 26 for i in range(n))
    for n in lbuf.exact_lengths(src, 60, 1100 if tier == 'quick' else 4200):
        old = b' '.join([b'list-%d' % i for i in range(n // 6 + 2)])[:n - 1] + b'x'
        # an existing X-Label value of n bytes; one that the new label completes to n bytes
        C.append(Case('exact-relabel-%d' % n, md % 'all label "new"', xmessage(label=old), [[(XL, old + b' new')]], exact=True))
        lab = letters(27)
        C.append(Case('exact-relabel-sum-%d' % n, md % ('all label "%s"' % lab.decode()), xmessage(label=old[:n - 28]), [[(XL, old[:n - 28] + b' ' + lab)]], exact=True))
        # label and add-header values that are a captured text of n bytes, alone and after literal text
        C.append(Case('exact-label-capture-%d' % n, md % (cap1 + ' label "\\1"'), xmessage(to=letters(n)), [[(XL, letters(n))]], exact=True))
        C.append(Case('exact-add-header-capture-%d' % n, md % (cap1 + ' add-header "X-Added" "v-\\1"'), xmessage(to=letters(n - 2)),
                      [[(XA, b'v-' + letters(n - 2))]], exact=True))
        C.append(Case('exact-label-add-header-%d' % n, md % (cap1 + ' label "\\1" add-header "X-Added" "\\1"'), xmessage(to=letters(n), label=b'old'),
                      [[(XL, b'old ' + letters(n))], [(XL, b'old ' + letters(n)), (XA, letters(n))]], exact=True))
    dst = '%s/dst' % R
    for n in lbuf.exact_lengths(src, 4000, 70000 if tier == 'quick' else 140000, deltas=(-1, 0, 1)) + [12288, 12289, 24576, 24577]:
        if n < 4000:
            continue
        # the whole message has n bytes (what buffer_read_fd reads in one piece or in several); the header block has n bytes
        C.append(Case('exact-message-%d-label' % n, md % 'all label "lbl"', xmessage(total=n), [[(XL, b'lbl')]], exact=True))
        if n <= 20000:
            C.append(Case('exact-header-block-%d-label' % n, md % 'all label "lbl"', xmessage(hdr_block=n), [[(XL, b'lbl')]], exact=True))
        if n in (8191, 8192, 8193, 16384, 65536):
            C.append(Case('exact-message-%d-exdev' % n, md % ('all move "%s"' % dst), xmessage(total=n), [[]], devmap=(dst,), final_dir='dst/new', exact=True))
            C.append(Case('exact-message-%d-stdin' % n, 'stdin {\n\tmatch all label "in" move "%s"\n}\n' % dst, xmessage(total=n), [[(XL, b'in')]],
                          stdin_mode=True, final_dir='dst/new', exact=True))
    return C


FOLDED = (b'Received: from a.example.com (a.example.com [192.0.2.1])\n\tby mx.example.org with ESMTP id 1234;\n\t Mon, 1 Jan 2024 10:00:00 +0000\n'
          b'Received: from b.example.com\n by a.example.com;\n  Mon, 1 Jan 2024 09:59:00 +0000\n'
          b'To: user1@example.com,\n\tuser2@example.com\n'
          b'Subject: =?UTF-8?Q?caf=C3=A9?=\n =?UTF-8?Q?_au_lait?= and\n\tmore text\n'
          b'Date: Mon,\n 1 Jan 2024 10:00:00\n +0000\n'
          b'X-Id: 1\n'
          b'X-Label: one\n'
          b'MIME-Version: 1.0\n'
          b'Content-Type: multipart/mixed;\n\tboundary="b1";\n charset=utf-8\n')
FOLDED_BODY = (b'preamble\n--b1\nContent-Type: text/plain;\n\tcharset=utf-8\nContent-Transfer-Encoding: quoted-printable\n\nhello =\nworld caf=C3=A9\n'
               b'--b1\nContent-Type: application/octet-stream;\n name="x"\nContent-Transfer-Encoding: base64\n\naGVsbG8gYXR0YWNobWVudAo=\n--b1--\nepilogue\n')


def lookup_cases(tier):
    """Rewrites that FOLLOW a condition which has looked at the message: folded and encoded header values, a folded Content-Type
    with a boundary, encoded bodies and attachments are read (unfolded, decoded, split into parts) by header / date / body /
    attachment conditions, and only then the message is rewritten.  Reading must not change what is written: every original field
    keeps its value including its folding, the body is byte-identical (Spec.rewriteOk).  Undisturbed runs only."""
    C = []
    m = FOLDED + b'\n' + FOLDED_BODY
    md = 'maildir "%s/src" {\n\tmatch %%s\n}\n' % R
    dst = '%s/dst' % R
    conds = [('all', 'all'),
             ('received', 'header "Received" /ESMTP id/'),
             ('received2', 'header "Received" /a\\.example\\.com;/'),
             ('subject', 'header "Subject" /au lait/'),
             ('to', 'header { "Cc" "To" } /user2/'),
             ('label', 'header "X-Label" /one/'),
             ('ctype', 'header "Content-Type" /boundary/'),
             ('date', 'date > 1 seconds'),
             ('body', 'body /epilogue/'),
             ('attachment', 'attachment body /hello attachment/'),
             ('attachment-header', 'attachment header "Content-Type" /octet-stream/'),
             ('neg', '! header "Received" /nowhere/ and header "Subject" /text/'),
             ('or', 'header "Subject" /nothing/ or header "To" /user1/')]
    if tier == 'quick':
        acts = [('label', 'label "new"', [[(XL, b'one new')]], (), 'src/new'),
                ('add-header', 'add-header "X-Added" "v1"', [[(XA, b'v1')]], (), 'src/new'),
                ('exdev', 'move "%s"' % dst, [[]], (dst,), 'dst/new')]
    else:
        acts = [('label', 'label "new"', [[(XL, b'one new')]], (), 'src/new'),
                ('add-header', 'add-header "X-Added" "v1"', [[(XA, b'v1')]], (), 'src/new'),
                ('set-subject', 'add-header "Subject" "replaced"', [[(b'Subject', b'replaced')]], (), 'src/new'),
                ('label-add', 'label "new" add-header "X-Added" "v1"', [[(XL, b'one new')], [(XL, b'one new'), (XA, b'v1')]], (), 'src/new'),
                ('exdev', 'move "%s"' % dst, [[]], (dst,), 'dst/new')]
    for cn, cond in conds:
        for an, act, stages, devmap, fin in acts:
            C.append(Case('lookup-%s-%s' % (cn, an), md % (cond + ' ' + act), m, stages, devmap=devmap, final_dir=fin, exact=True))
    return C


# existing header values whose RFC 2047 encoded words decode to line breaks, CR, control bytes, leading blanks: (name, raw text, decoded)
HOSTILE = [('nl2', b'=?utf-8?Q?a=0A=0AX?=', b'a\n\nX'),
           ('nl1', b'=?utf-8?Q?a=0Ab?=', b'a\nb'),
           ('cr', b'=?utf-8?Q?a=0Db?=', b'a\rb'),
           ('crlf', b'=?utf-8?Q?a=0D=0A=0D=0Ab?=', b'a\r\n\r\nb'),
           ('b64nl', b'=?utf-8?B?YQoKYg==?=', b'a\n\nb'),
           ('trailnl', b'=?utf-8?Q?a=0A?=', b'a\n'),
           ('hdrlike', b'=?utf-8?Q?a=0ATo:_evil@example.com=0A=0Abody?=', b'a\nTo: evil@example.com\n\nbody'),
           ('leadnl', b'=?utf-8?Q?=0Aa?=', b'\na'),
           ('leadsp', b'=?utf-8?Q?_a?=', b' a'),
           ('leadtab', b'=?utf-8?Q?=09a?=', b'\ta'),
           ('ctl', b'=?utf-8?Q?a=01=1F=7Fb?=', b'a\x01\x1f\x7fb'),
           ('two', b'=?utf-8?Q?a=0A?= =?utf-8?Q?=0Ab?=', b'a\n\nb')]


def header_names(data):
    """Field names of the header block, line by line; None if a line of the block is neither a field start nor a continuation."""
    names = []
    for ln in data.split(b'\n\n', 1)[0].split(b'\n'):
        if ln[:1] in (b' ', b'\t') and names:
            continue
        k, sep, _ = ln.partition(b':')
        if not sep or not k or b' ' in k:
            return None
        names.append(k.lower())
    return names


def hostile_cases(tier):
    """Message content that ends up in a header being SET: `label` appends to the existing X-Label text as message_get_header returns
    it (unfolded, RFC 2047-DECODED), and `\\1` in label / add-header inserts a capture of a decoded header value.  The decoded text can
    hold line breaks, CR, control bytes and leading blanks.  Whatever it holds, the rewritten file must keep every other field and
    the body (Spec.rewriteOk, and the field names of its header block compared directly), with the set header present once.
    Expected values: label = existing values with LF / CR turned into a space (mdsort 71eba6c), joined, + the new label; a capture of
    `(.*)` / `([^x]*)` = the text up to the first line break (REG_NEWLINE); a reader does not see blanks after the colon, so the
    expected value is given without leading blanks.  Undisturbed runs only."""
    C = []
    md = 'maildir "%s/src" {\n\tmatch %%s\n}\n' % R
    san = lambda v: v.replace(b'\n', b' ').replace(b'\r', b' ')
    seen = lambda v: v.lstrip(b' \t')
    line1 = lambda v: v.split(b'\n')[0]
    for hn, raw, dec in HOSTILE:
        m = b'To: user1@example.com\nX-Id: 1\nX-Label: ' + raw + b'\nSubject: after the label\nX-Trailer: last\n\nthe body\nsecond line\n'
        acts = [('label', 'all label "new"', [[(XL, seen(san(dec) + b' new'))]]),
                ('label-add', 'all label "new" add-header "X-Added" "v1"', [[(XL, seen(san(dec) + b' new'))], [(XL, seen(san(dec) + b' new')), (XA, b'v1')]])]
        if tier != 'quick':
            acts.append(('label2', 'all label "n1" label "n2"', [[(XL, seen(san(dec) + b' n1'))], [(XL, seen(san(dec) + b' n1 n2'))]]))
        for an, act, stages in acts:
            c = Case('hostile-xlabel-%s-%s' % (hn, an), md % act, m, stages, exact=True)
            c.fieldcheck = True
            C.append(c)
        # two X-Label fields: both are copied, the second field disappears
        m2 = m.replace(b'X-Trailer: last\n', b'X-Label: second\nX-Trailer: last\n')
        c = Case('hostile-xlabel2-%s' % hn, md % 'all label "new"', m2, [[(XL, seen(san(dec) + b' second new'))]], exact=True)
        c.fieldcheck = True
        C.append(c)
        # the decoded value as a capture
        ms = b'To: user1@example.com\nSubject: ' + raw + b'\nX-Id: 1\nX-Trailer: last\n\nthe body\nsecond line\n'
        pats = [('dot', '(.*)'), ('neg', '([^x]*)')] if tier != 'quick' else [('dot', '(.*)')]
        for pn, pat in pats:
            cap = san(line1(dec))       # `.` matches a CR; message_set_header turns it into a space (4ac7c48)
            for an, act, stages in [('add', 'add-header "X-Copy" "\\1"', [[(b'X-Copy', seen(cap))]]),
                                    ('label', 'label "\\1"', [[(XL, seen(cap))]])]:
                if an == 'label' and not seen(cap):
                    continue        # an empty label is a story of its own
                c = Case('hostile-capture-%s-%s-%s' % (hn, pn, an), md % ('header "Subject" /%s/ %s' % (pat, act)), ms, stages, exact=True)
                c.fieldcheck = True
                C.append(c)
        # captures that DO contain the line breaks (mdsort 4ac7c48 turns them into spaces when the header is set): a matching list
        # matches a newline also under REG_NEWLINE - `(([[:space:]]|[^[:space:]])+)` is the whole decoded value; a non-matching list
        # does not - `([^a-z]*)` stops at the newline; a literal newline in the pattern matches itself
        whole = seen(san(dec))
        lits = [('class', '(([[:space:]]|[^[:space:]])+)', whole)]
        upto = bytearray()
        for ch in dec:
            if 97 <= ch <= 122 or ch == 10:
                break
            upto.append(ch)
        lits.append(('negclass', '([^a-z]*)', seen(san(bytes(upto)))))
        if dec and all(65 <= ch <= 90 or 97 <= ch <= 122 or ch == 10 for ch in dec) and b'\n' in dec:
            lits.append(('literal-newline', '(%s)' % dec.decode('latin-1'), whole))
        if tier == 'quick':
            lits = [x for x in lits if x[0] != 'negclass']
        for pn, pat, cap in lits:
            for an, act, stages in [('add', 'add-header "X-Copy" "\\1"', [[(b'X-Copy', cap)]]), ('label', 'label "\\1"', [[(XL, cap)]])]:
                if (an == 'label' and not cap) or (tier == 'quick' and an == 'label' and pn != 'class'):
                    continue
                c = Case('hostile-capture-%s-%s-%s' % (hn, pn, an), md % ('header "Subject" /%s/ %s' % (pat, act)), ms, stages, exact=True)
                c.fieldcheck = True
                C.append(c)
    # configured values that hold line breaks themselves (a string literal of the configuration may span lines)
    mc = b'To: user1@example.com\nSubject: plain\nX-Id: 1\nX-Trailer: last\n\nthe body\nsecond line\n'
    for vn, val in [('nl', b'v1\nv2'), ('nl2', b'v1\n\nEvil: x\n\nbody'), ('leadnl', b'\nv1'), ('trailnl', b'v1\n'), ('cr', b'v1\rv2')]:
        c = Case('hostile-config-%s-add' % vn, md % ('all add-header "X-Added" "%s"' % val.decode('latin-1')), mc, [[(XA, seen(san(val)))]], exact=True)
        c.fieldcheck = True
        C.append(c)
        c = Case('hostile-config-%s-label' % vn, md % ('all label "%s"' % val.decode('latin-1')), mc, [[(XL, seen(san(val)))]], exact=True)
        c.fieldcheck = True
        C.append(c)
    return C


def plans(case, clean, tier, final_len):
    calls = clean.calls()
    out = []
    for k, c in enumerate(calls):
        if tier == 'quick' and c['name'] not in REWRITE_CALLS:
            continue
        for e in ws.errnos(c['name'], tier):
            out.append(('%d:%s' % (k, e), '%d:%s' % (k, e), None, c['raw']))
    L0, L1 = len(case.msg), final_len
    hdr = case.msg.index(b'\n\n') + 2
    if tier == 'quick':
        lims = [1, hdr // 2, hdr + 1, 4096, 8192, L1 // 2, 65536, L0 - 1, L0, L1 - 1, L1]
    else:
        lims = [0, 1, 2, hdr // 2, hdr - 1, hdr, hdr + 1, 4095, 4096, 4097, 8191, 8192, 8193, L1 // 3, L1 // 2, 65535, 65536, 65537, 131072,
                L0 - 4096, L0 - 1, L0, L0 + 1, L1 - 4096, L1 - 2, L1 - 1, L1, L1 + 1]
    for lim in sorted(set(l for l in lims if 0 <= l <= L1 + 1)):
        out.append(('fsize=%d' % lim, None, lim, 'kernel file size limit %d bytes (original %d, complete rewrite %d, header block %d)' % (lim, L0, L1, hdr)))
    return out


def sha(b):
    return hashlib.sha1(b).hexdigest()


def sweep(tools, case, tier):
    """-> (records, {sha: bytes}) ; a record's files are [(rel, sha, len)]"""
    recs, blobs = [], {}

    def files_of(r):
        fs = []
        for rel, data in sorted(ws.maildir_files(r.final).items()):
            h = sha(data)
            blobs.setdefault(h, data)
            fs.append((rel, h, len(data)))
        return fs

    scen = case.spec().build(tools)
    try:
        clean = scen.run()
        fs = files_of(clean)
        recs.append({'scenario': case.name, 'plan': None, 'status': clean.status, 'files': fs, 'fired': False, 'stderr': clean.err[-300:].decode('latin-1'), 'call': ''})
        if clean.status != 0 or len(fs) != 1 or case.exact:
            return recs, blobs
        for label, fail, fsize, what in plans(case, clean, tier, fs[0][2]):
            scen.reset()
            r = scen.run(fail=fail, fsize=fsize)
            fired = any(t.get('fault') for t in r.trace if t['kind'] == 'call') or (fsize is not None and fsize < fs[0][2])
            recs.append({'scenario': case.name, 'plan': label, 'status': r.status, 'files': files_of(r), 'fired': fired,
                         'stderr': r.err[-300:].decode('latin-1'), 'call': what.replace(scen.root, R)[:200]})
        return recs, blobs
    finally:
        scen.cleanup()


def classify_all(cs, recs, blobs):
    """{(scenario, sha): 'original' | 'stage i' | 'corrupt'} through Spec.rewriteOk (driver `S hsetcheck`)."""
    by_name = {c.name: c for c in cs}
    cls, lines, keys = {}, [], []
    for r in recs:
        c = by_name[r['scenario']]
        for rel, h, n in r['files']:
            key = (c.name, h)
            if key in cls:
                continue
            if blobs[h] == c.msg:
                cls[key] = 'original'
                continue
            cls[key] = 'corrupt'
            for i, kvs in enumerate(c.stages):
                args = [blobs[h], c.msg, XL]
                for k, v in kvs:
                    args += [k, v]
                lines.append('S hsetcheck ' + ' '.join(vlib.hexs(a) for a in args))
                keys.append((key, i))
    outs = vlib.run_batch([vlib.driver_path()], lines)
    for (key, i), o in zip(keys, outs):
        if o == 'OK':
            # the latest step that accepts the file (equal settings in consecutive steps: a pure copy step); BAD / NOTWF: stays corrupt
            cls[key] = 'stage %d' % i
    return cls, len(lines)


def judge(case, r, cls):
    probs = []
    last = 'stage %d' % (len(case.stages) - 1)
    kinds = []
    for rel, h, n in r['files']:
        k = cls[(case.name, h)]
        # consecutive stages with equal settings accept the same files: treat them as the later one
        if k.startswith('stage'):
            i = int(k.split(' ')[1])
            while i + 1 < len(case.stages) and case.stages[i + 1] == case.stages[i]:
                i += 1
            k = 'stage %d' % i
        if k == 'original' and not case.stages[-1]:
            # a pure copy (cross-device move without settings): the complete rewrite IS the original, byte for byte
            k = last
        kinds.append((rel, k, n))
        if k == 'corrupt':
            probs.append('%s (%d bytes) is neither the original message (%d bytes) nor a complete rewrite of it (Spec.rewriteOk rejects it for '
                         'every step of the rule): truncated or altered' % (rel, n, len(case.msg)))
    if case.fieldcheck and r.get('blobs'):
        want = [n for n in header_names(case.msg)]
        setn = [k.lower() for k, _ in case.stages[-1]]
        keep = [n for n in want if n not in setn]
        for rel, h, n in r['files']:
            got = header_names(r['blobs'][h])
            if got is None:
                probs.append('%s: the header block of the rewritten file has a line that is neither a field nor a continuation' % rel)
            elif [n for n in got if n not in setn] != keep or sorted(n for n in got if n in setn) != sorted(set(setn)):
                probs.append('%s: field names of the rewritten header block %r, expected the original ones %r with %r once each' % (rel, got, want, setn))
    if r['status'] not in (0, 1, 75):
        probs.append('abnormal exit status %r: %s' % (r['status'], r['stderr']))
    good = [x for x in kinds if x[1] != 'corrupt']
    if not good and not (case.stdin_mode and r['status'] != 0):
        probs.append('the message is gone: no file holds the original or a complete rewrite')
    if r['status'] == 0:
        if not any(k == last and os.path.dirname(rel) == case.final_dir for rel, k, n in kinds):
            probs.append('exit status 0 but no file in %s is the complete rewrite by all actions' % case.final_dir)
        for rel, k, n in kinds:
            if k not in (last, 'corrupt'):
                probs.append('exit status 0 but %s is %s, not the complete rewrite' % (rel, 'the original' if k == 'original' else 'the result of step %s only' % k[6:]))
    return probs, kinds


def stage(rep, tools):
    cs = cases(rep.tier) + exact_cases(tools.sc.src, rep.tier) + lookup_cases(rep.tier) + hostile_cases(rep.tier)
    recs, blobs = [], {}
    with cf.ThreadPoolExecutor(min(vlib.NCPU, len(cs))) as ex:
        for rr, bb in ex.map(lambda c: sweep(tools, c, rep.tier), cs):
            recs.extend(rr)
            blobs.update(bb)
    cls, nq = classify_all(cs, recs, blobs)
    by_name = {c.name: c for c in cs}
    nbad, outcome = 0, {}
    for r in recs:
        c = by_name[r['scenario']]
        if c.fieldcheck:
            r = dict(r, blobs=blobs)
        probs, kinds = judge(c, r, cls)
        if r['plan'] is None and c.exact:
            key = 'exact sizes: ' + ('as documented' if r['status'] == 0 and not probs else 'WRONG')
            outcome[key] = outcome.get(key, 0) + 1
            if r['status'] != 0 or probs:
                nbad += 1
                if nbad <= 6:
                    hdr = c.msg.index(b'\n\n') + 2
                    rep.finding('unlisted', {'stage': 'process', 'family': 'read before rewrite' if c.name.startswith('lookup-') else 'message content in the header being set' if c.name.startswith('hostile-') else 'exact sizes', 'scenario': c.name, 'config': c.conf, 'message_bytes': len(c.msg),
                                             'header_block_bytes': hdr, 'message_head': c.msg[:hdr][:1500].decode('latin-1'),
                                             'intended_settings': [[(k.decode(), '%d bytes: %s' % (len(v), (v[:40] + b'...' + v[-20:] if len(v) > 70 else v).decode('latin-1')))
                                                                    for k, v in st] for st in c.stages],
                                             'exit_status': r['status'], 'stderr': r['stderr'], 'files_afterwards': kinds,
                                             'what': probs[:4] or ['exit status %r of an undisturbed run' % r['status']],
                                             'replay_cmd': 'python3 tools/check.py C08 --replay <this file>'})
            continue
        if r['plan'] is None:
            if r['status'] != 0 or probs:
                rep.violation({'obligation': 'C08 process level: the fault-free run of a rewriting scenario is not as the property says',
                               'scenario': c.name, 'config': c.conf, 'exit_status': r['status'], 'stderr': r['stderr'], 'what': probs}, False)
            continue
        key = 'exit %s: %s' % (r['status'], ','.join(sorted(set(k for _, k, _ in kinds))) or 'no file')
        outcome[key] = outcome.get(key, 0) + 1
        if probs:
            nbad += 1
            if nbad <= 6:
                rep.finding('unlisted', {'stage': 'process', 'scenario': c.name, 'config': c.conf, 'message_bytes': len(c.msg),
                                         'message_head': c.msg[:300].decode('latin-1'), 'fault_plan': r['plan'], 'disturbed': r['call'],
                                         'exit_status': r['status'], 'stderr': r['stderr'], 'files_afterwards': kinds, 'what': probs[:4],
                                         'replay_cmd': 'python3 tools/check.py C08 --replay <this file>'})
    faults = [r for r in recs if r['plan'] is not None]
    return {
        'exact_size_scenarios': sum(1 for c in cs if c.exact),
        'message_content_in_set_header_scenarios': sum(1 for c in cs if c.fieldcheck),
        'message_content_in_set_header_rule': 'existing X-Label / Subject values whose encoded words decode to LF, CRLF, CR, control bytes, leading LF / SP / TAB, a '
                                              'header look-alike, two adjacent words; label (appends to the decoded text), label twice, label + add-header, two '
                                              'X-Label fields, the decoded value captured by (.*) / ([^x]*) (up to the line break) and by a matching list, ([^a-z]*), a literal '
                                              'newline in the pattern (line breaks inside the capture) into add-header / label, configured add-header / label '
                                              'strings that span lines; judged by Spec.rewriteOk '
                                              'for the value a reader sees and by the field names of the rewritten header block',
        'exact_size_rule': 'undisturbed runs in which a value being built, the header block or the whole message ends exactly on, one below and one above a '
                           'capacity of the growable buffer it passes through (sizes read from the buffer_alloc() calls of the source): existing X-Label value + '
                           'new label, label / add-header value from a capture alone and after literal text, label + add-header; whole message and header '
                           'block at 4096 .. 65536 and at 12288 / 24576 (buffer_read_fd), also across devices and in stdin mode; judged like every other run '
                           '(byte for byte original or accepted by Spec.rewriteOk for the intended settings, exit 0 with the complete rewrite in place)',
        'scenarios': len(cs), 'fault_runs': len(faults), 'faults_fired': sum(1 for r in faults if r['fired']),
        'file_size_limit_runs': sum(1 for r in faults if r['plan'].startswith('fsize=')),
        'distinct_files_judged_by_Spec_rewriteOk': nq, 'outcomes': outcome, 'failing_runs': nbad,
        'rule': 'label / relabel / add-header / label + add-header / cross-device move / label + cross-device move / long header block / '
                'stdin delivery with label / across devices, message sizes %s bytes of body, real binary under the shim; one run per (call, '
                'errno or short count) of the fault-free call sequence (quick tier: calls of the rewrite path) and per kernel file size limit '
                '(boundaries of header block, stdio buffer, 64 KiB, original and rewritten size); every message file of the final tree is '
                'compared byte for byte with the original and judged by Spec.rewriteOk (driver S hsetcheck) for the settings of each step; '
                'exit 0 only with the complete rewrite at the destination; message never gone in maildir mode'
                % sorted(set(len(c.msg) - c.msg.index(b'\n\n') - 2 for c in cs)),
        'samples': [dict(r, files=[(rel, n) for rel, h, n in r['files']]) for r in faults[:3]],
    }


def replay(tools, j):
    cs = [c for c in cases('thorough') + exact_cases(tools.sc.src, 'thorough') + lookup_cases('thorough') + hostile_cases('thorough') if c.name == j.get('scenario')]
    if not cs:
        print('unknown scenario', j.get('scenario'))
        return
    c = cs[0]
    scen = c.spec().build(tools)
    plan = j.get('fault_plan') or ''
    fsize = int(plan[6:]) if plan.startswith('fsize=') else None
    r = scen.run(fail=None if fsize is not None else (plan or None), fsize=fsize)
    blobs = {}
    fs = []
    for rel, data in sorted(ws.maildir_files(r.final).items()):
        blobs[sha(data)] = data
        fs.append((rel, sha(data), len(data)))
    rec = {'scenario': c.name, 'plan': plan, 'status': r.status, 'files': fs, 'stderr': r.err[-300:].decode('latin-1'), 'blobs': blobs}
    cls, _ = classify_all([c], [rec], blobs)
    probs, kinds = judge(c, rec, cls)
    print('scenario', c.name, 'plan', plan, 'original %d bytes' % len(c.msg))
    print('exit status', r.status)
    print(r.err.decode('latin-1'))
    for t in r.trace:
        print(t.get('raw', '').replace(scen.root, '@R@'))
    for k in kinds:
        print('file', k)
    for p in probs:
        print('PROBLEM', p)
    scen.cleanup()
