#!/usr/bin/env python3
"""validate.py -- regenerate nothing; validate MANIFEST.json and every evidence/Cxx.json against the schemas in /root/.vp (if present)."""
import glob
import json
import os
import sys

ROOT = os.path.dirname(os.path.dirname(os.path.abspath(__file__)))
try:
    import jsonschema
except ImportError:
    print('jsonschema not importable with this python; try python3-vt'); sys.exit(2)
bad = 0
for name, schema, files in (('MANIFEST', '/root/.vp/MANIFEST.schema.json', [os.path.join(ROOT, 'MANIFEST.json')]),
                            ('EVIDENCE', '/root/.vp/EVIDENCE.schema.json', sorted(glob.glob(os.path.join(ROOT, 'evidence', 'C*.json'))))):
    if not os.path.exists(schema):
        print('no schema', schema); continue
    sch = json.load(open(schema))
    for f in files:
        try:
            jsonschema.validate(json.load(open(f)), sch)
        except Exception as e:   # noqa
            bad += 1
            print('INVALID %s: %s' % (f, str(e).split('\n')[0][:300]))
print('validated; invalid files: %d' % bad)
sys.exit(1 if bad else 0)
