"""C02, thorough tier: a kill before EVERY call of every scenario of every family the world-level checks have.

props/c02.py kills the runs of the shared corpus.  Here, in worker processes (tools/sweeplib.py):

* the corpus with VARIANTS scenarios per kind (other populations, messages of several stdio buffers - the new copy is then partly on
  disk before fflush -, the first generated name taken, sizes of one stdio buffer +-1; stdin deliveries of sizes around the read buffer);
* the scenario families of the other checks: stdin deliveries of every kind and size (tools/c04stdin.py), the rewriting cases with
  messages of 60 bytes .. 300 KiB (tools/rewriteproc.py), sequences of exec / rewriting / moving actions over plain and MIME messages
  (tools/execseq.py), sequences of flag / flags / move / label actions (tools/c09flagseq.py).

For every scenario: the fault-free traced run (its trace replayed under the ordered-metadata / fsync storage model: no original may
be removed before its copy is complete on stable storage), then one run per call index k with SIGKILL before call k.  Judged after
every kill: (maildir mode) of every message that was there before the run a COMPLETE copy exists in some new/ or cur/ - the
original bytes, the bytes the fault-free run ends with, or a stage in between (byte-identical body, every original header line, only
header lines the fault-free run adds, an X-Label value between the original and the final one); the killed run is a prefix of a run
of Model.mainP (driver `M conform`).  A killed delivery (stdin mode) has returned no exit status 0: the MTA still has the message.
"""
import os
import random
import re

import vlib
import proc
import world
import worldscen as ws

VARIANTS = 12
FAMILY_SAMPLE = {'execseq': 260, 'flagseq': 200}      # scenarios drawn (PRNG) from the families that are themselves sampled


def split_msg(data):
    head, sep, body = data.partition(b'\n\n')
    if not sep:
        return data, None
    lines, out = head.split(b'\n'), []
    for l in lines:
        if l[:1] in (b' ', b'\t') and out:
            out[-1] += b'\n' + l
        else:
            out.append(l)
    return out, body


def complete_copy(data, orig, finals):
    """Is `data` a complete version of the message `orig`, given the contents the fault-free run ends with (`finals`)?"""
    if data == orig or data in finals:
        return True
    oh, ob = split_msg(orig)
    dh, db = split_msg(data)
    if ob is None or db is None or db != ob:
        return False
    lab = lambda hs: [h for h in hs if h.lower().startswith(b'x-label:')]
    rest = lambda hs: [h for h in hs if not h.lower().startswith(b'x-label:')]
    for f in finals:
        fh, fb = split_msg(f)
        if fb != ob:
            continue
        if any(h not in rest(dh) for h in rest(oh)):
            continue                              # an original header line is missing
        if any(h not in rest(oh) and h not in rest(fh) for h in rest(dh)):
            continue                              # a header line neither the original nor the final version has
        ol, dl, fl = lab(oh), lab(dh), lab(fh)
        if dl == ol or dl == fl:
            return True
        if len(dl) == 1 and len(fl) == 1 and len(ol) <= 1:
            ov = ol[0].split(b':', 1)[1].strip() if ol else b''
            dv, fv = dl[0].split(b':', 1)[1].strip(), fl[0].split(b':', 1)[1].strip()
            if dv.startswith(ov) and fv.startswith(dv) and (len(fv) == len(dv) or fv[len(dv):len(dv) + 1] == b' '):
                return True
    return False


class KillOracle:
    def __init__(self, initial, clean_final):
        self.orig = [d for rel, d in sorted(ws.maildir_files(initial).items()) if not rel.startswith('tmp/')]
        self.finals = sorted(set(d for rel, d in ws.maildir_files(clean_final).items() if not rel.startswith('tmp/')))
        # a message the fault-free run removes for good (discard) may be gone after a kill as well
        self.discarded = [o for o in self.orig if not any(complete_copy(f, o, self.finals) for f in self.finals)]

    def lost(self, snap):
        files = [d for rel, d in ws.maildir_files(snap).items() if not rel.startswith('tmp/')]
        out = []
        for n, o in enumerate(self.orig):
            if o in self.discarded:
                continue
            if not any(complete_copy(d, o, self.finals) for d in files):
                out.append((n, [len(d) for d in files if split_msg(d)[1] == split_msg(o)[1]]))
        return out


def kill_sweep(tools, W, spec, pats, label):
    """-> summary dict and the records with problems."""
    import props.c02 as c02
    scen = spec.build(tools)
    bad = []
    try:
        clean = scen.run()
        ncalls = len(clean.calls())
        summ = {'family': label, 'scenario': spec.name, 'calls': ncalls, 'kills': 0, 'status': clean.status, 'partial_seen': 0}
        dur = c02.durability_oracle(scen, clean.trace)
        if spec.kind == 'stdin' and not spec.stdin:
            # an EMPTY standard input (a scenario of the stdin-delivery family): "0 bytes written, 0 on stable storage" is complete
            dur = [p for p in dur if 'with 0 bytes written and only 0 on stable storage' not in p]
        if dur:
            bad.append({'family': label, 'scenario': spec.name, 'kill': None, 'problems': dur, 'config': scen.config.replace(scen.root, '@R@')[:600]})
        if clean.status not in (0, 1, 75, 77):
            bad.append({'family': label, 'scenario': spec.name, 'kill': None, 'problems': ['the fault-free run ends with status %r' % (clean.status,)],
                        'config': scen.config.replace(scen.root, '@R@')[:600]})
            return summ, bad
        oracle = KillOracle(scen.initial, clean.final)
        stdin_mode = spec.kind == 'stdin'
        reqs, metas = [], []
        for k in range(ncalls):
            scen.reset()
            r = scen.run(kill=k)
            summ['kills'] += 1
            probs = []
            if r.status != -9:
                probs.append('kill before call %d did not kill (status %r)' % (k, r.status))
            if not stdin_mode:
                for n, sizes in oracle.lost(r.final):
                    probs.append('killed before call %d (%s): message %d of the maildir has no complete copy (files with its body: %s bytes)' % (
                        k, clean.calls()[k]['name'], n, sizes))
            rq, _, nts = W.request(scen, pats, r, stdin=stdin_mode)
            reqs.append(rq)
            metas.append((k, probs))
        answers = W.verdict(reqs) if reqs else []
        for (k, probs), ans in zip(metas, answers):
            conform = 'ok'
            if not (ans.startswith('OK') or (ans.startswith('DIVERGE') and 'got=[end-of-trace]' in ans)):
                conform = ans[:300]
            if probs or conform != 'ok':
                bad.append({'family': label, 'scenario': spec.name, 'kill': k, 'call': clean.calls()[k]['raw'].replace(scen.root, '@R@')[:160],
                            'problems': probs, 'conform': conform, 'config': scen.config.replace(scen.root, '@R@')[:600]})
        return summ, bad
    finally:
        scen.cleanup()


def job(j):
    import sweeplib
    spec, pats, label = j
    return kill_sweep(sweeplib.worker_tools(), sweeplib.worker_world(), spec, pats, label)


def families(tools, seed):
    """[(spec, pats, family label)] of every family."""
    import sweeplib
    rng = random.Random(seed * 104729 + 5)
    out = []
    for s in ws.corpus(big=True):
        for v in sweeplib.variants(s, VARIANTS, seed):
            out.append((v, v.pats, 'corpus'))
    import c04stdin
    B = c04stdin.buffer_size(tools)
    for sp in c04stdin.scenarios(B, 'thorough'):
        out.append((sp, sp.pats, 'stdin-delivery'))
    import rewriteproc
    for c in rewriteproc.cases('thorough'):
        sp = c.spec()
        sp.name = 'rewrite/' + c.name
        out.append((sp, [], 'rewriting'))
    import execseq
    js = execseq.jobs('quick', random.Random(seed), 'all')
    for n, jb in enumerate(rng.sample(js, min(FAMILY_SAMPLE['execseq'], len(js)))):
        sp = jb.spec()
        sp.name = 'execseq/%s%s/%s/%s' % ('-'.join(jb.seq), '' if jb.split is None else '@%d' % jb.split, jb.sub, jb.msg.name)
        out.append((sp, jb.pats(), 'exec-sequences'))
    import c09flagseq as fs
    seqs = fs.sequences('quick', random.Random(seed))
    for seq in rng.sample(seqs, min(FAMILY_SAMPLE['flagseq'], len(seqs))):
        sub = rng.choice(['new', 'cur'])
        tree = {}
        for d in ('src', 'dstA', 'dstB'):
            tree.update(proc.maildir_tree(d, {}))
        for name, i in fs.MSGS[sub]:
            tree['src/%s/%s' % (sub, name)] = ws.msg(i)
        tree['src/%s/%s' % fs.BYSTANDER[sub]] = ws.msg(9)
        out.append((ws.Spec('flagseq/%s/%s' % (sub, '-'.join(seq)), fs.config(sub, seq), [], tree=tree, devmap=('%s/dstB' % fs.R,)), [], 'flag-sequences'))
    return out


def stage(rep, tools, sc):
    import sweeplib
    fam_jobs = families(tools, rep.seed)
    pool = sweeplib.Pool(tools, sc, 'c02')
    try:
        outs = pool.map(job, fam_jobs, 'C02 kill sweeps', weight=lambda j: sum(len(d) for d in j[0].tree.values() if isinstance(d, bytes)) + len(j[0].stdin or b''))
    finally:
        pool.close()
    fam, bad = {}, []
    for summ, b in outs:
        f = fam.setdefault(summ['family'], {'scenarios': 0, 'kills': 0, 'calls_max': 0})
        f['scenarios'] += 1
        f['kills'] += summ['kills']
        f['calls_max'] = max(f['calls_max'], summ['calls'])
        bad.extend(b)
    corr = []
    nprob = 0
    for b in bad:
        if b['problems']:
            nprob += 1
            if nprob <= 8:
                rep.finding('unlisted', {'stage': 'kill-families', 'family': b['family'], 'scenario': b['scenario'], 'kill_before_call': b['kill'],
                                         'call': b.get('call', ''), 'what': b['problems'][:5], 'config': b.get('config', ''),
                                         'replay_cmd': 'python3 tools/check.py C02 --replay <this file>'})
        elif b.get('conform', 'ok') != 'ok':
            corr.append(b)
    if corr and not rep.violations:
        rep.violation({'obligation': 'correspondence: a killed run is not a prefix of a run of Model.mainP', 'stage': 'kill-families',
                       'disagreements': len(corr), 'examples': corr[:8]}, False)
    return {'scenarios': len(fam_jobs), 'kills': sum(f['kills'] for f in fam.values()), 'exhaustive': True, 'processes': pool.nproc, 'families': fam,
            'with_problems': nprob, 'correspondence_mismatches': len(corr),
            'rule': 'a SIGKILL before EVERY call of every scenario: the shared corpus with %d scenarios per kind (populations, messages of several '
                    'stdio buffers, first generated name taken, messages of one stdio buffer +-1, stdin sizes around the read buffer), every stdin delivery kind x size, the '
                    'rewriting cases up to 300 KiB, %d sampled exec / rewrite / move sequences, %d sampled flag / flags / move / label sequences; '
                    'after every kill a complete copy of every message of the maildirs exists (original bytes, final bytes or a stage in between) '
                    'and the killed run is a prefix of a run of Model.mainP; every fault-free trace obeys fsync-before-unlink' % (
                        VARIANTS, FAMILY_SAMPLE['execseq'], FAMILY_SAMPLE['flagseq'])}


def replay(tools, sc, j):
    import sweeplib
    sweeplib._init(tools, sc, 'c02-replay')
    for spec, pats, label in families(tools, j.get('seed', 1)):
        if spec.name == j.get('scenario') and label == j.get('family'):
            scen = spec.build(sweeplib.worker_tools())
            try:
                r = scen.run(kill=j.get('kill_before_call'))
                print('exit status', r.status)
                for t in r.trace:
                    print(t['raw'].replace(scen.root, '@R@')[:200])
                for rel, d in sorted(ws.maildir_files(r.final).items()):
                    print('file', rel, len(d), 'bytes')
            finally:
                scen.cleanup()
            return
    print('scenario not found', j.get('family'), j.get('scenario'))
