"""Structured generators for mail messages: header blocks, MIME trees, malformed stream.

All randomness comes from the `random.Random` passed in (seeded by VERIF_SEED).
Generated messages never contain NUL unless `allow_nul`.
"""
import base64
import quopri

NAMES = [b'To', b'to', b'TO', b'Subject', b'subject', b'X-Label', b'x-label', b'X-LABEL', b'Cc', b'From', b'Date',
         b'Content-Type', b'content-type', b'Content-Transfer-Encoding', b'A', b'b', b'Z', b'B-c', b'X-1', b'Received',
         b'\xe9t\xe9', b'a_b', b'Reply-To']
WORDS = [b'a', b'ab', b'user@example.com', b'admin', b'hello world', b'x y  z', b'\xc3\xa5\xc3\xa4', b'\xe9', b'=?', b'?=', b'\\1',
         b'${path}', b'\\0.1', b'"q"', b';', b':', b'--b', b'  ', b'\t', b'.', b'', b'1', b'x' * 70]


def encoded_word(rng):
    raw = rng.choice(WORDS) + rng.choice([b'', b' ', b'_', b'?', b'='])
    cs = rng.choice([b'utf-8', b'UTF-8', b'iso-8859-1', b'', b'x'])
    k = rng.randrange(10)
    if k < 4:
        e = rng.choice([b'B', b'b'])
        t = base64.b64encode(raw)
        if rng.random() < 0.1:
            t = t[:-1] if t else b'*'
    elif k < 8:
        e = rng.choice([b'Q', b'q'])
        t = b''.join((b'=%02X' % c) if (c in b'=?_ \t' or c > 126 or rng.random() < 0.2) else bytes([c]) for c in raw)
        if rng.random() < 0.3:
            t = t.replace(b'=20', b'_')
    else:
        e = rng.choice([b'X', b'', b'BB'])
        t = raw.replace(b'?', b'')
    w = b'=?' + cs + b'?' + e + b'?' + t + b'?='
    if rng.random() < 0.08:
        w = w[:rng.randrange(1, len(w))]
    return w


def value(rng, folded=True, encoded=True):
    parts = []
    for i in range(rng.choice([1, 1, 1, 2, 2, 3, 4])):
        if encoded and rng.random() < 0.3:
            w = encoded_word(rng)
        else:
            w = rng.choice(WORDS)
        if i > 0:
            if folded and rng.random() < 0.5:
                w = b'\n' + rng.choice([b' ', b'\t', b'\t ', b'  ', b' \t', b'\t\t']) + w
            else:
                w = rng.choice([b' ', b'  ', b'\t', b'']) + w
        parts.append(w)
    v = b''.join(parts)
    return v


def header_block(rng, nmax=12, names=NAMES, folded=True, encoded=True, wellformed=True):
    """Returns (list of (name, sep, rawvalue) , bytes)."""
    fields = []
    n = rng.choice([0, 1, 2, 3, 4, 5, 6, 8, nmax, rng.randrange(nmax + 1)])
    pool = rng.sample(names, min(len(names), rng.randrange(1, 7)))
    for _ in range(n):
        nm = rng.choice(pool)
        sep = rng.choice([b': ', b': ', b':', b':  ', b':\t', b': \t'])
        v = value(rng, folded, encoded).lstrip(b' \t')
        if wellformed:
            # a raw value never ends in white space only continuation that would be empty: keep as is
            v = v.replace(b'\n\n', b'\n ')
        fields.append((nm, sep, v))
    raw = b''.join(nm + sep + v + b'\n' for nm, sep, v in fields)
    return fields, raw


BODIES = [b'', b'b\n', b'line1\n\nline3\n', b'no newline at end', b' leading space\n', b'--x\n', b'To: notaheader\n',
          b'hello\nworld\n', b'\xff\xfe\n', b'a' * 200 + b'\n']


def simple_message(rng, wellformed=True, **kw):
    """A message with header block, separator and body.  wellformed => satisfies C08's WF."""
    fields, hb = header_block(rng, wellformed=wellformed, **kw)
    body = rng.choice(BODIES)
    frm = rng.choice([b'', b'', b'', b'From a@b Mon Sep 29\n'])
    if wellformed:
        return frm + hb + b'\n' + body
    k = rng.randrange(8)
    if k == 0:
        return frm + hb + body                      # no empty line
    if k == 1:
        return frm + hb + b'\n\n' + body            # body starts with empty line
    if k == 2:
        return (frm + hb + b'\n' + body).replace(b'\n', b'\r\n')   # CRLF
    if k == 3:
        m = frm + hb + b'\n' + body
        return m[:rng.randrange(len(m) + 1)]        # truncated
    if k == 4:
        return frm + hb + b'garbage line\n' + hb + b'\n' + body
    if k == 5:
        return frm + hb[:-1] if hb else b''         # last header without newline
    if k == 6:
        return frm + b' leading continuation\n' + hb + b'\n' + body
    return frm + hb + b'\n' + body


def enc_body(rng, text, enc):
    if enc == b'base64':
        e = base64.encodebytes(text)
        if rng.random() < 0.1:
            e = e.replace(b'\n', b'', 1)
        if rng.random() < 0.06:
            e = b'*' + e
        return e
    if enc == b'quoted-printable':
        return quopri.encodestring(text)
    return text


def mime_part(rng, depth, maxdepth, parts_max, kind=None):
    """Returns bytes of one entity (headers + blank + body)."""
    if kind is None:
        kind = rng.choice(['leaf'] * 3 + ['multi'] if depth < maxdepth else ['leaf'])
    hdrs = []
    if kind == 'leaf':
        ct = rng.choice([b'text/plain', b'text/html', b'text/plain; charset=utf-8', b'application/octet-stream', None, b'TEXT/PLAIN'])
        enc = rng.choice([None, b'base64', b'quoted-printable', b'7bit', b'BASE64', b'8bit'])
        text = rng.choice([b'hello\n', b'p%d body\n' % rng.randrange(100), b'', b'<b>html</b>\n', b'caf\xc3\xa9 =3D\n', b'line\n--b\nmore\n',
                           b'x' * rng.randrange(1, 120) + b'\n', b'--inner\n'])
        if ct:
            hdrs.append(b'Content-Type: ' + ct)
        if enc:
            hdrs.append(b'Content-Transfer-Encoding: ' + enc)
        if rng.random() < 0.3:
            hdrs.append(b'Content-Disposition: attachment; filename="f%d"' % rng.randrange(9))
        rng.shuffle(hdrs)
        body = enc_body(rng, text, enc)
        return b''.join(h + b'\n' for h in hdrs) + b'\n' + body
    # multipart
    bnd = rng.choice([b'b', b'inner', b'b%d' % depth, b'--x', b'a b', b'=_x', b'b'])
    sub = rng.choice([b'mixed', b'alternative', b'alternative', b'related'])
    ctl = b'Content-Type: multipart/' + sub + rng.choice([b'; ', b';', b';  ', b';\n\t']) + b'boundary="' + bnd + b'"'
    k = rng.random()
    if k < 0.04:
        ctl = b'Content-Type: multipart/' + sub + b'; boundary="' + bnd          # unterminated quote
    elif k < 0.08:
        ctl = b'Content-Type: multipart/' + sub + b'; boundary=""'
    elif k < 0.12:
        ctl = b'Content-Type: multipart/' + sub + b'; boundary=' + bnd           # unquoted
    elif k < 0.15:
        ctl = b'Content-Type: multipart/' + sub
    hdrs.append(ctl)
    if rng.random() < 0.2:
        hdrs.append(b'Content-Transfer-Encoding: ' + rng.choice([b'base64', b'quoted-printable']))
    n = rng.choice([0, 1, 2, 2, 3, 4, parts_max, rng.randrange(parts_max + 1)])
    out = rng.choice([b'', b'preamble\n', b'This is a multi-part message.\n\n'])
    for i in range(n):
        out += b'--' + bnd + b'\n'
        p = mime_part(rng, depth + 1, maxdepth, max(1, parts_max // 3))
        if not p.endswith(b'\n'):
            p += b'\n'
        out += p
        if rng.random() < 0.1:   # boundary look-alikes inside
            out += rng.choice([b'--' + bnd + b'x\n', b'--' + bnd + b' \n', b' --' + bnd + b'\n', b'--' + bnd[:-1] + b'\n', b'--' + bnd + b'-\n'])
    t = rng.random()
    if t < 0.8:
        out += b'--' + bnd + b'--\n'
    elif t < 0.87:
        out += b'--' + bnd + b'--'          # terminator without newline
    elif t < 0.93:
        pass                                 # missing terminator
    else:
        out += b'--' + bnd + b'--\n' + b'epilogue\n'
    if t < 0.8 and rng.random() < 0.2:
        out += b'epilogue\n--' + bnd + b'\n'
    return b''.join(h + b'\n' for h in hdrs) + b'\n' + out


# ---- boundaries only an RFC 2047 encoded word in the Content-Type value can produce --------------------------------------------
# decodeheader() RFC 2047-decodes the whole Content-Type value before parseboundary() sees it, so boundary="=?UTF-8?Q?a=0A?=" is the
# boundary "a\n".  findboundary() compares bytes (not lines) and, after a failed comparison, resumes with skipline() from the byte AFTER
# the text it compared: a line that begins inside the compared text is never examined.  These generators aim at that: boundaries with
# newline, CR, other control bytes (never NUL: it would end the C string) and "--", and bodies made of delimiter look-alikes.
ENC_BOUNDARIES = [b'a\n', b'a\n', b'a\nb', b'\na', b'\n', b'a\n\n', b'a\n--', b'a\n--a', b'a\n--a\n', b'x\n--x', b'b\nb', b'-\n-', b'--', b'a--', b'--a',
                  b'a--\n', b'--\n--', b'\n--', b'a\r', b'a\r\n', b'\ra', b'\r', b'\x01', b'a\x01b', b'a\tb', b'\x7f', b'\x0b\x0c', b' a', b'a ', b'a\n ',
                  b'\n\n', b'ab\nab', b'a\nb\nc']

# the witness found by package PG2 (the list model examined the line at offset 4 of the body, message.c does not): no part, no error
PG2_WITNESS = b'Content-Type: multipart/mixed; boundary="=?UTF-8?Q?a=0A?="\n\n--a\n--a\n\nX: y\n\nfound\n--a\n--\n'
# relatives: the skipped line is a terminator / the resumption point is inside a later delimiter line / alternative
PG2_RELATIVES = [
    b'Content-Type: multipart/mixed; boundary="=?UTF-8?Q?a=0A?="\n\n--a\n--a\n--\nrest\n',
    b'Content-Type: multipart/alternative; boundary="=?UTF-8?Q?a=0A?="\n\n--a\n--a\n\nContent-Type: text/plain\n\nfound\n--a\n--\n',
    b'Content-Type: multipart/mixed; boundary="=?UTF-8?B?YQo=?="\n\n--a\n\nX: y\n\none\n--a\n--a\n\ntwo\n--a\n--\n',
    b'Content-Type: multipart/mixed; boundary="=?x?q?a=0A--a?="\n\n--a\n--a\n--a\n--a\n\nX: y\n\nfound\n--a\n--a--\n',
    b'Content-Type: multipart/mixed; boundary="=?x?Q?=0A?="\n\n--\n--\n\n\nfound\n--\n--\n',
    b'Content-Type: multipart/mixed; boundary="=?x?Q?a=0Ab?="\n\n--a\n--a\nb\nX: y\n\nfound\n--a\nb--\n',
    b'Content-Type: multipart/mixed; boundary="=?x?Q?--?="\n\n------\n\nfound\n------\n----\n--\n',
    b'Content-Type: multipart/mixed; boundary="=?x?Q?a=0D?="\n\n--a\r\nX: y\n\nfound\n--a\r--\n',
]


def encode_boundary(rng, bnd):
    """One RFC 2047 encoded word (Q or B) that decodes to `bnd`."""
    if rng.random() < 0.7:
        t = b''.join(bytes([c]) if (chr(c).isalnum() and c < 128 and rng.random() < 0.8) else b'=%02X' % c for c in bnd)
        return b'=?' + rng.choice([b'UTF-8', b'utf-8', b'x', b'']) + b'?' + rng.choice([b'Q', b'q']) + b'?' + t + b'?='
    return b'=?UTF-8?' + rng.choice([b'B', b'b']) + b'?' + base64.b64encode(bnd) + b'?='


def lookalike_body(rng, bnd):
    """A body over delimiter look-alikes of `bnd`: whole delimiters, their pieces, the lines of the boundary, ordinary part text."""
    lines = bnd.split(b'\n')
    toks = [b'--' + bnd + b'\n', b'--' + bnd + b'\n', b'--' + bnd + b'--\n', b'--' + bnd + b'--\n', b'--' + bnd, b'--' + bnd + b'--', b'--', b'--', bnd, b'\n', b'\n',
            b'--\n', b'--' + lines[0] + b'\n', lines[-1] + b'\n', b'--' + lines[-1] + b'\n', b'--' + lines[-1] + b'--\n', b'--' + bnd + b'-', b'--' + bnd + b' \n',
            b'-', bnd[1:], bnd[:-1], b'X: y\n', b'\nfound\n', b'text\n', b'Content-Type: text/plain\n\n', b'Content-Type: text/html\n\n<b>h</b>\n',
            b'Content-Transfer-Encoding: base64\n\naGVsbG8K\n']
    return b''.join(rng.choice(toks) for _ in range(rng.choice([1, 2, 3, 4, 5, 6, 8, 10, 14, 20])))


def encoded_boundary_entity(rng, depth=0):
    """Headers + blank line + body of a multipart entity whose boundary comes out of an encoded word (or holds a raw CR/control byte)."""
    bnd = rng.choice(ENC_BOUNDARIES)
    sub = rng.choice([b'mixed', b'mixed', b'alternative', b'related'])
    if b'\n' not in bnd and b'"' not in bnd and rng.random() < 0.25:
        par = bnd                                            # CR, control bytes, "--": also possible without an encoded word
    else:
        par = encode_boundary(rng, bnd)
    ctl = b'Content-Type: multipart/' + sub + rng.choice([b'; ', b';', b';\n\t']) + b'boundary="' + par + b'"'
    hdrs = [ctl]
    if rng.random() < 0.3:
        hdrs.append(b'X-Label: ' + rng.choice(WORDS[:8]))
    rng.shuffle(hdrs)
    k = rng.random()
    if k < 0.45:
        body = lookalike_body(rng, bnd)
    else:
        # a regular tree cut with this boundary (a part's text starts after the FIRST newline of the delimiter line), look-alikes between
        body = rng.choice([b'', b'preamble\n', b'--' + bnd])
        for i in range(rng.choice([0, 1, 1, 2, 3, 5])):
            body += b'--' + bnd + b'\n'
            if depth < 2 and rng.random() < 0.2:
                p = encoded_boundary_entity(rng, depth + 1)
            else:
                p = mime_part(rng, depth + 1, 2, 2)
            body += p if p.endswith(b'\n') else p + b'\n'
            if rng.random() < 0.5:
                body += lookalike_body(rng, bnd)
        t = rng.random()
        if t < 0.75:
            body += b'--' + bnd + b'--\n'
        elif t < 0.85:
            body += b'--' + bnd + b'--'
        if rng.random() < 0.2:
            body += lookalike_body(rng, bnd)
    return b''.join(h + b'\n' for h in hdrs) + b'\n' + body


def encoded_boundary_message(rng):
    top = [b'To: user@example.com', b'Subject: ' + rng.choice(WORDS[:8])]
    rng.shuffle(top)
    k = rng.random()
    if k < 0.04:
        return rng.choice([PG2_WITNESS] + PG2_RELATIVES)
    return b''.join(h + b'\n' for h in top[:rng.randrange(3)]) + encoded_boundary_entity(rng)


def mime_message(rng, maxdepth=3, parts_max=6):
    if rng.random() < 0.12:
        return encoded_boundary_message(rng)
    top = [b'To: user@example.com', b'Subject: ' + rng.choice(WORDS[:8])]
    rng.shuffle(top)
    ent = mime_part(rng, 0, maxdepth, parts_max, kind=rng.choice(['multi', 'multi', 'multi', 'leaf']))
    return b''.join(h + b'\n' for h in top) + ent


def mutate(rng, m):
    if not m:
        return m
    m = bytearray(m)
    for _ in range(rng.randrange(1, 4)):
        k = rng.randrange(6)
        i = rng.randrange(len(m)) if m else 0
        if k == 0 and m:
            del m[i:i + rng.randrange(1, 8)]
        elif k == 1:
            m[i:i] = rng.choice([b'\n', b'\r', b'-', b'--', b'=', b'?', b':', b' ', b'\t', b'"', b';', b'\xff'])
        elif k == 2 and m:
            m[i] = rng.choice(b'\n\r-=?: \t";\x01\x7f\x80')
        elif k == 3 and m:
            j = rng.randrange(len(m))
            a, b = min(i, j), max(i, j)
            m[a:a] = m[a:b][:40]
        elif k == 4 and m:
            m = m[:i]
        else:
            m[i:i] = rng.choice([b'\n\n', b'\n \n', b'--b\n', b'--b--\n', b'Content-Type: multipart/mixed; boundary="b"\n'])
    return bytes(x if x else 1 for x in m)


# ---- 8-bit bytes inside transfer-encoded content -------------------------------------------------------------------------------
# Mail that passed an 8-bit unclean hop, a mailing list that appends a Latin-1 / UTF-8 footer after the encoded block, a flipped top
# bit: bytes 0x80-0xff where the transfer encoding allows 7-bit characters only.  RFC 2045 6.8: they are not in the base64
# alphabet (the body is undecodable); in quoted-printable and the identity encodings every byte that is no `=XY` / `=\n` is data.
# A decoder that classifies bytes by table lookup, <ctype.h> or after masking / sign extension sees them as something else: hence
# every value, at every place of the encoding a decoder treats differently (first / inner / last character of the data, the
# padding, a line of its own before or after the block, behind `=` in quoted-printable).
B64_ALPHABET = b'ABCDEFGHIJKLMNOPQRSTUVWXYZabcdefghijklmnopqrstuvwxyz0123456789+/'
EIGHTBIT = list(range(0x80, 0x100))


def eightbit_class(b):
    """What is left of the byte when its top bit is dropped: 'alphabet' (a base64 character), 'pad' (=), 'space' (isspace in the C
    locale), 'nul', 'other'."""
    c = b & 0x7f
    if c in B64_ALPHABET:
        return 'alphabet'
    if c == 0x3d:
        return 'pad'
    if c in b' \t\n\r\x0b\x0c':
        return 'space'
    if c == 0:
        return 'nul'
    return 'other'


def b64_with_8bit(text, b, width=76):
    """The base64 encoding of `text` (lines of `width` characters) with the byte `b` put where no 8-bit byte may be:
    -> [(label, body bytes)].  In the `replace-*` / `quantum` variants the byte REPLACES characters, so the number of characters is
    still a multiple of four; every variant is undecodable base64."""
    e = base64.b64encode(text)
    n = len(e.rstrip(b'='))             # data characters
    c = bytes([b])

    def lines(s):
        return b''.join(s[i:i + width] + b'\n' for i in range(0, len(s), width)) or b'\n'

    def put(i, k=1):
        return lines(e[:i] + c * k + e[i + k:])

    out = [('replace-first', put(0)), ('replace-middle', put(n // 2)), ('replace-last', put(n - 1))]
    if n >= 12:
        q = (n // 8) * 4
        out.append(('quantum', put(q, 4)))                                   # a whole group of four
    if n > width:
        out.append(('replace-line-start', put(width)))                       # first character of the second line
        out.append(('replace-line-end', put(width - 1)))
    out.append(('insert-middle', lines(e[:n // 2] + c + e[n // 2:])))         # one character too many
    npad = len(e) - n
    if npad >= 1:
        out.append(('pad-first', lines(e[:n] + c + e[n + 1:])))               # instead of the (first) =
        out.append(('pad-after', lines(e + c)))
        out.append(('pad-before', lines(e[:n] + c + e[n:])))
    if npad == 2:
        out.append(('pad-second', lines(e[:n + 1] + c)))
        out.append(('pad-between', lines(e[:n + 1] + c + e[n + 1:])))
    good = lines(e)
    out.append(('trailer-4', good + c * 4 + b'\n'))                           # a line of its own after a valid block
    out.append(('trailer-1', good + c + b'\n'))
    out.append(('trailer-text', good + b'Gr' + c + b'\xdfe aus K' + c + b'ln\n'))
    out.append(('trailer-no-newline', good + c * 4))
    out.append(('leader-4', c * 4 + b'\n' + good))
    return out


def qp_with_8bit(text, b):
    """Quoted-printable encoding of `text` with the literal byte `b` in it: -> [(label, body bytes)].  Nothing here is an error: the
    byte is data; behind `=` it spoils the escape, which then is data as well."""
    e = quopri.encodestring(text)
    c = bytes([b])
    m = len(e) // 2
    while 0 < m < len(e) and (e[m - 1:m] == b'=' or e[m - 2:m - 1] == b'='):   # not inside an escape
        m += 1
    out = [('literal-first', c + e), ('literal-middle', e[:m] + c + e[m:]), ('literal-last', e + c), ('literal-line', e + c * 3 + b'\n'),
           ('escape-first-digit', e + b'=' + c + b'1\n'), ('escape-second-digit', e + b'=4' + c + b'\n'), ('escape-both', e + b'=' + c + c + b'\n'),
           ('before-soft-break', e + c + b'=\nrest\n'), ('after-soft-break', e + b'a=\n' + c + b'\n'), ('equals-at-end', e + c + b'=')]
    return out


def entity(ctype, cte, body, extra=()):
    """Headers + empty line + body of one MIME entity."""
    h = []
    if ctype:
        h.append(b'Content-Type: ' + ctype)
    if cte:
        h.append(b'Content-Transfer-Encoding: ' + cte)
    h += list(extra)
    return b''.join(x + b'\n' for x in h) + b'\n' + body


def multipart(subtype, bnd, parts, headers=(), preamble=b'', epilogue=b''):
    """A multipart entity over the given parts (each: bytes of an entity); a part that does not end in a newline gets one."""
    out = b''.join(x + b'\n' for x in headers) + b'Content-Type: multipart/' + subtype + b'; boundary="' + bnd + b'"\n\n' + preamble
    for p in parts:
        out += b'--' + bnd + b'\n' + (p if p.endswith(b'\n') else p + b'\n')
    return out + b'--' + bnd + b'--\n' + epilogue
