"""Shared machinery of the mdsort verification checks.

Everything a check needs besides its own generators and oracles: scratch build of
/repo's working tree (unit harnesses under ASan+UBSan, plain binary for the
process harness), the Lean side (table translator, lake build, sorry/axiom
audit), batch execution of the line protocol with crash bisection, known-findings
handling, replay and evidence files.
"""
import atexit
import concurrent.futures as cf
import fcntl
import glob
import json
import os
import random
import re
import shutil
import subprocess
import sys
import time

ROOT = os.path.dirname(os.path.dirname(os.path.abspath(__file__)))
REPO = os.environ.get('VERIF_REPO', '/repo')
LEAN = os.path.join(ROOT, 'lean')
HARNESS = os.path.join(ROOT, 'harness')
EVID = os.environ.get('VERIF_EVID') or os.path.join(ROOT, 'evidence')   # VERIF_EVID: only for tools/matrix.py (mutant runs)
REPLAY = os.path.join(EVID, 'replay')
NCPU = os.cpu_count() or 4
GUARD = 'MDSORT_VERIF'
COV_OUT = os.environ.get('VERIF_COV_OUT')     # measurement mode of tools/cov.py: build everything with --coverage
if COV_OUT:
    os.environ['VSHIM_OFF_AT_EXIT'] = '1'     # the coverage runtime's exit-time file traffic is not part of any trace

ALLOWED_AXIOMS = {'propext', 'Classical.choice', 'Quot.sound'}
FORBIDDEN = re.compile(r'\b(sorry|admit|native_decide|bv_decide|implemented_by|unsafe)\b|^\s*axiom\s|maxHeartbeats\s+0')

SRCS = ['libks/buffer.c', 'compat-arc4random.c', 'compat-errc.c', 'compat-pledge.c',
        'compat-reallocarray.c', 'compat-strlcpy.c', 'compat-utimensat.c', 'compat-warnc.c',
        'conf.c', 'decode.c', 'expr.c', 'fault.c', 'macro.c', 'maildir.c', 'match.c',
        'message.c', 'parse.c', 'time.c', 'util.c', 'libks/vector.c']


DEGRADED = []      # ties between model and code that could not be established on this run (see Scratch.unit_harness)


class CheckError(Exception):
    """Infrastructure failure inside a check (reported as a broken obligation)."""


def log(msg):
    sys.stderr.write('[verif] %s\n' % msg)
    sys.stderr.flush()


# --------------------------------------------------------------------------
# scratch build of the repository
# --------------------------------------------------------------------------

class Scratch:
    def __init__(self):
        base = os.environ.get('VERIF_SCRATCH_BASE', '/var/tmp')
        self.dir = os.path.join(base, 'mdsort-verif.%d' % os.getpid())
        if os.path.exists(self.dir):
            shutil.rmtree(self.dir)
        os.makedirs(self.dir)
        atexit.register(self.cleanup)
        self.src = os.path.join(self.dir, 'src')
        self._objs = {}
        self._copy()

    def cleanup(self):
        if COV_OUT:
            try:
                self._gcov_report()
            except Exception as e:       # a measurement aid: never turns a check red
                log('coverage report failed: %r' % (e,))
        shutil.rmtree(self.dir, ignore_errors=True)

    def _gcov_report(self):
        """VERIF_COV_OUT=<dir>: every harness and the binary were built with --coverage; collect what the
        run executed, per function of the repository sources (lines, branches, unexecuted lines)."""
        import gzip
        funcs = {}
        odirs = [self.dir, os.path.join(self.dir, 'obj-cov')]
        gcdas = [g for d in odirs for g in glob.glob(os.path.join(d, '*.gcda'))]
        wd = os.path.join(self.dir, 'gcov-out')
        os.makedirs(wd, exist_ok=True)
        for g in gcdas:
            r = subprocess.run(['gcov', '-b', '-c', '--json-format', '--stdout', g], cwd=wd, capture_output=True)
            if r.returncode != 0:
                continue
            for doc in r.stdout.decode('latin-1').split('\n'):
                doc = doc.strip()
                if not doc.startswith('{'):
                    continue
                try:
                    j = json.loads(doc)
                except ValueError:
                    continue
                for f in j.get('files', []):
                    fn = os.path.relpath(os.path.normpath(os.path.join(self.src, f['file'])), self.src) if not os.path.isabs(f['file']) else os.path.relpath(f['file'], self.src)
                    if fn.startswith('..') or not (fn.endswith('.c') or fn.endswith('.y')):
                        continue
                    for ln in f.get('lines', []):
                        key = (fn, ln.get('function_name') or '?')
                        d = funcs.setdefault(key, {})
                        e = d.setdefault(ln['line_number'], [0, {}])
                        e[0] += ln.get('count', 0)
                        for bi, b in enumerate(ln.get('branches', [])):
                            e[1][bi] = e[1].get(bi, 0) + b.get('count', 0)
        out = {}
        for (fn, fu), lines in sorted(funcs.items()):
            nb = sum(len(e[1]) for e in lines.values())
            out['%s:%s' % (fn, fu)] = {
                'lines': len(lines), 'lines_hit': sum(1 for e in lines.values() if e[0] > 0),
                'branches': nb, 'branches_hit': sum(1 for e in lines.values() for c in e[1].values() if c > 0),
                'unexecuted_lines': sorted(l for l, e in lines.items() if e[0] == 0),
                'untaken_branches': sorted('%d#%d' % (l, bi) for l, e in lines.items() for bi, c in e[1].items() if c == 0 and e[0] > 0),
            }
        os.makedirs(COV_OUT, exist_ok=True)
        with open(os.path.join(COV_OUT, 'cov-%d.json' % os.getpid()), 'w') as fh:
            json.dump(out, fh)

    def _copy(self):
        os.makedirs(self.src)
        os.makedirs(os.path.join(self.src, 'libks'))
        for pat in ('*.c', '*.h', '*.y', 'libks/*.c', 'libks/*.h', 'config.mk', 'configure', 'Makefile', 'GNUmakefile'):
            for f in glob.glob(os.path.join(REPO, pat)):
                rel = os.path.relpath(f, REPO)
                if rel in ('parse.c',):
                    continue
                shutil.copy2(f, os.path.join(self.src, rel))
        # the harnesses include several modules in one translation unit: make the headers idempotent
        for h in glob.glob(os.path.join(self.src, '*.h')) + glob.glob(os.path.join(self.src, 'libks', '*.h')):
            body = open(h, 'rb').read()
            if not body.startswith(b'#pragma once'):
                open(h, 'wb').write(b'#pragma once\n' + body)
        if not os.path.exists(os.path.join(self.src, 'config.h')):
            r = subprocess.run(['sh', './configure'], cwd=self.src, capture_output=True, text=True)
            if r.returncode != 0 or not os.path.exists(os.path.join(self.src, 'config.h')):
                raise CheckError('configure failed: ' + r.stderr[-2000:])
        r = subprocess.run(['yacc', '-o', 'parse.c', 'parse.y'], cwd=self.src, capture_output=True, text=True)
        if r.returncode != 0:
            raise CheckError('yacc failed: ' + r.stderr[-2000:])
        # copy of the generated parser whose driver calls a tracing wrapper around yylex (harness/unit/h_parse.c)
        pc = open(os.path.join(self.src, 'parse.c'), encoding='latin-1').read()
        traced, nsub = re.subn(r'=\s*yylex\s*\(\)', '= traced_yylex ()', pc)
        if nsub < 1:
            raise CheckError('cannot find the yylex() call of the generated parser')
        with open(os.path.join(self.src, 'parse_traced.c'), 'w', encoding='latin-1') as fh:
            fh.write(traced)

    FLAVOURS = {
        'asan': ['-O1', '-g', '-fsanitize=address,undefined', '-fno-sanitize-recover=all', '-fno-omit-frame-pointer'],
        'plain': ['-O1', '-g'],
        'cov': ['-O0', '-g', '--coverage', '-DVERIF_GCOV'],
        'fuzz': ['-O1', '-g', '-fsanitize=fuzzer-no-link,address,undefined', '-fno-sanitize-recover=all', '-fno-omit-frame-pointer'],
    }
    CC = {'fuzz': 'clang'}

    def cflags(self, flavour):
        return self.FLAVOURS[flavour] + ['-D' + GUARD, '-w', '-I' + self.src, '-I' + os.path.join(self.src, 'libks'),
                                          '-I' + os.path.join(HARNESS, 'unit'), '-I' + HARNESS]

    def objs(self, flavour):
        """Compile every repo source (except mdsort.c) once per flavour; returns {src: obj}."""
        if flavour in self._objs:
            return self._objs[flavour]
        odir = os.path.join(self.dir, 'obj-' + flavour)
        os.makedirs(odir, exist_ok=True)
        jobs = {}
        for s in SRCS + ['mdsort.c']:
            o = os.path.join(odir, s.replace('/', '_')[:-2] + '.o')
            jobs[s] = (o, [self.CC.get(flavour, 'cc')] + self.cflags(flavour) + ['-c', os.path.join(self.src, s), '-o', o])
        errs = []
        with cf.ThreadPoolExecutor(NCPU) as ex:
            futs = {ex.submit(subprocess.run, cmd, capture_output=True, text=True): s for s, (o, cmd) in jobs.items()}
            for f in cf.as_completed(futs):
                r = f.result()
                if r.returncode != 0:
                    errs.append('%s: %s' % (futs[f], r.stderr[-1500:]))
        if errs:
            raise CheckError('repository does not compile: ' + '\n'.join(errs))
        self._objs[flavour] = {s: o for s, (o, cmd) in jobs.items()}
        return self._objs[flavour]

    def unit_harness(self, name, included, flavour='asan', extra_src=()):
        """Build harness/unit/<name>.c which #includes the repo modules `included`."""
        if COV_OUT:
            flavour = 'cov'
        out = os.path.join(self.dir, '%s-%s' % (name, flavour))
        if os.path.exists(out):
            return out
        objs = self.objs(flavour)
        link = [o for s, o in objs.items() if s not in included and s != 'mdsort.c']
        cmd = (['cc'] + self.cflags(flavour) + [os.path.join(HARNESS, 'unit', name + '.c')] + list(extra_src) +
               link + ['-o', out])
        r = subprocess.run(cmd, capture_output=True, text=True)
        if r.returncode != 0:
            # a static function the harness calls directly may have changed its signature (a harmless rewrite as far as the
            # properties go): build without the ops on static functions, so that the public-interface ops and the process-level
            # stages still search for a failing input; the lost tie is reported at the end of the check (lean_conclude)
            r2 = subprocess.run(cmd[:1] + ['-DHARNESS_NO_STATICS'] + cmd[1:], capture_output=True, text=True)
            if r2.returncode != 0:
                raise CheckError('harness %s does not build: %s' % (name, r.stderr[-3000:]))
            DEGRADED.append('harness %s builds only without its ops on static functions: %s' % (name, r.stderr[-1500:]))
            log(DEGRADED[-1][:300])
        return out

    def binary(self, flavour='plain'):
        if COV_OUT:
            flavour = 'cov'
        out = os.path.join(self.dir, 'mdsort-' + flavour)
        if os.path.exists(out):
            return out
        objs = self.objs(flavour)
        cmd = ['cc'] + self.FLAVOURS[flavour] + list(objs.values()) + ['-o', out]
        r = subprocess.run(cmd, capture_output=True, text=True)
        if r.returncode != 0:
            raise CheckError('mdsort does not link: ' + r.stderr[-3000:])
        return out

    def fuzz_target(self, name):
        """Build harness/fuzz/<name>.c as a libFuzzer binary (clang, ASan+UBSan) against the repo objects."""
        out = os.path.join(self.dir, name + '-fuzz')
        if os.path.exists(out):
            return out
        objs = self.objs('fuzz')
        link = [o for s, o in objs.items() if s != 'mdsort.c']
        flags = [f.replace('fuzzer-no-link', 'fuzzer') for f in self.cflags('fuzz')]
        cmd = ['clang'] + flags + [os.path.join(HARNESS, 'fuzz', name + '.c')] + link + ['-o', out]
        r = subprocess.run(cmd, capture_output=True, text=True)
        if r.returncode != 0:
            raise CheckError('fuzz target %s does not build: %s' % (name, r.stderr[-3000:]))
        return out

    def build_c(self, srcs, out, flags=()):
        outp = os.path.join(self.dir, out)
        if os.path.exists(outp):
            return outp
        cmd = ['cc', '-O1', '-g', '-w'] + list(flags) + list(srcs) + ['-o', outp]
        r = subprocess.run(cmd, capture_output=True, text=True)
        if r.returncode != 0:
            raise CheckError('%s does not build: %s' % (out, r.stderr[-3000:]))
        return outp


# --------------------------------------------------------------------------
# Lean side
# --------------------------------------------------------------------------

class LeanLock:
    def __enter__(self):
        self.fh = open(os.path.join(LEAN, '.verif-lock'), 'w')
        fcntl.flock(self.fh, fcntl.LOCK_EX)
        return self

    def __exit__(self, *a):
        fcntl.flock(self.fh, fcntl.LOCK_UN)
        self.fh.close()


def strip_comments(text):
    """Remove Lean block comments (nested) and line comments."""
    out = []
    i, depth, n = 0, 0, len(text)
    while i < n:
        if text.startswith('/-', i):
            depth += 1
            i += 2
        elif depth and text.startswith('-/', i):
            depth -= 1
            i += 2
        elif depth:
            if text[i] == '\n':
                out.append('\n')
            i += 1
        elif text.startswith('--', i):
            while i < n and text[i] != '\n':
                i += 1
        else:
            out.append(text[i])
            i += 1
    return ''.join(out)


def lean_theorems(prop):
    """Names of the property theorems stated in Props/<prop>.lean."""
    path = os.path.join(LEAN, 'Mdsort', 'Props', prop + '.lean')
    text = strip_comments(open(path).read())
    ns = re.findall(r'^namespace\s+(\S+)', text, re.M)
    prefix = (ns[0] + '.') if ns else ''
    return [prefix + n for n in re.findall(r'^theorem\s+(%s_\w+)' % prop, text, re.M)]


def lean_build(prop, repo_src):
    """Regenerate tables, build the property module and the driver, audit.

    Returns dict(ok, obligations, discharged, problems[], axioms{}, checker_cmd)."""
    res = {'ok': True, 'obligations': 0, 'discharged': 0, 'problems': [], 'axioms': {},
           'checker_cmd': 'cd lean && lake build Mdsort.Props.%s driver && lake env lean <#print axioms of every %s_* theorem>' % (prop, prop)}
    with LeanLock():
        r = subprocess.run([sys.executable, os.path.join(ROOT, 'tools', 'gen_tables.py'), repo_src,
                            os.path.join(LEAN, 'Mdsort', 'Gen', 'Tables.lean')], capture_output=True, text=True)
        if r.returncode != 0:
            res['ok'] = False
            res['problems'].append('translator gen_tables.py: ' + r.stderr.strip())
        res['generated_tables'] = generated_tables()
        # the context-free grammar of parse.y (bison's report), next to the tables: Gen/Grammar.lean
        r = subprocess.run([sys.executable, os.path.join(ROOT, 'tools', 'gen_grammar.py'), repo_src,
                            os.path.join(LEAN, 'Mdsort', 'Gen', 'Grammar.lean')], capture_output=True, text=True)
        if r.returncode != 0:
            res['ok'] = False
            res['problems'].append('translator gen_grammar.py: ' + r.stderr.strip())
        r = subprocess.run(['lake', 'build', 'driver'], cwd=LEAN, capture_output=True, text=True)
        if r.returncode != 0:
            res['ok'] = False
            res['driver_failed'] = True
            res['problems'].append('lean driver does not build: ' + _lake_errors(r.stdout + r.stderr))
        r = subprocess.run(['lake', 'build', 'Mdsort.Props.' + prop], cwd=LEAN, capture_output=True, text=True)
        build_ok = r.returncode == 0
        if not build_ok:
            res['ok'] = False
            res['problems'].append('theorem file Props/%s.lean no longer checks: %s' % (prop, _lake_errors(r.stdout + r.stderr)))
        # textual audit over everything the property file imports (transitively)
        for path in import_closure('Mdsort.Props.' + prop):
            body = strip_comments(open(path).read())
            for ln, line in enumerate(body.split('\n'), 1):
                m = FORBIDDEN.search(line)
                if m:
                    res['ok'] = False
                    res['problems'].append('audit: %s:%d contains %r' % (os.path.relpath(path, LEAN), ln, m.group(0).strip()))
        thms = lean_theorems(prop)
        res['obligations'] = len(thms)
        if build_ok and thms:
            tmp = os.path.join(LEAN, '.audit-%s-%d.lean' % (prop, os.getpid()))
            with open(tmp, 'w') as fh:
                fh.write('import Mdsort.Props.%s\n' % prop)
                for t in thms:
                    fh.write('#print axioms %s\n' % t)
            try:
                r = subprocess.run(['lake', 'env', 'lean', tmp], cwd=LEAN, capture_output=True, text=True)
            finally:
                os.unlink(tmp)
            out = r.stdout + r.stderr
            for t in thms:
                short = t
                m = re.search(r"'%s' depends on axioms: \[([^\]]*)\]" % re.escape(short), out, re.S)
                m0 = re.search(r"'%s' does not depend on any axioms" % re.escape(short), out)
                if m0:
                    axs = []
                elif m:
                    axs = [a.strip() for a in m.group(1).replace('\n', ' ').split(',') if a.strip()]
                else:
                    res['ok'] = False
                    res['problems'].append('audit: no axiom report for %s: %s' % (t, out[-500:]))
                    continue
                res['axioms'][t] = axs
                bad = [a for a in axs if a not in ALLOWED_AXIOMS]
                if bad:
                    res['ok'] = False
                    res['problems'].append('audit: %s depends on %s' % (t, bad))
                else:
                    res['discharged'] += 1
    return res


def generated_tables():
    """What `Gen/Tables.lean` holds on this run: the names it defines (each read from the sources / platform headers of the tree
    under check by tools/gen_tables.py) and a hash of its text - evidence of which constants the theorems were checked against."""
    import gen_tables
    path = os.path.join(LEAN, 'Mdsort', 'Gen', 'Tables.lean')
    try:
        text = open(path).read()
    except OSError:
        return {'file': 'lean/Mdsort/Gen/Tables.lean', 'names': [], 'sha256': None}
    names, digest = gen_tables.generated_names(text)
    return {'file': 'lean/Mdsort/Gen/Tables.lean', 'names': names, 'sha256': digest, 'generator': 'tools/gen_tables.py'}


def import_closure(mod):
    """Files of the Mdsort library reachable from module `mod` through imports."""
    seen, todo, files = set(), [mod], []
    while todo:
        m = todo.pop()
        if m in seen or not m.startswith('Mdsort'):
            continue
        seen.add(m)
        path = os.path.join(LEAN, *m.split('.')) + '.lean'
        if not os.path.exists(path):
            continue
        files.append(path)
        for imp in re.findall(r'^import\s+(\S+)', open(path).read(), re.M):
            todo.append(imp)
    return files


def _lake_errors(text):
    errs = [l for l in text.split('\n') if 'error' in l]
    return ' | '.join(errs[:6])[:1500]


def lean_setup():
    with LeanLock():
        subprocess.run([sys.executable, os.path.join(ROOT, 'tools', 'gen_tables.py'), REPO,
                        os.path.join(LEAN, 'Mdsort', 'Gen', 'Tables.lean')], check=True)
        subprocess.run([sys.executable, os.path.join(ROOT, 'tools', 'gen_grammar.py'), REPO,
                        os.path.join(LEAN, 'Mdsort', 'Gen', 'Grammar.lean')], check=True)
        r = subprocess.run(['lake', 'build', 'Mdsort', 'driver'], cwd=LEAN)
        return r.returncode


def driver_path():
    return os.path.join(LEAN, '.lake', 'build', 'bin', 'driver')


# --------------------------------------------------------------------------
# batch execution of the line protocol
# --------------------------------------------------------------------------

def _run_once(cmd, lines, env, timeout):
    data = ''.join(l + '\n' for l in lines)
    try:
        r = subprocess.run(cmd, input=data.encode(), capture_output=True, env=env, timeout=timeout)
    except subprocess.TimeoutExpired as e:
        out = (e.stdout or b'').decode('latin-1').split('\n')
        return out[:-1] if out and out[-1] == '' else out, 'TIMEOUT', ''
    out = r.stdout.decode('latin-1').split('\n')
    if out and out[-1] == '':
        out = out[:-1]
    status = None if r.returncode == 0 else 'EXIT%d' % r.returncode
    return out, status, r.stderr.decode('latin-1')[-4000:]


def _classify_crash(status, err):
    m = re.search(r'ERROR: AddressSanitizer: ([\w-]+)', err)
    if m:
        loc = re.search(r'#\d+ 0x[0-9a-f]+ in (\w+) [^\n]*?([\w.-]+\.c:\d+)', err)
        return 'FAULT asan %s%s' % (m.group(1), (' ' + loc.group(1) + ' ' + loc.group(2)) if loc else '')
    m = re.search(r'([\w./-]+\.c:\d+:\d+): runtime error: ([^\n]+)', err)
    if m:
        return 'FAULT ubsan %s %s' % (os.path.basename(m.group(1)), m.group(2)[:80])
    if status == 'TIMEOUT':
        return 'FAULT timeout'
    return 'FAULT %s' % status


def run_chunk(cmd, lines, env=None, timeout=None):
    """Run one process over `lines`; a crash costs one restart per crashing line."""
    if timeout is None:
        timeout = 60 + len(lines) * 0.05
    results = []
    pos = 0
    while pos < len(lines):
        out, status, err = _run_once(cmd, lines[pos:], env, timeout)
        got = out[:len(lines) - pos]
        results.extend(got)
        pos += len(got)
        if pos < len(lines):
            # the process died (or hung) on lines[pos]
            o1, s1, e1 = _run_once(cmd, [lines[pos]], env, 20)
            if len(o1) >= 1 and s1 is None:
                # not reproducible alone: order-dependent crash; report at this position
                results.append('FAULT nonreproducible ' + _classify_crash(status, err))
            else:
                results.append(_classify_crash(s1 or status, e1 or err))
            pos += 1
    return results


def run_batch(cmd, lines, env=None, nproc=None):
    """Run the line protocol over all lines, in parallel chunks."""
    if not lines:
        return []
    nproc = nproc or NCPU
    size = max(1, (len(lines) + nproc - 1) // nproc)
    size = min(size, 20000)
    chunks = [lines[i:i + size] for i in range(0, len(lines), size)]
    with cf.ThreadPoolExecutor(nproc) as ex:
        outs = list(ex.map(lambda c: run_chunk(cmd, c, env), chunks))
    res = []
    for o in outs:
        res.extend(o)
    return res


ASAN_ENV = dict(os.environ, ASAN_OPTIONS='detect_leaks=0:abort_on_error=0:exitcode=99', UBSAN_OPTIONS='print_stacktrace=0')


def hexs(b):
    return b.hex() if b else '-'


def unhex(s):
    return b'' if s == '-' else bytes.fromhex(s)


# --------------------------------------------------------------------------
# known findings, replay, evidence
# --------------------------------------------------------------------------

def known_findings(prop):
    """Entries of KNOWN_FINDINGS.txt for `prop`: {class: text} for `known:` lines."""
    res = {}
    path = os.path.join(ROOT, 'KNOWN_FINDINGS.txt')
    if not os.path.exists(path):
        return res
    for line in open(path):
        line = line.strip()
        if not line.startswith('known:'):
            continue
        kv = dict(re.findall(r'(\w+)=(\S+)', line))
        if kv.get('property') == prop and 'class' in kv:
            res[kv['class']] = line
    return res


class Report:
    """Collects what a check found; prints the contract lines; writes evidence."""

    def __init__(self, prop, tier, seed, keep_replays=False):
        """keep_replays: a --replay run must not delete the replay files of the previous run (it is reading one of them)."""
        self.prop, self.tier, self.seed = prop, tier, seed
        self.t0 = time.time()
        self.violations = []      # (replay path, suffix)
        self.known_hits = {}      # class -> [count, example]
        self.known = known_findings(prop)
        self.coverage = {}
        self.assumptions = []
        self.nreplay = 0
        os.makedirs(REPLAY, exist_ok=True)
        if keep_replays:
            # number new replay files after the existing ones
            self.nreplay = len(glob.glob(os.path.join(REPLAY, '%s-*.json' % prop)))
        else:
            for f in glob.glob(os.path.join(REPLAY, '%s-*.json' % prop)):
                os.unlink(f)

    def replay_file(self, payload):
        self.nreplay += 1
        path = os.path.join(REPLAY, '%s-%d.json' % (self.prop, self.nreplay))
        payload = dict(payload, property=self.prop, tier=self.tier, seed=self.seed)
        with open(path, 'w') as fh:
            json.dump(payload, fh, indent=1, default=str)
        return path

    def violation(self, payload, found_input=True):
        """A property violation (with a failing input) or a broken obligation (without)."""
        if len(self.violations) >= 20:
            self.violations.append((None, ''))
            return
        path = self.replay_file(dict(payload, failing_input_found=found_input))
        self.violations.append((path, '' if found_input else ' no-failing-input-found'))

    def finding(self, cls, payload):
        """A failing input: known class -> KNOWN-FINDING, otherwise a violation."""
        if cls in self.known:
            h = self.known_hits.setdefault(cls, [0, payload])
            h[0] += 1
        else:
            self.violation(dict(payload, finding_class=cls), True)

    def finish(self, level='proof'):
        wall = time.time() - self.t0
        for cls, (n, ex) in sorted(self.known_hits.items()):
            kv = dict(re.findall(r'(\w+)=(\S+)', self.known[cls]))
            what = self.known[cls].split(' -- ', 1)[1] if ' -- ' in self.known[cls] else cls
            print('KNOWN-FINDING: property=%s id=%s class=%s (%d inputs this run) %s' % (self.prop, kv.get('id', '?'), cls, n, what))
        nviol = 0
        for path, suffix in self.violations:
            if path is None:
                continue
            nviol += 1
            print('VIOLATION property=%s replay=%s%s' % (self.prop, path, suffix))
        ev = {
            'property_id': self.prop,
            'tier': self.tier,
            'seed': self.seed,
            'level': level,
            'coverage': self.coverage,
            'assumptions': self.assumptions,
            'wall_s': round(wall, 2),
            'violations': len(self.violations),
            'known_findings_confirmed': {c: n for c, (n, ex) in self.known_hits.items()},
        }
        os.makedirs(EVID, exist_ok=True)
        with open(os.path.join(EVID, self.prop + '.json'), 'w') as fh:
            json.dump(ev, fh, indent=1, default=str)
        sys.stdout.flush()
        return 1 if self.violations else 0


def seed_from_env():
    try:
        return int(os.environ.get('VERIF_SEED', '1'))
    except ValueError:
        return 1


BASE_TRUSTED = [
    "Lean 4.33.0 kernel; axioms per theorem as printed by #print axioms on this run (allowed: propext, Classical.choice, Quot.sound)",
    "no sorry/admit/native_decide/bv_decide/implemented_by/unsafe/added axioms in lean/Mdsort (textual audit on this run)",
    "hand-written model tied to /repo's working tree by differential execution (this run), tables regenerated by tools/gen_tables.py",
]


# --------------------------------------------------------------------------
# differential execution: implementation vs model vs specification
# --------------------------------------------------------------------------

class Differential:
    """Requests are tuples (op, arg_bytes...).  The harness answers `op hex...`,
    the driver `M op hex...` (model) and `S op hex...` (specification).

    * implementation != specification on a request satisfying H: a failing input
      (KNOWN-FINDING if its class is listed, VIOLATION otherwise), shrunk first;
    * implementation != model only: the correspondence is broken (reported once,
      `no-failing-input-found`, with the disagreeing requests in the replay file).
    """

    def __init__(self, rep, harness_cmd, env=None, spec_ops=None, name='unit', oracles=None, denv=None):
        self.rep = rep
        # denv: environment of the Lean driver (None = the check's own); a stage that studies a locale passes the same LC_ALL to both sides
        self.denv = denv
        # op -> function(req, impl_output) -> driver request (tuple) answering OK / BAD / NOTWF:
        # the specification evaluated as a predicate on the implementation's output
        self.oracles = oracles or {}
        self.harness = harness_cmd
        self.env = env or ASAN_ENV
        self.driver = [driver_path()]
        self.spec_ops = spec_ops   # None = all ops have a specification side
        self.name = name
        self.evals = 0
        self.corr_mismatch = []
        self.spec_fail = []
        self.faults = []
        self.hist = {}

    @staticmethod
    def line(req):
        return ' '.join([req[0]] + [hexs(a) for a in req[1:]])

    def has_spec(self, op):
        return self.spec_ops is None or op in self.spec_ops

    def eval3(self, reqs):
        lines = [self.line(r) for r in reqs]
        impl = run_batch(self.harness, lines, self.env)
        model = run_batch(self.driver, ['M ' + l for l in lines], self.denv)
        sidx = [i for i, r in enumerate(reqs) if self.has_spec(r[0]) or r[0] in self.oracles]
        slines = []
        for i in sidx:
            r = reqs[i]
            if r[0] in self.oracles:
                if impl[i].startswith('FAULT') or impl[i] in ('ERR', 'BADOP'):
                    slines.append('S nop')
                else:
                    slines.append('S ' + self.line(self.oracles[r[0]](r, impl[i])))
            else:
                slines.append('S ' + lines[i])
        sres = run_batch(self.driver, slines, self.denv)
        spec = [None] * len(reqs)
        for i, s in zip(sidx, sres):
            if s == 'NOTWF' or s == 'BADOP':
                spec[i] = None           # outside the specification's domain (hypothesis H fails)
            elif reqs[i][0] in self.oracles:
                spec[i] = impl[i] if s == 'OK' else 'ORACLE-REJECTS(' + s + ')'
            else:
                spec[i] = s
        return impl, model, spec

    def run(self, reqs, H=None, classify=None, shrink=True, max_report=5):
        """Evaluate all requests; returns (impl, model, spec) lists."""
        impl, model, spec = self.eval3(reqs)
        self.evals += len(reqs)
        for i, r in enumerate(reqs):
            ok_h = H(r) if H else True
            if impl[i] == 'BADOP' and DEGRADED:
                continue              # an op on a static function that this build of the harness does not have
            if impl[i].startswith('FAULT'):
                self.faults.append((r, impl[i], model[i]))
            elif spec[i] is not None and ok_h and impl[i] != spec[i]:
                self.spec_fail.append((r, impl[i], model[i], spec[i]))
            elif impl[i] != model[i]:
                self.corr_mismatch.append((r, impl[i], model[i], spec[i]))
        # report failing inputs (shrunk), a few per class
        per_class = {}
        for r, im, mo, sp in self.spec_fail:
            cls = classify(r, im, sp) if classify else 'unlisted'
            per_class.setdefault(cls, []).append((r, im, mo, sp))
        for cls, items in per_class.items():
            known = cls in self.rep.known
            for (r, im, mo, sp) in items[:(1 if known else max_report)]:
                if shrink and not known:
                    r, im, mo, sp = self.shrink(r, H, lambda rr, ii, ss: (classify(rr, ii, ss) if classify else 'unlisted') == cls)
                self.rep.finding(cls, {'harness': self.name, 'request': self.line(r), 'request_readable': [repr(a) for a in r],
                                       'implementation': im, 'model': mo, 'specification': sp,
                                       'replay_cmd': 'python3 tools/check.py %s --replay <this file>' % self.rep.prop})
            if known and len(items) > 1:
                self.rep.known_hits[cls][0] += len(items) - 1
        for r, im, mo in self.faults[:max_report]:
            self.rep.finding('sanitizer-fault', {'harness': self.name, 'request': self.line(r), 'request_readable': [repr(a) for a in r],
                                                 'implementation': im, 'model': mo})
        return impl, model, spec

    def shrink(self, req, H, same_class):
        """Greedy byte deletion over every argument while the failure persists."""
        cur = req
        _, _, _ = None, None, None
        best = None
        for _round in range(200):
            cands = []
            for ai in range(1, len(cur)):
                a = cur[ai]
                if not isinstance(a, (bytes, bytearray)):
                    continue
                n = len(a)
                step = max(1, n // 8)
                for i in range(0, n, step):
                    c = list(cur)
                    c[ai] = a[:i] + a[i + step:]
                    cands.append(tuple(c))
                if step > 1:
                    for i in range(n):
                        c = list(cur)
                        c[ai] = a[:i] + a[i + 1:]
                        cands.append(tuple(c))
            cands = [c for c in cands if (H(c) if H else True)][:400]
            if not cands:
                break
            impl, model, spec = self.eval3(cands)
            nxt = None
            for c, im, mo, sp in zip(cands, impl, model, spec):
                if sp is not None and not im.startswith('FAULT') and im != sp and same_class(c, im, sp):
                    nxt = (c, im, mo, sp)
                    break
            if nxt is None:
                break
            cur, best = nxt[0], nxt
        if best is None:
            impl, model, spec = self.eval3([req])
            return req, impl[0], model[0], spec[0]
        return best

    def conclude(self, what):
        """Report a broken correspondence when no failing input explains it."""
        if self.corr_mismatch and not self.rep.violations:
            ex = self.corr_mismatch[:10]
            self.rep.violation({'obligation': 'correspondence %s: implementation and Lean model disagree; the specification '
                                              'evaluated on the implementation output found no failing input' % what,
                                'disagreements': len(self.corr_mismatch),
                                'examples': [{'request': self.line(r), 'implementation': im, 'model': mo, 'specification': sp}
                                             for r, im, mo, sp in ex]}, False)


def lean_gate(rep, prop, scratch, what_trusted):
    """Run the Lean side of a check; record proof coverage; report broken obligations."""
    lb = lean_build(prop, scratch.src)
    rep.coverage.update({
        'obligations': lb['obligations'],
        'discharged': lb['discharged'],
        'checker_cmd': lb['checker_cmd'],
        'trusted_base': BASE_TRUSTED + list(what_trusted),
        'theorems': lb['axioms'],
        'generated_tables': lb.get('generated_tables'),
    })
    rep.lean = lb
    if lb['problems']:
        rep.coverage['lean_problems'] = lb['problems'][:20]     # evidence also when a stage reports the failing input
    if lb.get('driver_failed'):
        raise CheckError('; '.join(lb['problems']))
    return lb


def lean_conclude(rep):
    """After the correspondence ran: a broken Lean obligation is a violation without input
    unless a failing input was already reported."""
    lb = rep.lean
    if not lb['ok'] and not rep.violations:
        rep.violation({'obligation': 'Lean proof obligations', 'problems': lb['problems']}, False)
    if DEGRADED and not rep.violations:
        rep.violation({'obligation': 'correspondence of static functions with the model: the unit harness no longer builds with its '
                                     'direct calls of static functions, so those functions are not tied to the model on this run; the '
                                     'remaining stages found no failing input', 'problems': list(DEGRADED)}, False)
