"""Configuration-level generator families shared by the checks of C14 and C15.

Three families of whole configurations, each with an oracle taken from mdsort.conf(5) / mdsort(1) (not from the model):

* macro-name relations (`macro_scenarios`, `macro_process_cases`): sets of macro names related by prefix / extension / case /
  keywords / time units / the empty name, defined in every order, in the file and with -D, referenced in every string position
  of the grammar - also names that are NOT defined but are prefixes or extensions of defined ones.  A reference resolves iff a
  macro of exactly that name is defined; a definition is refused iff exactly that name is already defined.
* integer literals (`int_literals`, `unit_lexemes`, `age_oracle`, `int_process_cases`): digit strings around every boundary an
  implementation might use (2^31, 2^32, 2^63, 2^64, multiples of 2^64 plus a valid age, 2^96, 10^19, 10^20, 38 nines, leading
  zeros) x every unit and abbreviation.  Accepted iff N x unit <= UINT32_MAX, and then the age is exactly N x unit.
* path-list shapes of maildir blocks (`pathlist_shapes`): empty list, one path, several, "/dev/stdin" in every position,
  duplicates, with a stdin block before / after, x bodies with and without `reject` (top level, after a condition, nested).
  Never a crash; `reject` in a block that applies to a real maildir rejects the file as a whole.

Unit level: requests of the `conf` op of harness/unit/h_parse.c (real bison parser) judged by the oracle and compared with
`M conf` (Model/Conf.lean).  Process level: the real binary under the shim with -n, -d, a real run, with and without `-`.
"""
import itertools
import re
import proc
import worldscen as ws
import confshape

R = '@R@'
UINT32_MAX = 2 ** 32 - 1
UNITS = [('seconds', 1), ('minutes', 60), ('hours', 3600), ('days', 86400), ('weeks', 604800), ('months', 2592000), ('years', 31536000)]
STDIN_PATH = '/dev/stdin'


# --------------------------------------------------------------------------
# running the real binary on a populated tree
# --------------------------------------------------------------------------

def population():
    return ws.base_tree(2, 1, extra_dirs=('dst', 'dst2', 'md3'))


def run_box(tools, conf, args=(), stdin=None, tree=None, timeout=10):
    """Run the real binary; `@R@` in the configuration and in the arguments is the sandbox root.
    -> dict(status, err, out, changed, helper, opened): status is the exit status, -N for death by signal N, or 'timeout'."""
    spec = ws.Spec('fam', conf, tree=tree if tree is not None else population(), stdin=stdin, args=[])
    scen = spec.build(tools)
    try:
        scen.args = [a.replace(R, scen.root) for a in args]
        r = scen.run(trace=True, timeout=timeout)
        changed = []
        if r.status != 'timeout':
            a, b = ws.maildir_files(scen.initial), ws.maildir_files(r.final)
            changed = sorted((k, v) for k, v in (set(a.items()) ^ set(b.items())))
        opened = [c['raw'].replace(scen.root, R) for c in r.calls() if c['name'] in ('opendir', 'openat', 'fork', 'mkdtemp')]
        final = {k.replace(scen.root, R): v for k, v in ws.maildir_files(r.final).items()}
        return {'status': r.status, 'err': r.err.decode('latin-1').replace(scen.root, R), 'out': r.out.decode('latin-1').replace(scen.root, R),
                'changed': changed, 'helper': [h.replace(scen.root, R) for h in r.helper], 'opened': opened, 'final': final}
    finally:
        scen.cleanup()


def crashed(status):
    return status == 'timeout' or (isinstance(status, int) and (status < 0 or status >= 128))


def describe_status(status):
    if status == 'timeout':
        return 'did not terminate'
    if isinstance(status, int) and status < 0:
        return 'terminated by signal %d' % -status
    return 'exit status %r' % (status,)


MODES = [('-n', ['-n'], False), ('-d', ['-d'], False), ('run', [], False), ('run -', ['-'], True), ('-d -', ['-d', '-'], True), ('-n -', ['-n', '-'], True)]
QUICK_MODES = MODES[:4]


def modes_for(tier):
    return QUICK_MODES if tier == 'quick' else MODES


def judge_rejected(tools, name, conf, dargs=(), modes=MODES, tree=None):
    """The configuration must be rejected as a whole in every mode: non-zero exit (1, or 75 when a message is delivered on standard
    input), a file:line diagnostic, nothing changed, no maildir or message opened, no command run."""
    probs = []
    for label, args, has_stdin in modes:
        r = run_box(tools, conf, args=list(dargs) + args, stdin=ws.msg(5) if has_stdin else None, tree=tree)
        st = r['status']
        if crashed(st):
            probs.append('%s [%s]: %s' % (name, label, describe_status(st)))
            continue
        want = 75 if '-' in args else 1
        if st != want:
            probs.append('%s [%s]: exit status %r, expected %d (stderr %r)' % (name, label, st, want, r['err'][-200:]))
        if not re.search(r'^\S*conf:\d+: \S', r['err'], re.M):
            probs.append('%s [%s]: no "file:line: message" diagnostic (stderr %r)' % (name, label, r['err'][-200:]))
        if r['changed']:
            probs.append('%s [%s]: files changed although the configuration is invalid: %s' % (name, label, [c[0] for c in r['changed']][:3]))
        if r['helper']:
            probs.append('%s [%s]: a command was run although the configuration is invalid' % (name, label))
        if r['opened']:
            probs.append('%s [%s]: a maildir or message was opened although the configuration is invalid: %s' % (name, label, r['opened'][0][:100]))
    return probs


# --------------------------------------------------------------------------
# family 1: macro-name relations
# --------------------------------------------------------------------------

# names related by prefix / extension / case, names that are keywords or time units, the empty name, names with `-`
NAME_GROUPS = [
    ('a', 'ab', 'abc'),
    ('in', 'inbox', 'inb'),
    ('dst', 'ds', 'd'),
    ('x', 'X', 'xx'),                 # upper case: not a name the file can define, but -D can and ${X} is a reference
    ('s', 'sec', 'seconds'),          # time units and their abbreviations
    ('m', 'mo', 'months'),
    ('y', 'years', 'yea'),
    ('move', 'mov', 'mover'),         # a keyword: -D only
    ('new', 'ne', 'news'),
    ('pat', 'paths', 'pa'),           # around the predefined `path`
    ('', 'e', 'ee'),                  # the empty name: `-D =value`, `${}`
    ('a-b', 'a', 'a-'),
]


def file_definable(name):
    return re.fullmatch(r'[a-z][a-z-]*', name) is not None and name not in confshape.KEYWORDS and name != 'path'


class MacroScen:
    """dash_d / file_defs: [(name, value)] in the order given; uses: names referenced, in order, in the string under test;
    late: the definitions are written after the block that uses them."""

    def __init__(self, dash_d, file_defs, uses, late=False, note=''):
        self.dash_d, self.file_defs, self.uses, self.late, self.note = list(dash_d), list(file_defs), list(uses), late, note

    def value(self, name):
        """What `${name}` stands for when the file is accepted (-D overrides the file)."""
        if name == 'path':
            return '${path}'
        for n, v in self.dash_d:
            if n == name:
                return v
        for n, v in self.file_defs:
            if n == name:
                return v
        return None

    def describe(self):
        return {'-D': ['%s=%s' % d for d in self.dash_d], 'defined in the file (in this order)': [n for n, _ in self.file_defs],
                'referenced': self.uses, 'definitions after the block': self.late, 'case': self.note}


def macro_verdict(scen, action):
    """'accept' / 'reject' / 'baddefs' from the manuals: -D defines a macro and overrides the file's definition of that name;
    `path` is predefined (actions only) and cannot be defined; a macro is defined once; a reference needs a macro of exactly that
    name, defined before it is used; every defined macro must be used."""
    table = {}
    for n, _ in scen.dash_d:
        if n == 'path' or n in table:
            return 'baddefs'
        table[n] = {'sticky': True, 'refs': 0, 'filedefs': 0}
    defs = [('def', n) for n, _ in scen.file_defs]
    uses = [('use', u) for u in scen.uses]
    for kind, n in (uses + defs if scen.late else defs + uses):
        if kind == 'def':
            if n == 'path':
                return 'reject'
            if n in table:
                if table[n]['sticky'] and table[n]['filedefs'] == 0:
                    table[n]['filedefs'] = 1          # overridden by -D
                    continue
                return 'reject'
            table[n] = {'sticky': False, 'refs': 0, 'filedefs': 1}
        elif n == 'path':
            if not action:
                return 'reject'
        elif n not in table:
            return 'reject'
        else:
            table[n]['refs'] += 1
    if any(t['refs'] == 0 for t in table.values()):
        return 'reject'
    return 'accept'


def macro_scenarios():
    """Every group x every non-empty subset defined x every order x several splits between -D and the file x (all used | one more
    reference to a name of the group that is NOT defined | the empty name | `path`), plus redefinitions, overrides, unused, late."""
    out = []
    for g in NAME_GROUPS:
        extra = [n for n in ('',) if n not in g] + (['path'] if 'pat' in g else [])
        for k in range(1, len(g) + 1):
            for sub in itertools.combinations(g, k):
                for order in itertools.permutations(sub):
                    must_d = [n for n in order if not file_definable(n)]
                    variants = [set(must_d)] + [set(must_d) | {n} for n in order if n not in must_d] + [set(order)]
                    seen = []
                    for dset in variants:
                        if dset in seen:
                            continue
                        seen.append(dset)
                        dd = [(n, '<D:%s>' % n) for n in order if n in dset]
                        fd = [(n, '<%s>' % n) for n in order if n not in dset]
                        uses = [n for n in g if n in sub]
                        out.append(MacroScen(dd, fd, uses, note='all defined macros used'))
                        for i, u in enumerate([n for n in g if n not in sub] + extra):
                            us = uses + [u] if i % 2 == 0 else [u] + uses
                            out.append(MacroScen(dd, fd, us, note='reference to %r, which is not defined' % u if u != 'path' else 'reference to the predefined path'))
                    # the remaining cases once per order (definitions in the file where possible)
                    dd = [(n, '<D:%s>' % n) for n in must_d]
                    fd = [(n, '<%s>' % n) for n in order if n not in must_d]
                    uses = [n for n in g if n in sub]
                    for n, _ in fd:
                        out.append(MacroScen(dd, fd + [(n, '<%s>again' % n)], uses, note='%r defined twice in the file' % n))
                        out.append(MacroScen(dd + [(n, '<D:%s>' % n)], fd, uses, note='-D %s overrides the definition in the file' % n))
                        out.append(MacroScen(dd + [(n, '<D:%s>' % n)], fd + [(n, '<%s>again' % n)], uses, note='%r defined twice in the file under -D' % n))
                    if len(uses) > 1:
                        for n in uses:
                            out.append(MacroScen(dd, fd, [u for u in uses if u != n], note='%r defined but not used' % n))
                    if fd:
                        out.append(MacroScen(dd, fd, uses, late=True, note='definitions after the block that uses them'))
                    n = order[0]
                    out.append(MacroScen([d for d in dd if d[0] != n] + [(n, '<D:%s>' % n), (n, '<D2:%s>' % n)], [d for d in fd if d[0] != n], uses,
                                         note='-D %s given twice' % n))
        out.append(MacroScen([('path', 'x')], [], [g[1]], note='-D path'))
    return out


# string positions of the grammar: (name, context, template with @S@; the block moves nothing at unit level)
UPOS = [
    ('macro-value', 'default', 'w = "@S@"\nmaildir "q" { match header "${w}" /x/ break }\n', None),
    ('maildir-path', 'default', 'maildir "@S@" { match all break }\n', None),
    ('maildir-path-list', 'default', 'maildir { "p" "@S@" } { match all break }\n', 'maildir { "p" @L@ } { match all break }\n'),
    ('header-name', 'default', 'maildir "q" { match header "@S@" /x/ break }\n', None),
    ('header-name-list', 'default', 'maildir "q" { match header { "Cc" "@S@" } /x/ break }\n', 'maildir "q" { match header { @L@ } /x/ break }\n'),
    ('isdirectory', 'default', 'maildir "q" { match isdirectory "@S@" break }\n', None),
    ('command', 'default', 'maildir "q" { match command "@S@" break }\n', None),
    ('command-argument', 'default', 'maildir "q" { match command { "c" "@S@" } break }\n', 'maildir "q" { match command { "c" @L@ } break }\n'),
    ('move', 'action', 'maildir "q" { match all move "@S@" }\n', None),
    ('label', 'action', 'maildir "q" { match all label "@S@" }\n', None),
    ('label-list', 'action', 'maildir "q" { match all label { "one" "@S@" } }\n', 'maildir "q" { match all label { @L@ } }\n'),
    ('exec', 'action', 'maildir "q" { match all exec "@S@" }\n', None),
    ('exec-argument', 'action', 'maildir "q" { match all exec { "c" "@S@" } }\n', 'maildir "q" { match all exec { "c" @L@ } }\n'),
    ('exec-stdin-argument', 'action', 'maildir "q" { match all exec stdin { "c" "@S@" } }\n', None),
    ('add-header-name', 'default', 'maildir "q" { match all add-header "@S@" "value" }\n', None),
    ('add-header-value', 'action', 'maildir "q" { match all add-header "X-Added" "@S@" }\n', None),
    ('flags', 'default', 'maildir "q" { match all flags "@S@" }\n', None),
    ('stdin-move', 'action', 'stdin { match all move "@S@" }\n', None),
    ('attachment-exec', 'action', 'maildir "q" { match all attachment { match all exec "@S@" } }\n', None),
    ('nested-move', 'action', 'maildir "q" {\n match new {\n  match all move "@S@"\n }\n}\n', None),
]


def macro_texts(scen, pos, spread):
    """(configuration, the same file with every reference replaced by the value of exactly that macro - definitions replaced by
    comment lines so that every node keeps its line - or None when some reference has no value).
    spread: where the position takes a list of strings, one reference per string instead of all in one string."""
    name, ctx, tmpl, ltmpl = pos
    vals = [scen.value(u) for u in scen.uses]
    if spread and ltmpl is not None:
        text = ltmpl.replace('@L@', ' '.join('"${%s}"' % u for u in scen.uses))
        ref = None if None in vals else ltmpl.replace('@L@', ' '.join('"%s"' % v for v in vals))
    else:
        text = tmpl.replace('@S@', '|'.join('${%s}' % u for u in scen.uses))
        ref = None if None in vals else tmpl.replace('@S@', '|'.join(vals))
    defs = ''.join('%s = "%s"\n' % d for d in scen.file_defs)
    cmts = ''.join('# %s\n' % n for n, _ in scen.file_defs)
    if scen.late:
        return text + defs, (None if ref is None else ref + cmts)
    return defs + text, (None if ref is None else cmts + ref)


def pick(items, n=4, key=lambda it: str(it['what'][0])[:40]):
    """Up to n findings, different kinds of deviation first."""
    groups = {}
    for it in items:
        groups.setdefault(key(it), []).append(it)
    out = []
    while len(out) < n and any(groups.values()):
        for k in list(groups):
            if groups[k] and len(out) < n:
                out.append(groups[k].pop(0))
    return out


def strip_calls(dump):
    """A `conf` answer without the number of lexer calls (definitions are tokens, comments are not)."""
    return re.sub(r' L \d+$', '', dump)


def conf_request(text, defs=(), home=b'/home/u'):
    r = ['conf', text.encode('latin-1'), home]
    for k, v in defs:
        r += [k.encode('latin-1'), v.encode('latin-1')]
    return tuple(r)


def macro_unit_cases(tier, rng):
    """-> [(scenario, position name, request, reference request or None, expected verdict)]"""
    out = []
    scens = macro_scenarios()
    for i, sc in enumerate(scens):
        if tier == 'quick':
            poss = [UPOS[i % len(UPOS)]]
        else:
            poss = UPOS
        for j, pos in enumerate(poss):
            text, ref = macro_texts(sc, pos, spread=(i + j) % 3 == 0)
            exp = macro_verdict(sc, pos[1] == 'action')
            out.append((sc, pos[0], conf_request(text, sc.dash_d), None if ref is None else conf_request(ref), exp, text))
    return out


def judge_macro_unit(case, impl, impl_ref):
    """What is wrong with the real parser's answer (None: nothing)."""
    sc, posname, req, refreq, exp, text = case
    if impl.startswith('FAULT'):
        return 'the parser crashed: %s' % impl
    if exp == 'baddefs':
        return None if impl == 'BADDEFS' else 'the -D options must be refused (a macro defined twice on the command line, or path), answer %s' % impl[:120]
    if exp == 'reject':
        if impl.startswith('ERR'):
            return None
        return 'the file must be rejected (%s), but the parser answered %s' % (sc.note, impl[:200])
    if not impl.startswith('OK'):
        return 'a valid file (%s) is refused: %s' % (sc.note, impl[:120])
    if impl_ref is None or not impl_ref.startswith('OK'):
        return 'the same file with the values written in place is refused: %s' % (impl_ref or '')[:120]
    if strip_calls(impl) != strip_calls(impl_ref):
        return ('the trees differ from those of the same file with the value of exactly that macro written in place of each reference: '
                '%s / %s' % (strip_calls(impl)[:300], strip_calls(impl_ref)[:300]))
    return None


# process level: what the expansion does -----------------------------------------------------------------

# (context, action context?, rule text with @S@ / @I@ (message number), values by rank of the name in its group)
PCTX = [
    ('move', True, 'match header "X-Id" /^@I@$/ move "@S@"', ['%s/dst' % R, '%s/dst2' % R, '%s/md3' % R, '%s/dst' % R]),
    ('label', True, 'match header "X-Id" /^@I@$/ label "@S@"', ['lbl-one', 'lbl-two', 'lbl-three', 'lbl-four']),
    ('exec-argument', True, 'match header "X-Id" /^@I@$/ exec { "@HELPER@" "@S@" }', ['arg one', 'arg-two', 'arg3', 'arg 4']),
    ('add-header-value', True, 'match header "X-Id" /^@I@$/ add-header "X-Added" "@S@"', ['v1', 'v22', 'v333', 'v4444']),
    ('header-name', False, 'match header "@S@" /^message @I@$/ move "%s/dst"' % R, ['Subject', 'X-Id', 'To', 'X-Nope']),
    ('isdirectory', False, 'match header "X-Id" /^@I@$/ and isdirectory "@S@" move "%s/dst2"' % R, ['%s/dst' % R, '%s/nothere' % R, '%s/md3' % R, '%s/nothere2' % R]),
]


def macro_process_cases(tier):
    """-> [(name, configuration, -D arguments, the same file with the values in place or None, expected verdict)]
    One rule per referenced name (message i is handled through the i-th reference), so every expansion is observable on its own:
    destination directory, label, argument vector of the helper, added header, header looked at, directory tested."""
    out = []
    groups = NAME_GROUPS if tier != 'quick' else [g for g in NAME_GROUPS if g[0] in ('a', 'in', 'x', 's', 'move', '', 'pat')]
    for gi, g in enumerate(groups):
        rank = {n: i for i, n in enumerate(g)}
        cases = []
        for k in (2, 3):
            for sub in itertools.combinations(g, k):
                orders = list(itertools.permutations(sub))
                for order in (orders if tier != 'quick' else [orders[0], orders[-1]]):
                    must_d = [n for n in order if not file_definable(n)]
                    cases.append((order, must_d, [n for n in g if n in sub]))
                    fileable = [n for n in order if n not in must_d]
                    if fileable:
                        cases.append((order, must_d + [fileable[-1]], [n for n in g if n in sub]))
                    for u in [n for n in g if n not in sub] + ([''] if '' not in g else []):
                        cases.append((order, must_d, [n for n in g if n in sub] + [u]))
        for ci, (order, dset, uses) in enumerate(cases):
            ctxs = PCTX if tier != 'quick' else [PCTX[(gi + ci) % len(PCTX)]]
            for cname, action, rule, values in ctxs:
                val = lambda n: values[rank[n]] if n in rank else values[3]
                dd = [(n, val(n)) for n in order if n in dset]
                fd = [(n, val(n)) for n in order if n not in dset]
                sc = MacroScen(dd, fd, uses)
                rules, refrules = [], []
                for i, u in enumerate(uses):
                    rl = rule.replace('@I@', str(i + 1))
                    rules.append('\t' + rl.replace('@S@', '${%s}' % u))
                    v = sc.value(u)
                    refrules.append(None if v is None else '\t' + rl.replace('@S@', v))
                conf = ''.join('%s = "%s"\n' % d for d in fd) + 'maildir "%s/src" {\n%s\n}\n' % (R, '\n'.join(rules))
                ref = None if None in refrules else ''.join('# %s\n' % n for n, _ in fd) + 'maildir "%s/src" {\n%s\n}\n' % (R, '\n'.join(refrules))
                dargs = [x for n, v in dd for x in ('-D', '%s=%s' % (n, v))]
                out.append(('macro-names:%s:%s:defined %s:-D %s:used %s' % (cname, '/'.join(g), ','.join(order), ','.join(n for n, _ in dd) or '-', ','.join(uses)),
                            conf, dargs, ref, macro_verdict(sc, action), sc))
    return out


def judge_macro_process(tools, case, tier='quick'):
    name, conf, dargs, ref, exp, sc = case
    conf = conf.replace('@HELPER@', tools.helper)
    if exp == 'reject':
        probs = judge_rejected(tools, name, conf, dargs, modes=[m for m in MODES if m[0] in (('-n', 'run', 'run -') if tier == 'quick' else ('-n', '-d', 'run', 'run -'))])
        return {'kind': 'reject:' + name, 'config': conf, 'arguments': dargs, 'problems': probs, 'expected': 'rejected as a whole: ' + str(sc.describe())}
    ref = ref.replace('@HELPER@', tools.helper)
    probs = []
    r = run_box(tools, conf, args=dargs + ['-n'])
    if r['status'] != 0 or r['err'].strip():
        probs.append('%s: a configuration whose macros are all defined and used is not accepted by -n: %s, stderr %r' % (name, describe_status(r['status']), r['err'][-200:]))
    else:
        for label, args in (('run', []), ('-d', ['-d'])):
            a = run_box(tools, conf, args=dargs + args)
            b = run_box(tools, ref, args=args)
            # the marker lines of -d are indented by the length of the configuration file's path (the sandbox roots differ in length;
            # the columns are C06's subject)
            a['out'], b['out'] = (re.sub(r'(?m)^ +', ' ', x['out']) for x in (a, b))
            if crashed(a['status']):
                probs.append('%s [%s]: %s' % (name, label, describe_status(a['status'])))
            elif (a['status'], a['final'], a['helper'], a['out']) != (b['status'], b['final'], b['helper'], b['out']):
                what = []
                if a['status'] != b['status']:
                    what.append('exit status %r / %r' % (a['status'], b['status']))
                if a['final'] != b['final']:
                    what.append('messages end up in %s / %s' % (sorted(a['final'])[:6], sorted(b['final'])[:6]) if sorted(a['final']) != sorted(b['final'])
                                else 'message contents differ')
                if a['helper'] != b['helper']:
                    what.append('commands run %r / %r' % ([h.split(' ')[0] for h in a['helper']][:4], [h.split(' ')[0] for h in b['helper']][:4]))
                if a['out'] != b['out']:
                    what.append('output %r / %r' % (a['out'][:200], b['out'][:200]))
                probs.append('%s [%s]: the run differs from the run of the same file with the value of exactly that macro written in place of each '
                             'reference: %s (stderr %r)' % (name, label, '; '.join(what), a['err'][-200:]))
    return {'kind': 'accept:' + name, 'config': conf, 'arguments': dargs, 'problems': probs, 'expected': 'accepted; every reference stands for the value of the macro of exactly that name'}


# --------------------------------------------------------------------------
# family 2: integer literals
# --------------------------------------------------------------------------

def int_literals(tier='quick'):
    """Digit strings around every boundary an implementation of the lexer might use."""
    P31, P32, P63, P64 = 2 ** 31, 2 ** 32, 2 ** 63, 2 ** 64
    vals = [1, 2, 59, 60, 61, 136, 137, 3600, 7199, 7200, 7201, 65535, 65536, 99999999,
            P31 - 1, P31, P31 + 1, P32 - 2, P32 - 1, P32, P32 + 1, P32 + 60, 2 * P32, 2 * P32 + 60, 2 ** 33 + 5, 10 ** 10 - 1, 10 ** 10,
            2 ** 53, P63 - 1, P63, P63 + 1, P64 - P32, P64 - 1, P64, P64 + 1, P64 + 2, P64 + 59, P64 + 60, P64 + 61, P64 + 136, P64 + 3600, P64 + 7199,
            P64 + 7201, P64 + 86400, P64 + P31, P64 + P32 - 1, P64 + P32, P64 + P32 + 1, 2 * P64, 2 * P64 + 1, 2 * P64 + 3600, 3 * P64 + 60, 10 * P64 + 60,
            P64 * P32 + 60, 2 ** 96, 2 ** 96 + 86400, 2 ** 128, 2 ** 128 + 60, 2 ** 128 + 3600, 10 ** 19, 10 ** 19 + 60, 10 ** 20, 10 ** 20 + 60,
            10 ** 38 - 1, 10 ** 39, 10 ** 100 + 60]
    for _, u in UNITS:
        q = UINT32_MAX // u
        vals += [q - 1, q, q + 1, P32 + q, P64 + q, P64 + q + 1]
    lits = []
    for v in vals:
        if v >= 1 and str(v) not in lits:
            lits.append(str(v))
    for z in ('000060', '0' * 30 + '60', '00000000004294967295', '00000000004294967296', '04294967296', '0' * 20 + '1', '0' * 8200 + '7',
              '018446744073709551676', '00018446744073709551616'):
        lits.append(z)
    if tier != 'quick':
        for v in list(vals):
            for d in (-3, -2, 2, 3):
                if v + d >= 1 and str(v + d) not in lits:
                    lits.append(str(v + d))
    return lits


def unit_lexemes(tier='quick'):
    """Every unit name and its abbreviations (quick: the name and its 1-, 2-, 3-letter and longest proper prefixes), an ambiguous
    abbreviation, an unknown word and an over-long name."""
    out = []
    for name, _ in UNITS:
        ks = range(1, len(name) + 1) if tier != 'quick' else sorted({1, 2, 3, len(name) - 1, len(name)})
        for k in ks:
            if name[:k] not in out:
                out.append(name[:k])
    return out + ['secondss', 'x', 'yearss']


def unit_value(lexeme):
    """The unit an abbreviation stands for: the one unit name it is a prefix of (None: none or several)."""
    ms = [v for n, v in UNITS if n.startswith(lexeme)]
    return ms[0] if len(ms) == 1 and lexeme else None


def lit_value(literal):
    return int(literal.lstrip('0') or '0')


def age_oracle(literal, lexeme):
    """The age `literal lexeme` denotes, in seconds, or None when the configuration must be rejected: unknown / ambiguous unit, or
    N x unit does not fit the documented bound UINT32_MAX ("ages that overflow are rejected when the configuration is parsed")."""
    u = unit_value(lexeme)
    if u is None:
        return None
    n = lit_value(literal)
    return n * u if n * u <= UINT32_MAX else None


FIELDS = [('', 'h'), ('header ', 'h'), ('modified ', 'm'), ('access ', 'a'), ('created ', 'c')]


def int_unit_cases(tier):
    """-> [(literal, unit lexeme, field, comparison, configuration, expected age or None)] for the `conf` op."""
    out = []
    lits, lexs = int_literals(tier), unit_lexemes(tier)
    k = 0
    for lit in lits:
        for lx in lexs:
            if len(lit) > 100 and lx not in ('seconds', 's', 'years'):
                continue
            for fld, _ in (FIELDS if tier != 'quick' else [FIELDS[k % len(FIELDS)]]):
                cmp_ = '<>'[k % 2]
                k += 1
                out.append((lit, lx, fld, cmp_, 'maildir "q" { match date %s%s %s %s break }\n' % (fld, cmp_, lit, lx), age_oracle(lit, lx)))
    # no other rule of the grammar takes an integer: a literal anywhere else is a syntax error, whatever its value
    for lit in ('60', str(2 ** 32), str(2 ** 64 + 60)):
        for conf in ('maildir "q" { match all move %s }\n', 'maildir "q" { match %s break }\n', 'maildir %s { match all break }\n',
                     'maildir "q" { match all flag %s }\n', 'maildir "q" { match date > %s break }\n', 'maildir "q" { match date > 1 %s break }\n',
                     'x = %s\nmaildir "${x}" { match all break }\n', 'maildir "q" { match all break } %s\n', 'maildir "q" { match date > %s %s seconds break }\n'):
            out.append((lit, None, '', '>', conf.replace('%s', lit), None))
    return out


def judge_int_unit(case, impl):
    lit, lx, fld, cmp_, conf, want = case
    n = lit.lstrip('0') or '0'
    shown = lit if len(lit) <= 60 else '%s...(%d digits)' % (lit[:40], len(lit))
    if impl.startswith('FAULT'):
        return 'the parser crashed: %s' % impl
    if want is None:
        if impl.startswith('ERR'):
            return None
        why = 'no rule takes an integer here' if lx is None else ('%r is not a unit' % lx if unit_value(lx) is None else
                                                                     '%s x %d = %d exceeds UINT32_MAX' % (n[:40], unit_value(lx), lit_value(lit) * unit_value(lx)))
        return 'the age "%s %s" must be rejected (%s), but the parser answered %s' % (shown, lx, why, impl[:200])
    if not impl.startswith('OK'):
        return 'the age "%s %s" = %d seconds is valid, but the file is refused: %s' % (shown, lx, want, impl[:100])
    m = re.search(r' date \d+ (\w) ([<>]) (-?\d+)', impl)
    fl = dict(FIELDS)[fld]
    if not m or (m.group(1), m.group(2), int(m.group(3))) != (fl, cmp_, want):
        return 'the age "%s %s" is %d seconds (field %s, %s); the tree holds %s' % (shown, lx, want, fl, cmp_, m.group(0) if m else impl[:200])
    return None


PIN_NOW = int(proc.PIN['VSHIM_TIME'])


def aged_tree(age):
    """One message whose Date header lies `age` seconds before the pinned clock."""
    import time
    date = time.strftime('%a, %d %b %Y %H:%M:%S +0000', time.gmtime(PIN_NOW - age)).encode()
    t = {}
    t.update(proc.maildir_tree('src', {('new', '1.host'): ws.msg(1, extra=b'Date: ' + date + b'\n')}))
    t.update(proc.maildir_tree('dst', {}))
    return t


def int_process_cases(tier):
    """-> [(literal, unit lexeme, comparison)]: is a message that is two hours old moved by `date > N unit`?"""
    lits = int_literals('quick')
    P32, P64 = 2 ** 32, 2 ** 64
    key = {str(v) for v in (1, 60, 7199, 7200, 7201, P32 - 1, P32, P32 + 60, P64 - 1, P64, P64 + 1, P64 + 60, P64 + 3600, P64 + 7199, P64 + 7201, P64 + P32 - 1,
                            P64 + P32, 2 * P64 + 3600, 2 ** 96 + 86400, 10 ** 19, 10 ** 20, 10 ** 38 - 1, 71582788, 71582789, P64 + 71582788, 136, 137, P64 + 136)}
    key |= {'000060', '0' * 30 + '60', '018446744073709551676'}
    out = []
    for lit in lits:
        if tier == 'quick' and lit not in key:
            continue
        for lx in (['seconds', 's', 'minutes', 'hours', 'years', 'm'] if tier == 'quick' else unit_lexemes('quick')):
            if len(lit) > 100 and lx != 'seconds':
                continue
            out.append((lit, lx, '>'))
            if tier != 'quick' or lx == 'seconds':
                out.append((lit, lx, '<'))
    return out


AGE = 7200


def judge_int_process(tools, case, tier='quick'):
    lit, lx, cmp_ = case
    conf = 'maildir "%s/src" {\n\tmatch date %s %s %s move "%s/dst"\n}\n' % (R, cmp_, lit, lx, R)
    want = age_oracle(lit, lx)
    name = 'age-literal:%s %s %s' % (cmp_, lit if len(lit) <= 60 else lit[:40] + '...', lx)
    tree = aged_tree(AGE)
    if want is None:
        probs = judge_rejected(tools, name, conf, modes=[m for m in MODES if m[0] in ('-n', 'run', '-d')], tree=tree)
        return {'kind': 'reject:' + name, 'config': conf, 'problems': probs,
                'expected': 'rejected when the configuration is parsed (the age does not fit UINT32_MAX or the unit is not one); the message, %d seconds old, stays' % AGE}
    probs = []
    r = run_box(tools, conf, args=['-n'], tree=tree)
    if r['status'] != 0 or r['err'].strip():
        probs.append('%s: a valid age (%d seconds) is not accepted by -n: %s, stderr %r' % (name, want, describe_status(r['status']), r['err'][-200:]))
    else:
        r = run_box(tools, conf, tree=tree)
        moved = any(k.startswith('dst/') for k in r['final']) and not any(k.startswith('src/') for k in r['final'])
        exp = (AGE > want) if cmp_ == '>' else (AGE < want)
        if crashed(r['status']) or r['status'] != 0:
            probs.append('%s: %s (stderr %r)' % (name, describe_status(r['status']), r['err'][-200:]))
        elif moved != exp:
            probs.append('%s: the message is %d seconds old and the age is %d seconds: it must %s, but it was %s' %
                         (name, AGE, want, 'be moved' if exp else 'stay', 'moved' if moved else 'left in place'))
    return {'kind': 'accept:' + name, 'config': conf, 'problems': probs, 'expected': 'accepted with the age %d seconds' % want}


# --------------------------------------------------------------------------
# family 3: path-list shapes of maildir blocks
# --------------------------------------------------------------------------

def pathlist_shapes(root=R):
    """-> [(name, configuration, expectation)]; expectation: 'reject' (a `reject` action in rules that apply to a real maildir),
    'accept' (the documented forms: one or several maildir paths without reject, a stdin block with or without reject), 'either'
    (not documented either way - the empty list, the literal path "/dev/stdin", a stdin block after one: accepted or rejected, but as
    a whole and without crashing; what the unchanged program does is recorded by running it)."""
    src, md3, dst, dst2 = ('%s/%s' % (root, d) for d in ('src', 'md3', 'dst', 'dst2'))
    lists = [
        ('empty', []), ('one', [src]), ('two', [src, md3]), ('three', [src, md3, dst2]), ('duplicate', [src, src]),
        ('stdin-only', [STDIN_PATH]), ('stdin-first', [STDIN_PATH, src]), ('stdin-last', [src, STDIN_PATH]),
        ('stdin-middle', [src, STDIN_PATH, md3]), ('stdin-first-of-three', [STDIN_PATH, src, md3]), ('stdin-twice', [STDIN_PATH, STDIN_PATH]),
        ('duplicate-around-stdin', [src, STDIN_PATH, src]), ('stdin-twice-then-real', [STDIN_PATH, STDIN_PATH, src]),
    ]
    bodies = [
        ('no-reject', '\tmatch header "To" /user1@/ move "%s"\n\tmatch all flag !new\n' % dst, False),
        ('reject', '\tmatch all reject\n', True),
        ('reject-after-condition', '\tmatch header "To" /user1@/ reject\n\tmatch all move "%s"\n' % dst, True),
        ('reject-in-later-rule', '\tmatch header "To" /nobody/ move "%s"\n\tmatch ! new or old reject\n' % dst, True),
        ('reject-nested', '\tmatch header "To" /user/ {\n\t\tmatch new reject\n\t\tmatch all move "%s"\n\t}\n' % dst, True),
        ('reject-nested-twice', '\tmatch all {\n\t\tmatch all {\n\t\t\tmatch body /x/ reject\n\t\t}\n\t\tmatch all move "%s"\n\t}\n' % dst, True),
    ]
    companions = [
        ('alone', '', ''),
        ('stdin-block-after', '', 'stdin {\n\tmatch all move "%s"\n}\n' % dst2),
        ('stdin-block-before', 'stdin {\n\tmatch all move "%s"\n}\n' % dst2, ''),
        ('stdin-block-with-reject-after', '', 'stdin {\n\tmatch header "To" /user5/ reject\n\tmatch all move "%s"\n}\n' % dst2),
        ('maildir-block-after', '', 'maildir "%s" {\n\tmatch all move "%s"\n}\n' % (md3, dst2)),
        ('maildir-block-before', 'maildir "%s" {\n\tmatch all move "%s"\n}\n' % (md3, dst2), ''),
    ]
    out = []
    for lname, paths in lists:
        forms = [('list', 'maildir { %s } {\n' % ' '.join('"%s"' % p for p in paths))]
        if len(paths) == 1:
            forms.append(('single', 'maildir "%s" {\n' % paths[0]))
        if paths == [STDIN_PATH]:
            forms.append(('keyword', 'stdin {\n'))
        for fname, head in forms:
            for bname, body, has_reject in bodies:
                for cname, before, after in companions:
                    if fname == 'keyword' and 'stdin-block' in cname:
                        exp = 'reject'                       # two stdin blocks
                    elif has_reject and any(p != STDIN_PATH for p in paths):
                        exp = 'reject'
                    elif fname == 'keyword' or (paths and all(p != STDIN_PATH for p in paths)):
                        exp = 'accept'
                    else:
                        exp = 'either'
                    out.append(('path-list:%s:%s:%s:%s' % (lname, fname, bname, cname), before + head + body + '}\n' + after, exp))
    return out


def judge_shape_unit(case, impl):
    name, conf, exp = case
    if impl.startswith('FAULT'):
        return 'the parser crashed: %s' % impl
    if exp == 'reject' and not impl.startswith('ERR'):
        return 'reject in rules that apply to a real maildir (or a second stdin block): the file must be rejected, the parser answered %s' % impl[:200]
    if exp == 'accept' and not impl.startswith('OK'):
        return 'a documented form of maildir / stdin blocks is refused: %s' % impl[:100]
    return None


def judge_shape_process(tools, case, tier='quick'):
    name, conf, exp = case
    probs = []
    if exp == 'reject':
        probs = judge_rejected(tools, name, conf, modes=modes_for(tier))
        return {'kind': 'reject:' + name, 'config': conf, 'problems': probs, 'expected': 'rejected as a whole in every mode'}
    n = run_box(tools, conf, args=['-n'])
    if crashed(n['status']):
        probs.append('%s [-n]: %s' % (name, describe_status(n['status'])))
    elif n['status'] != 0:
        if exp == 'accept':
            probs.append('%s [-n]: a documented form is refused: %r' % (name, n['err'][-200:]))
        else:
            probs += judge_rejected(tools, name, conf, modes=modes_for(tier))          # refused: then as a whole, in every mode
    else:
        for label, args, has_stdin in modes_for(tier)[1:]:
            r = run_box(tools, conf, args=args, stdin=ws.msg(5) if has_stdin else None)
            if crashed(r['status']):
                probs.append('%s [%s]: %s (stderr %r)' % (name, label, describe_status(r['status']), r['err'][-300:]))
            elif '-d' in args and r['changed']:
                probs.append('%s [%s]: the dry run changed files: %s' % (name, label, [c[0] for c in r['changed']][:3]))
    return {'kind': exp + ':' + name, 'config': conf, 'problems': probs,
            'expected': 'accepted' if exp == 'accept' else 'accepted or rejected as a whole, never a crash', 'accepted': n['status'] == 0}


# --------------------------------------------------------------------------
# replay of a recorded case of one of the families
# --------------------------------------------------------------------------

def replay(j, sc):
    """Re-run what a replay file of one of the families records: the configuration (and -D options) through the real parser and the
    parser model, or on the real binary (-n, -d, a real run) with the age-literal / macro population.  -> handled?"""
    import vlib
    level = j.get('level', '')
    if 'config' not in j or not (level.startswith('real parser') or level.startswith('real binary')):
        return False
    print('configuration:\n%s' % j['config'])
    print('what was wrong: %s' % j.get('what'))
    if level.startswith('real parser') and 'request' not in j:
        h = sc.unit_harness('h_parse', ['parse.c'])
        defs = [tuple(d.split('=', 1)) for d in j.get('-D options', [])]
        line = vlib.Differential.line(conf_request(j['config'], defs))
        print('real parser  : %s' % vlib.run_batch([h], [line], dict(vlib.ASAN_ENV, HARNESS_TMP=sc.dir))[0])
        print('parser model : %s' % vlib.run_batch([vlib.driver_path()], ['M ' + line])[0])
        return True
    if level.startswith('real binary'):
        tools = proc.Tools(sc)
        tree = aged_tree(AGE) if 'age-literal' in j.get('kind', '') else None
        dargs = list(j.get('arguments') or [])
        for label, args, has_stdin in MODES[:4]:
            r = run_box(tools, j['config'], args=dargs + args, stdin=ws.msg(5) if has_stdin else None, tree=tree)
            print('[%s] %s; stderr %r; messages now in %s; commands run %d' % (label, describe_status(r['status']), r['err'][-300:], sorted(r['final']), len(r['helper'])))
        return True
    return False
