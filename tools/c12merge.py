"""C12 at process level: an interpolated `move` destination combined with `flag` actions of the same rule.

`matches_merge` (match.c) combines a move and a flag entry into one; the destination the message finally gets must still be the
INTERPOLATED destination of the move ("\\N and \\M.N are replaced by exactly the text captured by the corresponding pattern of the
same rule ... in move ... arguments"), in the subdirectory the flag action names.  Real binary, no faults; judged by the documented
meaning only: the message ends in <D with the capture substituted>/<new|cur>, exit status 0.

Known finding F26 (KNOWN_FINDINGS.txt, class `move-template-lost-in-flag-merge`): when the flag action FOLLOWS the interpolated move
the surviving entry is of type flag and match_interpolate() never interpolates its path - the run fails with the literal template
as directory, the message stays where it was (or half-way through the rule's earlier actions).  Exactly that outcome, for exactly
that order, is the listed finding; anything else that deviates is a violation.
"""
import os
import proc
import worldscen as ws

R = '@R@'
MSG = b'To: u@example.com\nX-Folder: ab\nX-Id: 1\nSubject: s\n\nbody\n'


def cases():
    C = []
    cond = 'header "X-Folder" /(.+)/'
    for tmpl, sub0 in (('%s/dst/\\1' % R, 'new'), ('%s/dst/x\\0' % R, 'new'), ('%s/dst/\\1' % R, 'cur')):
        folder = 'ab' if '\\1' in tmpl else 'xab'
        for order, acts, want_sub in (
                ('move-only', 'move "%s"' % tmpl, sub0),
                ('flag-then-move', 'flag !new move "%s"' % tmpl, 'cur'),
                ('flagnew-then-move', 'flag new move "%s"' % tmpl, 'new'),
                ('move-then-flag', 'move "%s" flag !new' % tmpl, 'cur'),
                ('move-then-flagnew', 'move "%s" flag new' % tmpl, 'new'),
                ('label-move-flag', 'label "l" move "%s" flag !new' % tmpl, 'cur')):
            C.append({'name': '%s/%s/%s' % (order, folder, sub0), 'conf': 'maildir "%s/src" {\n\tmatch %s %s\n}\n' % (R, cond, acts),
                      'folder': folder, 'sub0': sub0, 'want': 'dst/%s/%s' % (folder, want_sub), 'flag_after_move': order in ('move-then-flag', 'move-then-flagnew', 'label-move-flag')})
    return C


def stage(rep, tools):
    stat = {'runs': 0, 'as_documented': 0, 'known_F26': 0, 'violations': 0}
    for c in cases():
        tree = {}
        name = '1.host' if c['sub0'] == 'new' else '1.host:2,S'
        tree.update(proc.maildir_tree('src', {(c['sub0'], name): MSG}))
        tree.update(proc.maildir_tree('dst/' + c['folder'], {}))
        scen = ws.Spec(c['name'], c['conf'], [], tree=tree).build(tools)
        try:
            r = scen.run(shim=False, trace=False)
            files = ws.maildir_files(r.final)
        finally:
            scen.cleanup()
        stat['runs'] += 1
        where = sorted(os.path.dirname(rel) for rel in files)
        ok = r.status == 0 and where == [c['want']]
        if ok:
            stat['as_documented'] += 1
            continue
        err = r.err.decode('latin-1')
        payload = {'stage': 'c12merge', 'scenario': c['name'], 'config': c['conf'], 'documented_destination': c['want'],
                   'exit_status': r.status, 'stderr': err[-400:].replace(scen.root, R), 'message_found_in': where,
                   'what': 'the message is not at the interpolated destination of its move action'}
        literal = ('\\1' in err or '\\0' in err) and r.status != 0 and where in (['src/new'], ['src/cur'])
        if c['flag_after_move'] and literal:
            stat['known_F26'] += 1
            rep.finding('move-template-lost-in-flag-merge', payload)
        else:
            stat['violations'] += 1
            rep.finding('unlisted', payload)
    return stat
