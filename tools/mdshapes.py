"""Maildir SHAPES: configured maildirs that are not (complete) maildirs, next to healthy ones.

A maildir is a directory with the sub-directories new/, cur/ and tmp/.  What the world scenarios of the other families hold are
complete maildirs only; what a user's configuration names after a restore, a half-finished `mkdir`, a typo or on a file system
in trouble is often something else.  This family builds one maildir `brk` in every shape below, alone, next to a healthy maildir
in the same block and in another block (in both orders), and as the DESTINATION of a move, and states what C05 and C04 say:

* under `-d` and `-n` the tree is exactly as before (names, kinds, contents, modification times, also of the directories): a run
  that only looks never creates, repairs or removes anything (judged by tools/props/c05.py like every other configuration);
* under `-d` a walked maildir that cannot be read is an error of the run (non-zero exit status, a diagnostic naming it);
* in a real run a maildir that cannot be read is an error for THAT maildir (non-zero exit status, a diagnostic naming it),
  no directory appears or disappears anywhere, every message exists exactly once and unchanged, and the healthy maildir of the same
  configuration is processed as if the broken one were not there (`judge_real`).

"Unreadable" cannot be had with permission bits (the checks run as root): the shim fails the `opendir` of that path with EACCES.
"""
import os
import re
import proc
import worldscen as ws

R = '@R@'

# which sub-directories mdsort needs of a maildir it WALKS: new/ then cur/; tmp/ is never opened
SHAPES = {}


def shape(name, healthy=False, conformable=True, fail_on=None):
    def deco(f):
        SHAPES[name] = {'name': name, 'apply': f, 'healthy': healthy, 'conformable': conformable, 'fail_on': fail_on}
        return f
    return deco


def drop(tree, prefix):
    for k in [k for k in tree if k == prefix or k.startswith(prefix + '/')]:
        del tree[k]


@shape('no-cur')
def _no_cur(t):
    drop(t, 'brk/cur')


@shape('no-new')
def _no_new(t):
    drop(t, 'brk/new')


@shape('no-new-no-cur')
def _no_new_no_cur(t):
    drop(t, 'brk/new')
    drop(t, 'brk/cur')


@shape('empty-root')
def _empty_root(t):
    drop(t, 'brk')
    t['brk'] = None


@shape('no-tmp', healthy=True)
def _no_tmp(t):
    drop(t, 'brk/tmp')


@shape('new-is-file')
def _new_is_file(t):
    drop(t, 'brk/new')
    t['brk/new'] = b'To: nobody\nX-Id: 91\n\na regular file called new\n'


@shape('cur-is-file')
def _cur_is_file(t):
    drop(t, 'brk/cur')
    t['brk/cur'] = b''


@shape('cur-is-symlink-to-directory', healthy=True, conformable=False)
def _cur_is_symlink(t):
    # a link to a directory IS a directory for opendir(3): the messages behind it are messages of this maildir
    for k in [k for k in t if k.startswith('brk/cur/')]:
        t['elsewhere/' + k[len('brk/cur/'):]] = t.pop(k)
    drop(t, 'brk/cur')
    t.setdefault('elsewhere', None)
    t['brk/cur'] = ('symlink', R + '/elsewhere')


@shape('new-is-dangling-symlink', conformable=False)
def _new_is_dangling(t):
    drop(t, 'brk/new')
    t['brk/new'] = ('symlink', R + '/nowhere')


@shape('root-missing')
def _root_missing(t):
    drop(t, 'brk')


@shape('root-is-file')
def _root_is_file(t):
    drop(t, 'brk')
    t['brk'] = b'not a directory\n'


@shape('root-is-symlink-to-maildir', healthy=True, conformable=False)
def _root_is_symlink(t):
    for k in [k for k in t if k == 'brk' or k.startswith('brk/')]:
        t['real' + k[3:]] = t.pop(k)
    t['brk'] = ('symlink', R + '/real')


@shape('unreadable-new', fail_on=('opendir', '/brk/new', 'EACCES'))
def _unreadable_new(t):
    pass


@shape('unreadable-cur', fail_on=('opendir', '/brk/cur', 'EACCES'))
def _unreadable_cur(t):
    pass


ACTIONS = {
    'move': 'match all move "%s/dst"' % R,
    'flag': 'match new flag !new',
}

# layout -> configuration; `ok` is the healthy maildir
LAYOUTS = {
    'alone': 'maildir "{R}/brk" {{\n\t{A}\n}}\n',
    'same-block-first': 'maildir {{ "{R}/brk" "{R}/ok" }} {{\n\t{A}\n}}\n',
    'same-block-last': 'maildir {{ "{R}/ok" "{R}/brk" }} {{\n\t{A}\n}}\n',
    'other-block-first': 'maildir "{R}/brk" {{\n\t{A}\n}}\nmaildir "{R}/ok" {{\n\t{A}\n}}\n',
    'other-block-last': 'maildir "{R}/ok" {{\n\t{A}\n}}\nmaildir "{R}/brk" {{\n\t{A}\n}}\n',
    'destination': 'maildir "{R}/ok" {{\n\tmatch all move "{R}/brk"\n}}\n',
}


def base():
    t = {}
    t.update(proc.maildir_tree('brk', {('new', '1.host'): ws.msg(1), ('new', '2.host'): ws.msg(2), ('cur', '3.host:2,S'): ws.msg(3)}))
    t.update(proc.maildir_tree('ok', {('new', '4.host'): ws.msg(4), ('cur', '5.host:2,S'): ws.msg(5)}))
    t.update(proc.maildir_tree('dst', {}))
    return t


def backdate(tree):
    """Every directory of the tree (and the directories above its entries) gets a modification time in the past: an entry created,
    removed or renamed in it during the run is then visible in the directory's own modification time."""
    dirs = set()
    for rel, d in tree.items():
        if d is None:
            dirs.add(rel)
        parts = rel.split('/')[:-1]
        for i in range(1, len(parts) + 1):
            dirs.add('/'.join(parts[:i]))
    # a path that is a symbolic link in the tree is not a directory of its own
    links = {rel for rel, d in tree.items() if isinstance(d, tuple) and d[0] == 'symlink'}
    return {d: (ws.NOW - (7 + k) * ws.DAY) * 10**9 + 4242 for k, d in enumerate(sorted(dirs)) if d not in links}


def specs(tier='quick'):
    out = []
    for sname, sh in SHAPES.items():
        for lname, ltext in LAYOUTS.items():
            for aname, atext in ACTIONS.items():
                if aname != 'move' and lname not in ('alone', 'same-block-first'):
                    continue
                if lname == 'destination' and aname != 'move':
                    continue
                t = base()
                sh['apply'](t)
                conf = ltext.format(R=R, A=atext)
                sp = ws.Spec('shape-%s-%s-%s' % (sname, lname, aname), conf, [], tree=t, mtimes=backdate(t))
                sp.shape, sp.layout, sp.action = sname, lname, aname
                sp.fail_on = sh['fail_on']
                sp.conformable = sh['conformable']
                # is the run expected to report an error?  as a destination, new/ and cur/ are both needed (a message of new/ and one
                # of cur/ are moved there); tmp/ never
                sp.broken = not sh['healthy']
                sp.walks_brk = lname != 'destination'
                out.append(sp)
    return out


def fault_plan(scen, fail_on):
    """`k:ERRNO` for the first call `name` on a path ending in `suffix` of a fault-free run with the scenario's current arguments
    (None if the run never issues it, e.g. under -n); the sandbox is reset afterwards."""
    name, suffix, errno = fail_on
    r = scen.run()
    scen.reset()
    for c in r.calls():
        if c['name'] == name and proc.unescape(c['args'].get('path', '')).decode('latin-1').endswith(suffix):
            return '%d:%s' % (c['k'], errno)
    return None


def kinds(snap, what):
    return {rel: (v[1] if what == 'symlink' else None) for rel, v in snap.items() if v[0] == what}


def judge_real(spec, scen, r):
    """Problems of a REAL run over a configuration with a maildir of this shape (see the module text)."""
    probs = []
    ini, fin = scen.initial, r.final
    err = r.err.decode('latin-1')
    if not isinstance(r.status, int) or r.status < 0 or r.status >= 126:
        probs.append('abnormal termination (exit status %r): %s' % (r.status, err[-200:]))
    # nothing but messages moves: directories, links, files outside new/ and cur/ are what they were
    for what in ('dir', 'symlink'):
        a, b = kinds(ini, what), kinds(fin, what)
        for rel in sorted(set(a) | set(b)):
            if rel.startswith('tmp') or rel == 'home':
                continue
            if rel not in b:
                probs.append('%s %s disappeared' % (what, rel))
            elif rel not in a:
                probs.append('%s %s was created' % (what, rel))
            elif a[rel] != b[rel]:
                probs.append('%s %s changed' % (what, rel))
    # (the directory behind a link called cur holds messages like any cur/)
    is_place = lambda rel: bool(re.search(r'(^|/)(new|cur)/[^/]+$', rel)) or rel.startswith('elsewhere/')
    for rel, v in ini.items():
        if v[0] == 'file' and not is_place(rel) and not rel.startswith('tmp'):
            if rel not in fin or fin[rel][:2] != v[:2]:
                probs.append('file %s (not a message of a maildir) changed or disappeared' % rel)
    for rel, v in fin.items():
        if v[0] not in ('dir', 'symlink') and rel not in ini and not is_place(rel):
            probs.append('%s appeared' % rel)
    left = ws.tmp_entries(fin)
    if left:
        probs.append('left behind in TMPDIR: %s' % left[:3])
    # every message exactly once, unchanged (the actions of this family rewrite nothing)
    where = {}
    for rel, v in fin.items():
        if v[0] == 'file' and v[1] is not None:
            i = ws.msg_id(v[1])
            if i is not None:
                where.setdefault(i, []).append(rel)
    for rel, v in ini.items():
        if v[0] != 'file':
            continue
        i = ws.msg_id(v[1])
        if i is None:
            continue
        places = where.get(i, [])
        if len(places) != 1:
            probs.append('message %d (%s) exists %d times afterwards: %s' % (i, rel, len(places), places))
        elif fin[places[0]][1] != v[1]:
            probs.append('message %d (%s) changed' % (i, rel))
    # exit status and diagnostic
    if spec.broken:
        if r.status == 0:
            probs.append('a maildir that cannot be read (%s) and exit status 0' % spec.shape)
        if 'brk' not in err:
            probs.append('no diagnostic names the maildir that cannot be read: %r' % err[-200:])
    else:
        if r.status != 0 or err:
            probs.append('complete for mdsort (%s) but exit status %r, diagnostic %r' % (spec.shape, r.status, err[-200:]))
    # the healthy maildir is processed as if the other one were not there
    def at(i):
        return (where.get(i) or ['?'])[0]
    if spec.layout == 'destination':
        if not spec.broken:
            for i, sub in ((4, 'new'), (5, 'cur')):
                if not re.match(r'(brk|real)/%s/' % sub, at(i)) and not (sub == 'cur' and at(i).startswith('elsewhere/')):
                    probs.append('message %d was not moved to the destination: %s' % (i, at(i)))
    elif spec.action == 'move':
        if spec.layout != 'alone':
            for i, sub in ((4, 'new'), (5, 'cur')):
                if not at(i).startswith('dst/%s/' % sub):
                    probs.append('message %d of the healthy maildir was not moved to dst/%s: %s' % (i, sub, at(i)))
        if not spec.broken:
            for i, sub in ((1, 'new'), (2, 'new'), (3, 'cur')):
                if not at(i).startswith('dst/%s/' % sub):
                    probs.append('message %d of a maildir complete for mdsort was not moved to dst/%s: %s' % (i, sub, at(i)))
    elif spec.action == 'flag':
        if spec.layout != 'alone' and not re.match(r'ok/cur/[^/]*:2,S$', at(4)):
            probs.append('message 4 of the healthy maildir was not flagged as seen: %s' % at(4))
    return probs


def run_real(tools, spec):
    """The REAL run over a configuration with a maildir that is not a complete maildir (mdshapes): the control of the family (the
    scenario does what its name says) and the C04 side of it."""
    scen = spec.build(tools)
    try:
        fail = fault_plan(scen, spec.fail_on) if spec.fail_on else None
        r = scen.run(fail=fail)
        return {'scenario': spec.name, 'flag': 'real run', 'status': r.status, 'problems': judge_real(spec, scen, r),
                'config': scen.config.replace(scen.root, '@R@')[:600], 'fault_plan': fail, 'conform': 'skipped', 'ncalls': len(r.calls()),
                'stderr': r.err[-300:].decode('latin-1').replace(scen.root, '@R@'),
                'moved': len([k for k in r.final if k.startswith('dst/') and r.final[k][0] == 'file'])}
    finally:
        scen.cleanup()


def stage_real(rep, tools, tier='quick'):
    """The C04 side on its own (hooked by tools/props/c04.py): the real runs of the family, judged by `judge_real`."""
    import concurrent.futures as cf
    import vlib
    sp = specs(tier)
    with cf.ThreadPoolExecutor(vlib.NCPU) as ex:
        res = list(ex.map(lambda s: run_real(tools, s), sp))
    by = {s.name: s for s in sp}
    for r in res:
        if r['problems']:
            s = by[r['scenario']]
            rep.finding('unlisted', {'scenario': r['scenario'], 'exit_status': r['status'], 'what': r['problems'][:6], 'config': r['config'],
                                     'maildir_shape': {'shape': s.shape, 'layout': s.layout, 'action': s.action}, 'fault_plan': r['fault_plan'],
                                     'stderr': r['stderr']})
    return {'real_runs': len(res), 'reporting_an_error': len([r for r in res if r['status'] != 0]),
            'that_moved_messages_of_the_healthy_maildir': len([r for r in res if r.get('moved')]),
            'rule': 'tools/mdshapes.py: a configured maildir in %d shapes that are not a complete maildir x %d layouts next to a healthy one: '
                    'non-zero exit status and a diagnostic naming it iff mdsort needs a directory that is not there, nothing created or '
                    'removed, every message exactly once and unchanged, the healthy maildir processed' % (len(SHAPES), len(LAYOUTS))}
