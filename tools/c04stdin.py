"""C04 - the stdin-delivery fault family (the MDA contract under every single failure of the delivery path).

Property text (C04): "When the message is read from stdin the status is 75 for every kind of failure, 1 only for a matched reject, and
0 only if the message was stored intact at its destination or deliberately discarded; the temporary spool directory is removed before
mdsort exits."

Scenarios = what the configuration does with the message x how large the message is:

  kinds   move | label + move | move to another device than TMPDIR (the spool is copied, not renamed) | discard | reject |
          no rule matches
  sizes   0 bytes, a small message, and one byte below / exactly / one byte above the size of the spool buffer of maildir_stdin,
          two buffers, several buffers plus a rest (the buffer size is not assumed: it is the count of the first read(2) of
          descriptor 0 in a traced run)

For every scenario the fault-free traced run gives the call sequence; then ONE run per (call index, failure that call can exhibit):
the row of DESIGN Appendix C for that call (worldscen.ERRNOS: errno failures, short read, short write of 1 byte / of half the count,
EINTR / EAGAIN on read and write, fsync / close / fclose failures, mkdtemp / mkdir / opendir / openat / renameat / readdir / unlinkat /
rmdir ...), and for every transfer call also two failures in a row: two short counts in a row (1 byte, half), a short count
followed by ENOSPC / EIO (the disk-full and the failing-device pattern), EINTR followed by a short count.

Oracle - the property text only, evaluated on the real final tree (`judge`):
  * the exit status is 0, 1 or 75; 1 only when a reject rule matched; after a failure that was injected and fired the status is 75 -
    unless the call is one of the listed ignored sites (F17a-e, classified exactly as the C01 check does: props.c01.ignored_class), a
    short count (which the program has to make up for) or EINTR / EAGAIN (which it may retry);
  * exit status 0  =>  kind move / label / other device: the destination holds exactly ONE message and it is byte-identical to what was
    on stdin (label: identical but for the X-Label header, which has the documented value), nothing else in any maildir;
    kind discard / no rule matches: nothing in any maildir;  kind reject: never 0;
  * exit status != 0  =>  no partial, empty or second file in any maildir (an MTA that retries must not find a torn copy; one
    complete copy is not a loss);
  * TMPDIR holds nothing afterwards - except when the failing call is at or after the rewinddir of the best-effort spool removal
    (known finding F17e `ignored-spool-cleanup`, as in C01 / C05).
Runs of the small and at-the-buffer sizes are also followed call by call through Model.mainP (`M conform`).
"""
import concurrent.futures as cf
import json
import re
import vlib
import proc
import world
import worldscen as ws
from props import c01

R = '@R@'
LABEL = b'in'

# kind -> (configuration, patterns of the configuration in order, device map)
KINDS = {
    'move': ('stdin {\n\tmatch all move "%s/dst"\n}\n' % R, [], ()),
    'label-move': ('stdin {\n\tmatch all label "in" move "%s/dst"\n}\n' % R, [], ()),
    'move-other-device': ('stdin {\n\tmatch all move "%s/dst"\n}\n' % R, [], ('%s/tmp' % R,)),
    'discard': ('stdin {\n\tmatch header "X-Skip" /yes/ move "%s/other"\n\tmatch all discard\n}\n' % R, [('yes', '')], ()),
    'reject': ('stdin {\n\tmatch all reject\n}\n', [], ()),
    'no-match': ('stdin {\n\tmatch header "X-Skip" /yes/ move "%s/dst"\n}\n' % R, [('yes', '')], ()),
}
STORES = ('move', 'label-move', 'move-other-device')
# failures in a row for a transfer call at index k (the second one hits whatever call k + 1 turns out to be)
PAIRS = {
    'write': [('short', 'short'), ('shorthalf', 'shorthalf'), ('short', 'ENOSPC'), ('shorthalf', 'EIO'), ('EINTR', 'short')],
    'read': [('short', 'short'), ('EINTR', 'shorthalf'), ('short', 'EIO')],
}


def message(n, labelled=False):
    """A message of exactly n bytes (n = 0: empty standard input); distinct numbered body lines, so that a hole, a repeated or a
    shifted block shows."""
    if n == 0:
        return b''
    head = b'To: user7@example.com\nX-Id: 7\n' + (b'X-Label: old\n' if labelled else b'') + b'Subject: message 7\n\n'
    assert n >= len(head) + 2, 'a message with this header block has at least %d bytes' % (len(head) + 2)
    return head + ws.text_body(n - len(head))


def buffer_size(tools):
    """The count maildir_stdin passes to read(2) on standard input."""
    conf, pats, dev = KINDS['discard']
    spec = ws.Spec('probe', conf, pats, tree=proc.maildir_tree('dst', {}), stdin=message(100), args=['-'], kind='stdin', stdin_file=True)
    scen = spec.build(tools)
    try:
        r = scen.run()
        for c in r.calls():
            if c['name'] == 'read' and c['args'].get('fd') == '0':
                return int(c['args']['n'])
    finally:
        scen.cleanup()
    raise vlib.CheckError('no read of standard input in a stdin run')


def sizes(B, tier):
    s = [0, 120, B - 1, B, B + 1, 2 * B, 3 * B + 17]
    if tier != 'quick':
        s += [B // 2, 2 * B - 1, 2 * B + 1, 5 * B, 8 * B + 4095]
    return s


def scenarios(B, tier):
    out = []
    for kind, (conf, pats, dev) in KINDS.items():
        for j, n in enumerate(sizes(B, tier)):
            if n == 0 and kind in ('label-move', 'move-other-device'):
                continue            # writing a file without a header block again (label, copy to another device) is C08's subject (F16b: an
                                    # empty line is inserted), not the delivery contract's
            if tier == 'quick' and kind in ('move-other-device', 'discard', 'no-match', 'reject') and n in (B - 1, 2 * B):
                continue            # (these kinds differ from `move` only after the spool is complete)
            tree = {}
            tree.update(proc.maildir_tree('dst', {}))
            tree.update(proc.maildir_tree('other', {}))
            labelled = kind == 'label-move' and j % 2 == 1      # every other one already carries an X-Label header
            m = message(n, labelled)
            sp = ws.Spec('%s/%d' % (kind, n), conf, pats, tree=tree, stdin=m, args=['-'], kind='stdin', devmap=dev, stdin_file=True)
            sp.c04kind, sp.c04size, sp.c04labelled = kind, n, labelled
            out.append(sp)
    return out


def plans(calls, tier):
    """[(plan string, fault indices, (call, failure) description)] for one fault-free call sequence."""
    out = []
    for k, c in enumerate(calls):
        n = c['name']
        row = list(ws.ERRNOS.get(n, ['EIO']))
        if tier == 'quick':
            # the first two of the row, and for the transfer calls every SHAPE of failure (short counts, try-again results)
            row = row[:2] + [e for e in row[2:] if e in ('short', 'shorthalf', 'EINTR', 'EAGAIN')]
        for e in row:
            out.append(('%d:%s' % (k, e), [k], [e]))
        for a, b in PAIRS.get(n, []):
            out.append(('%d:%s,%d:%s' % (k, a, k + 1, b), [k, k + 1], [a, b]))
    return out


def maildir_files(snap):
    """Regular files below a new/ or cur/ of a maildir of the sandbox (the spool below tmp/ is not a maildir of the user)."""
    return {rel: d for rel, d in ws.maildir_files(snap).items() if not rel.startswith('tmp/')}


def split(m):
    head, sep, body = m.partition(b'\n\n')
    return head.split(b'\n'), body


def label_ok(orig, stored):
    """`stored` is `orig` after label "in": every other header line in order, the same body, one X-Label header with the old labels
    followed by the new one."""
    ho, bo = split(orig)
    hs, bs = split(stored)
    if bo != bs:
        return False
    xl = [l for l in hs if l.lower().startswith(b'x-label:')]
    old = [l for l in ho if l.lower().startswith(b'x-label:')]
    if [l for l in hs if l not in xl] != [l for l in ho if l not in old] or len(xl) != 1:
        return False
    want = (old[0].split(b':', 1)[1].strip() + b' ' if old else b'') + LABEL
    return xl[0].split(b':', 1)[1].strip() == want


def intact(kind, orig, data):
    return data == orig or (kind == 'label-move' and label_ok(orig, data))


def hard(call_name, e):
    """A failure the program has to report (not a short count it has to make up for, not a try-again result it may retry)."""
    return e not in ('short', 'shorthalf') and not ws.may_retry(call_name, e)


def judge(kind, orig, calls, idx, specs, r, fired):
    """The MDA contract on one run.  -> (problems, excused classes)"""
    probs, excused = [], []
    files = maildir_files(r.final)
    classes = [c01.ignored_class('stdin', calls[k], calls, k) if k < len(calls) else None for k in idx]
    cleanup = 'ignored-spool-cleanup' in classes
    if r.status not in (0, 1, 75):
        probs.append('exit status %r (a delivery agent reports 0, 1 or 75): %s' % (r.status, r.err[-200:].decode('latin-1')))
    if r.status == 1 and kind != 'reject':
        probs.append('exit status 1 although no reject rule matched')
    if r.status == 0 and kind == 'reject':
        probs.append('exit status 0 although the reject rule matches every message')
    # a failure that fired is reported as 75 ...
    first_hard = None
    for k, e, cls in zip(idx, specs, classes):
        if k < len(calls) and hard(calls[k]['name'], e):
            first_hard = (k, e, cls)
            break
    if fired and first_hard is not None and r.status in (0, 1):
        k, e, cls = first_hard
        # (in a two-failure plan the second failure may never be reached, or hit another call than in the fault-free sequence:
        # only the FIRST entry of the plan is certain to have fired at the call it was meant for)
        if k == idx[0]:
            if cls is None:
                probs.append('%s at call %d (%s) and exit status %d: the failure is not reported as 75' % (e, k, calls[k]['name'], r.status))
            else:
                excused.append(cls)
    # ... and 0 means stored intact (or disposed of as configured)
    if r.status == 0:
        if kind in STORES:
            at_dst = {rel: d for rel, d in files.items() if rel.startswith('dst/new/')}
            if len(at_dst) != 1:
                probs.append('exit status 0 and %d messages at the destination' % len(at_dst))
            for rel, d in at_dst.items():
                if not intact(kind, orig, d):
                    probs.append('exit status 0 and the stored message %s (%d bytes) is not the message that was on stdin (%d bytes): %s'
                                 % (rel, len(d), len(orig), first_difference(orig, d)))
            for rel in files:
                if rel not in at_dst:
                    probs.append('exit status 0 and a file outside the destination: %s' % rel)
        elif files:
            probs.append('exit status 0, nothing was to be stored (%s), yet files appeared: %s' % (kind, sorted(files)))
    else:
        copies = 0
        for rel, d in files.items():
            if kind in STORES and intact(kind, orig, d) and rel.startswith('dst/new/'):
                copies += 1
            else:
                probs.append('exit status %s and a partial, empty or misplaced file in a maildir: %s (%d bytes of %d)' % (r.status, rel, len(d), len(orig)))
        if copies > 1:
            probs.append('exit status %s and %d copies of the message' % (r.status, copies))
    left = ws.tmp_entries(r.final)
    if left:
        if cleanup:
            excused.append('ignored-spool-cleanup')
        else:
            probs.append('the spool is still in TMPDIR: %s' % left[:3])
    return probs, excused


def first_difference(a, b):
    n = min(len(a), len(b))
    i = next((j for j in range(n) if a[j] != b[j]), n)
    return 'first difference at byte %d: stdin %r, stored %r' % (i, a[i:i + 40], b[i:i + 40])


def sweep(tools, W, spec, tier, B):
    out = []
    scen = spec.build(tools)
    kind, orig = spec.c04kind, spec.stdin
    conformable = spec.c04size <= B + 1
    try:
        clean = scen.run()
        calls = clean.calls()
        probs, _ = judge(kind, orig, calls, [], [], clean, False)
        want = 1 if kind == 'reject' else 0
        if clean.status != want:
            probs.append('fault-free run exits %r, documented %d: %s' % (clean.status, want, clean.err[-200:].decode('latin-1')))
        reqs, metas = [], []
        rq = W.request(scen, spec.pats, clean, stdin=True)[0] if conformable else None
        metas.append((None, [], [], clean, False, probs, []))
        reqs.append(rq)
        for plan, idx, specs in plans(calls, tier):
            scen.reset()
            r = scen.run(fail=plan)
            fired = any(t.get('fault') for t in r.trace if t['kind'] == 'call')
            probs, excused = judge(kind, orig, calls, idx, specs, r, fired)
            metas.append((plan, idx, specs, r, fired, probs, excused))
            reqs.append(W.request(scen, spec.pats, r, stdin=True)[0] if conformable else None)
        answers = iter(W.verdict([q for q in reqs if q is not None]))
        for (plan, idx, specs, r, fired, probs, excused), rq in zip(metas, reqs):
            conform = 'skipped'
            if rq is not None:
                k, detail = world.compare(scen, r, next(answers))
                conform = 'ok' if k == 'ok' else k + ': ' + detail[:300]
            out.append({'kind': kind, 'size': spec.c04size, 'labelled': spec.c04labelled, 'plan': plan, 'status': r.status, 'fired': fired, 'problems': probs,
                        'excused': excused, 'conform': conform, 'ncalls': len(calls) if plan is None else None,
                        'call': calls[idx[0]]['raw'].replace(scen.root, R)[:160] if idx else '',
                        'stderr': r.err[-200:].decode('latin-1').replace(scen.root, R) if probs else ''})
        return out
    finally:
        scen.cleanup()


def stage(rep, tools, W):
    """Runs the family, reports findings, returns the coverage record."""
    B = buffer_size(tools)
    specs = scenarios(B, rep.tier)
    results = []
    with cf.ThreadPoolExecutor(vlib.NCPU) as ex:
        for res in ex.map(lambda s: sweep(tools, W, s, rep.tier, B), specs):
            results.extend(res)
    conf = {k: v[0] for k, v in KINDS.items()}
    nrep, corr = 0, []
    for r in results:
        if r['problems']:
            nrep += 1
            if nrep <= 8:
                rep.finding('unlisted', {'family': 'stdin-delivery', 'harness': 'process (real binary under the shim)', 'scenario': r['kind'],
                                         'stdin_bytes': r['size'], 'stdin_has_x_label': r['labelled'], 'spool_buffer_bytes': B, 'fault_plan': r['plan'], 'call': r['call'],
                                         'exit_status': r['status'], 'what': r['problems'][:6], 'stderr': r['stderr'], 'config': conf[r['kind']],
                                         'replay_cmd': 'python3 tools/check.py C04 --replay <this file>'})
        elif r['conform'] not in ('ok', 'skipped'):
            corr.append(r)
    if corr and not rep.violations:
        rep.violation({'obligation': 'correspondence: a stdin delivery under an injected failure does not follow Model.mainP; the MDA '
                                     'contract evaluated on the real tree found nothing wrong', 'disagreements': len(corr), 'examples': corr[:6]}, False)
    exc = {}
    for r in results:
        for c in r['excused']:
            exc[c] = exc.get(c, 0) + 1
    hist = {}
    for r in results:
        hist[str(r['status'])] = hist.get(str(r['status']), 0) + 1
    return {
        'spool_buffer_bytes': B, 'scenarios': [s.name for s in specs], 'runs': len(results),
        'faults_fired': len([r for r in results if r['fired']]), 'two_failures_in_a_row': len([r for r in results if r['plan'] and ',' in r['plan']]),
        'failing': nrep, 'followed_through_model': len([r for r in results if r['conform'] != 'skipped']), 'nonconforming': len(corr),
        'exit_status_histogram': hist, 'excused_as_known_findings_of_C01': exc,
        'calls_per_scenario': {'%s/%d' % (r['kind'], r['size']): r['ncalls'] for r in results if r['plan'] is None},
        'rule': 'kinds x message sizes (0, small, buffer-1, buffer, buffer+1, 2 buffers, 3 buffers+17; thorough more); one run per (call '
                'index, failure of that call: Appendix C row; quick = its first two entries plus every short count / EINTR / EAGAIN) and per '
                'pair of failures in a row at a transfer call (short+short, half+half, short+ENOSPC, half+EIO, EINTR+short); oracle = the '
                'MDA contract of the property text on the real tree (see tools/c04stdin.py); F17a-e classified by props.c01.ignored_class',
    }


def replay(rep, tools, j):
    kind, n = j['scenario'], j['stdin_bytes']
    conf, pats, dev = KINDS[kind]
    tree = {}
    tree.update(proc.maildir_tree('dst', {}))
    tree.update(proc.maildir_tree('other', {}))
    labelled = bool(j.get('stdin_has_x_label'))
    spec = ws.Spec('replay', conf, pats, tree=tree, stdin=message(n, labelled), args=['-'], kind='stdin', devmap=dev, stdin_file=True)
    scen = spec.build(tools)
    try:
        clean = scen.run()
        scen.reset()
        r = scen.run(fail=j.get('fault_plan'))
        print('exit status', r.status)
        print(r.err.decode('latin-1'))
        for t in r.trace:
            print(t['raw'].replace(scen.root, R)[:200])
        for rel, d in sorted(maildir_files(r.final).items()):
            print('file', rel, len(d), 'bytes;', 'identical to stdin' if d == spec.stdin else first_difference(spec.stdin, d))
        print('TMPDIR:', ws.tmp_entries(r.final))
        idx = [int(p.split(':')[0]) for p in (j.get('fault_plan') or '').split(',') if p]
        sp = [p.split(':')[1] for p in (j.get('fault_plan') or '').split(',') if p]
        fired = any(t.get('fault') for t in r.trace if t['kind'] == 'call')
        print('oracle:', json.dumps(judge(kind, spec.stdin, clean.calls(), idx, sp, r, fired)[0], indent=1))
    finally:
        scen.cleanup()


def unmatched_witness(rep, tools):
    """Known finding F27 (class `stdin-unmatched-dropped`): a message read from stdin that NO rule matches - or for which the
    configuration has no `stdin` block at all - is dropped: exit status 0, stored nowhere ("0 only if the message was stored intact at
    its destination or deliberately discarded").  The repository's own tests pin this behaviour (stdin.sh "maildir rules are skipped",
    "match date modified": both expect exit 0), so it is listed, not repaired.  Fault-free runs; exactly this outcome is the finding,
    exit 75 with nothing stored is the repaired behaviour, anything else is a violation."""
    cases = [('no-rule-matches', 'stdin {\n\tmatch header "X-Skip" /yes/ move "%s/dst"\n}\n' % R),
             ('no-stdin-block', 'maildir "%s/dst" {\n\tmatch all move "%s/other"\n}\n' % (R, R)),
             ('break-only', 'stdin {\n\tmatch all break\n\tmatch all move "%s/dst"\n}\n' % R),
             # a rule matches but stores the message nowhere (no move, no discard): the labelled spool copy is removed with the spool
             ('label-only', 'stdin {\n\tmatch all label "x"\n}\n'),
             ('exec-only', 'stdin {\n\tmatch all exec "true"\n}\n'),
             ('flag-only', 'stdin {\n\tmatch all flag !new\n}\n')]
    stat = {'runs': 0, 'dropped_with_exit_0': 0, 'reported': 0}
    msg = message(120, False)
    for name, conf in cases:
        tree = {}
        tree.update(proc.maildir_tree('dst', {}))
        tree.update(proc.maildir_tree('other', {}))
        scen = ws.Spec('unmatched/' + name, conf, [], tree=tree, stdin=msg, args=['-'], kind='stdin', stdin_file=True).build(tools)
        try:
            r = scen.run()
            files = maildir_files(r.final)
            spool = ws.tmp_entries(r.final)
        finally:
            scen.cleanup()
        stat['runs'] += 1
        payload = {'family': 'stdin-unmatched', 'scenario': name, 'config': conf, 'exit_status': r.status, 'files_in_maildirs': sorted(files),
                   'left_in_TMPDIR': spool, 'stderr': r.err[-200:].decode('latin-1'),
                   'what': 'a message read from stdin that no rule matches: exit status %r, stored in %d places' % (r.status, len(files))}
        if files or spool or r.status not in (0, 75):
            rep.finding('unlisted', payload)
        elif r.status == 0:
            stat['dropped_with_exit_0'] += 1
            rep.finding('stdin-unmatched-dropped', payload)
        else:
            stat['reported'] += 1
    return stat
