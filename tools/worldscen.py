"""Scenario corpus for the world-level checks (C01, C02, C04, C05, C13, C17) and the tree oracles.

Every message carries a unique `X-Id` header so that copies, strays and losses can be told apart
in the final tree whatever happened to names and other headers.
"""
import os
import re
import proc

HELPER = '@HELPER@'


def msg(i, extra=b'', body=None):
    b = body if body is not None else (b'body of message %d\nsecond line\n' % i)
    return b'To: user%d@example.com\nX-Id: %d\nSubject: message %d\n' % (i, i, i) + extra + b'\n' + b


def msg_id(data):
    m = re.search(rb'^X-Id: (\d+)$', data, re.M)
    return int(m.group(1)) if m else None


def base_tree(n_new=2, n_cur=1, extra_dirs=('dst', 'dst2')):
    t = {}
    msgs = {}
    k = 1
    for _ in range(n_new):
        msgs[('new', '%d.host' % k)] = msg(k)
        k += 1
    for _ in range(n_cur):
        msgs[('cur', '%d.host:2,S' % k)] = msg(k, extra=b'X-Label: old\n')
        k += 1
    t.update(proc.maildir_tree('src', msgs))
    for d in extra_dirs:
        t.update(proc.maildir_tree(d, {}))
    return t


NOW = int(proc.PIN['VSHIM_TIME'])     # the clock mdsort sees (pinned by the shim)
HOUR, DAY = 3600, 86400


def clutter(md, now=NOW):
    """What a maildir in use holds besides messages, with modification times around the ages a mail program may care about:
    -> (tree entries, {rel: mtime ns}).  Remains of deliveries in tmp/ (old, just older / just younger than 36 hours, fresh, from the
    future, a dot file, a sub-directory, a dangling link), dot files and empty files in new/ and cur/, files and directories in the
    maildir itself (a note, the `maildirfolder` marker, a Maildir++ sub-folder with a message, another directory)."""
    t, m = {}, {}

    def put(rel, data, age):
        t[md + '/' + rel] = data
        m[md + '/' + rel] = (now - age) * 10**9 + 987654321

    put('tmp/1700000000.1_1.oldhost', b'To: x\n\nremains of an interrupted delivery\n', 100 * DAY)
    put('tmp/1789860000.77_2.host', b'half a mess', 37 * HOUR)
    put('tmp/1789870000.78_3.host', b'To: y\n\nyounger than 36 hours\n', 35 * HOUR)
    put('tmp/1789996400.79_4.host', b'', HOUR)
    put('tmp/1790086400.80_5.host', b'written by a host whose clock is ahead\n', -DAY)
    put('tmp/.lock', b'', 50 * DAY)
    put('tmp/sub/leftover', b'x\n', 60 * DAY)
    put('tmp/dangling', ('symlink', '../cur/nothing-here'), 70 * DAY)
    put('new/.hidden', b'To: dot\n\ndot file in new\n', 40 * DAY)
    put('cur/.nfs0000000000a1b2c3', b'', 45 * DAY)
    put('new/0.empty', b'', 80 * DAY)
    put('cur/0.empty:2,S', b'', 90 * DAY)
    put('notes.txt', b'not a message\n', 30 * DAY)
    put('maildirfolder', b'', 400 * DAY)
    put('.Sub/cur/5.sub:2,S', b'To: sub\nX-Id: 55\n\nmessage of a sub-folder\n', 20 * DAY)
    put('extra/deep/file', b'y\n', 10 * DAY)
    for d in ('.Sub/new', '.Sub/tmp'):
        t[md + '/' + d] = None
    # the directories themselves are old too (a change of their modification time is a change of the maildir)
    for k, d in enumerate(('', 'new', 'cur', 'tmp', 'tmp/sub', '.Sub', '.Sub/new', '.Sub/cur', '.Sub/tmp', 'extra', 'extra/deep')):
        m[(md + '/' + d).rstrip('/')] = (now - (5 + k) * DAY) * 10**9 + 111
    return t, m


def with_clutter(spec, name=None):
    """The scenario `spec` with clutter() in every maildir of its tree."""
    tree, mt = dict(spec.tree), {}
    for rel, d in spec.tree.items():
        if d is None and rel.endswith('/new'):
            ct, cm = clutter(rel[:-4])
            tree.update(ct)
            mt.update(cm)
    s = Spec(name or spec.name + '+clutter', spec.conf, spec.pats, tree=tree, devmap=spec.devmap, stdin=spec.stdin, args=spec.args,
             kind=spec.kind, env=spec.env, stdin_file=spec.stdin_file, mtimes=mt)
    return s


MIME = (b'To: user9@example.com\nX-Id: 9\nSubject: with parts\nContent-Type: multipart/mixed; boundary="b"\n\n'
        b'--b\nContent-Type: text/plain\n\nhello part\n--b\nContent-Type: application/pdf\nContent-Transfer-Encoding: base64\n\naGVsbG8K\n--b--\n')
B64 = b'To: user8@example.com\nX-Id: 8\nSubject: enc\nContent-Transfer-Encoding: base64\n\naGVsbG8gd29ybGQK\n'


class Spec:
    """A scenario description: name, config template, patterns, tree, options."""

    def __init__(self, name, conf, pats=(), tree=None, devmap=(), stdin=None, args=(), kind='maildir', env=None, stdin_file=False, mtimes=None):
        self.name, self.conf, self.pats, self.tree, self.devmap = name, conf, list(pats), tree or base_tree(), tuple(devmap)
        self.stdin, self.args, self.kind, self.env, self.stdin_file = stdin, list(args), kind, env or {}, stdin_file
        self.mtimes = mtimes

    def build(self, tools):
        conf = self.conf.replace('@HELPER@', tools.helper)
        return proc.Scenario(tools, conf, self.tree, stdin=self.stdin, args=self.args, devmap=self.devmap, env=self.env,
                             stdin_file=self.stdin_file, mtimes=self.mtimes)


def text_body(n, tag=b'body'):
    """A body of exactly n bytes (n >= 2) made of distinct numbered lines: a cut, a repeated or a shifted block is visible."""
    out, size, i = [], 0, 0
    while size < n:
        l = b'%s line %06d: the quick brown fox jumps over the lazy dog\n' % (tag, i)
        out.append(l)
        size += len(l)
        i += 1
    return b''.join(out)[:n - 1] + b'\n'


def corpus(big=False):
    """big=True: also the scenarios with messages of several I/O buffers (fault sweeps over them are longer)."""
    R = '@R@'
    S = []
    S.append(Spec('move', 'maildir "%s/src" {\n\tmatch header "To" /user/ move "%s/dst"\n}\n' % (R, R), [('user', '')]))
    S.append(Spec('move-exdev', 'maildir "%s/src" {\n\tmatch all move "%s/dst"\n}\n' % (R, R), [], devmap=('%s/dst' % R,)))
    S.append(Spec('flag', 'maildir "%s/src" {\n\tmatch new flag !new\n\tmatch all flag new\n}\n' % R))
    S.append(Spec('flags', 'maildir "%s/src" {\n\tmatch all flags "FR"\n}\n' % R))
    S.append(Spec('label', 'maildir "%s/src" {\n\tmatch all label "lbl"\n}\n' % R))
    S.append(Spec('add-header', 'maildir "%s/src" {\n\tmatch all add-header "X-Added" "v1"\n}\n' % R))
    S.append(Spec('discard', 'maildir "%s/src" {\n\tmatch header "X-Id" /^1$/ discard\n\tmatch all move "%s/dst"\n}\n' % (R, R), [('^1$', '')]))
    S.append(Spec('exec', 'maildir "%s/src" {\n\tmatch all exec { "%s" "a b" } move "%s/dst"\n}\n' % (R, HELPER, R)))
    S.append(Spec('exec-stdin', 'maildir "%s/src" {\n\tmatch all label "x" exec stdin { "%s" "arg" }\n}\n' % (R, HELPER)))
    t = base_tree(1, 0)
    t['src/new/8.host'] = B64
    S.append(Spec('exec-body', 'maildir "%s/src" {\n\tmatch all exec stdin body "%s" flag !new\n}\n' % (R, HELPER), tree=t))
    t = base_tree(1, 0)
    t['src/new/9.host'] = MIME
    S.append(Spec('attachment-exec', 'maildir "%s/src" {\n\tmatch all attachment { match header "Content-Type" /pdf/ exec stdin "%s" } move "%s/dst"\n}\n' % (R, HELPER, R),
                  [('pdf', '')], tree=t))
    S.append(Spec('label-move-flag', 'maildir "%s/src" {\n\tmatch all label "a" move "%s/dst" flag !new\n}\n' % (R, R), devmap=('%s/dst' % R,)))
    S.append(Spec('pass-chain', 'maildir "%s/src" {\n\tmatch new add-header "X-A" "1" pass\n\tmatch header "X-Id" /2/ label "two" move "%s/dst2"\n\tmatch all flags "T"\n}\n' % (R, R), [('2', '')]))
    # conditions that ask the operating system while the rules are evaluated (Model/EvalP.lean): `command` = util.c exec(argv, -1)
    # = open /dev/null, fork, waitpid, close; `isdirectory` = stat of the interpolated path (a failing stat is "no match");
    # `date modified|created|access` = stat of the message's path (a failing stat is an error).  Several per message, short-circuit.
    S.append(Spec('cond-command',
                  'maildir "%s/src" {\n\tmatch command "true" and header "X-Id" /^1$/ move "%s/dst"\n'
                  '\tmatch command "false" move "%s/dst2"\n'
                  '\tmatch command { "sh" "-c" "exit 3" } or command { "sh" "-c" "exit 200" } or command { "sh" "-c" "kill -TERM $$" } or new '
                  'flag !new\n}\n' % (R, R, R), [('^1$', '')]))
    t = base_tree(2, 1, extra_dirs=('dst', 'dst2', 'box1'))
    S.append(Spec('cond-isdirectory',
                  'maildir "%s/src" {\n\tmatch header "X-Id" /([0-9])/ and isdirectory "%s/box\\1" move "%s/box\\1"\n'
                  '\tmatch isdirectory "%s/nowhere" move "%s/dst2"\n'
                  '\tmatch isdirectory "%s/conf" or ! isdirectory "%s/dst" move "%s/dst2"\n'
                  '\tmatch new and isdirectory "%s/dst" flags "F"\n}\n' % (R, R, R, R, R, R, R, R, R), [('([0-9])', '')], tree=t))
    S.append(Spec('cond-date-file',
                  'maildir "%s/src" {\n\tmatch date modified > 1 year and header "X-Id" /^1$/ move "%s/dst"\n'
                  '\tmatch date created > 1 year move "%s/dst2"\n'
                  '\tmatch date access < 50 years and date modified < 60 years flags "R"\n}\n' % (R, R, R), [('^1$', '')],
                  env={'TZ': 'UTC'}))
    t = base_tree(1, 0)
    t['src/new/9.host'] = MIME
    S.append(Spec('cond-attachment-command',
                  'maildir "%s/src" {\n\tmatch attachment command "true" move "%s/dst"\n'
                  '\tmatch command "false" or isdirectory "%s/dst" flag !new\n}\n' % (R, R, R), tree=t))
    st = {}
    st.update(proc.maildir_tree('dst', {}))
    # (no `isdirectory` here: a failing stat there is "not a directory", i.e. no match - in stdin mode: exit 0, nothing stored;
    # the maildir scenario `cond-isdirectory` covers it, judged by the world model)
    S.append(Spec('stdin-cond', 'stdin {\n\tmatch command "true" and date modified < 1 hour move "%s/dst"\n}\n' % R,
                  tree=st, stdin=msg(3), args=['-'], kind='stdin'))
    S.append(Spec('stdin-move', 'stdin {\n\tmatch all move "%s/dst"\n}\n' % R, tree=st, stdin=msg(7), args=['-'], kind='stdin'))
    S.append(Spec('stdin-label', 'stdin {\n\tmatch all label "in" move "%s/dst"\n}\n' % R, tree=st, stdin=msg(6, extra=b'X-Label: a\n'), args=['-'], kind='stdin'))
    S.append(Spec('stdin-exdev', 'stdin {\n\tmatch all move "%s/dst"\n}\n' % R, tree=st, stdin=msg(5), args=['-'], kind='stdin', devmap=('%s/tmp' % R,)))
    S.append(Spec('stdin-discard', 'stdin {\n\tmatch header "X-Id" /5/ discard\n}\n' % (), [('5', '')], tree=st, stdin=msg(5), args=['-'], kind='stdin'))
    S.append(Spec('stdin-reject', 'stdin {\n\tmatch header "X-Id" /5/ reject\n\tmatch all move "%s/dst"\n}\n' % R, [('5', '')], tree=st, stdin=msg(5), args=['-'], kind='stdin'))
    # a message of several read/write buffers: the spool loop of maildir_stdin runs more than once (a retry, a short count or a failure in a
    # later round must not repeat, drop or shift bytes); standard input is a regular file so that every read returns a full buffer
    if big:
        S.append(Spec('stdin-big', 'stdin {\n\tmatch all move "%s/dst"\n}\n' % R, tree=st, stdin=msg(4, body=text_body(20000)), args=['-'],
                      kind='stdin', stdin_file=True))
    return S


# errno table per call name (Appendix C of DESIGN.md); the first entries are used in the quick tier (see errnos())
ERRNOS = {
    'opendir': ['EACCES', 'ENOENT', 'EMFILE', 'ENOMEM'], 'readdir': ['EIO', 'EBADF'],
    'openat': ['EIO', 'ENOSPC', 'EACCES', 'ENOENT', 'EMFILE', 'EDQUOT', 'EROFS'], 'open': ['EMFILE', 'ENOENT'],
    # EINTR: a signal arrives before anything was transferred (read and write); EAGAIN: standard input is a non-blocking pipe or socket
    'read': ['EIO', 'short', 'EINTR', 'EAGAIN'], 'write': ['ENOSPC', 'short', 'EINTR', 'EIO', 'EDQUOT', 'shorthalf', 'EFBIG'],
    'fprintf': ['ENOSPC'], 'fflush': ['EIO', 'ENOSPC'], 'fsync': ['EIO', 'ENOSPC'], 'fclose': ['EIO', 'ENOSPC'], 'close': ['EIO'],
    'fcntl': ['EMFILE'], 'fdopen': ['ENOMEM'], 'renameat': ['EIO', 'ENOENT', 'EACCES', 'ENOSPC'], 'unlinkat': ['EIO', 'ENOENT', 'EACCES', 'EROFS'],
    'unlink': ['EIO'], 'fstatat': ['EIO', 'ENOENT'], 'stat': ['EACCES', 'EIO', 'ENOENT'], 'utimensat': ['EPERM', 'EROFS', 'EIO'],
    'mkdtemp': ['ENOENT', 'EACCES', 'ENOSPC'], 'mkostemp': ['ENOSPC', 'EACCES'], 'mkstemp': ['ENOSPC'], 'mkdir': ['ENOSPC', 'EEXIST'],
    'rmdir': ['ENOTEMPTY', 'EBUSY'], 'lseek': ['ESPIPE'], 'fork': ['EAGAIN', 'ENOMEM'], 'waitpid': ['EINTR', 'ECHILD'],
    'closedir': ['EIO'], 'fopen': ['ENOENT', 'EACCES'], 'rewinddir': [],
}

# "try again" results: programs treat them differently from hard errors (retry loops), so they are injected in every tier
RETRY = {'read': ['EINTR'], 'write': ['EINTR']}
# results that say "nothing happened, try again": a program may report them or repeat the call; after a repeat, exit status 0 with
# the message intact at its final place is correct (the tree oracle still judges the content)
TRANSIENT = ('EINTR', 'EAGAIN')


def isdirectory_stat(call):
    """Is this traced call the stat(2) of an `isdirectory` condition?  (The other stat mdsort issues during evaluation is the one of
    the file-time date conditions, on the message's own path below new/ or cur/.)  By the documented meaning - and in
    expr_eval_stat - `isdirectory` is false when the path cannot be stat'ed, whatever the reason: a failure injected there is not
    reported, the rules simply go on with the condition false.  Such runs are judged by the world model (Model.mainP along the
    observed trace: same calls, same final tree, same exit status) and by "no message lost or duplicated", not by "exit status 0
    only at the place the fault-free run reaches"."""
    if call.get('name') != 'stat':
        return False
    path = proc.unescape(call['args'].get('path', ''))
    return not re.search(rb'/(new|cur)/[^/]+$', path)


def may_retry(name, spec):
    return name in ('read', 'write') and spec in TRANSIENT


def errnos(name, tier, quick_n=2):
    """Fault specifications for one call: the whole table row in the thorough tier; in the quick tier its first `quick_n`
    entries plus the row's "try again" results (EINTR)."""
    row = ERRNOS.get(name, ['EIO'])
    if tier != 'quick':
        return list(row)
    out = list(row[:quick_n])
    for e in RETRY.get(name, []):
        if e in row and e not in out:
            out.append(e)
    return out


def maildir_files(snap):
    """{rel path: data} of the regular files below any new/ or cur/ directory."""
    return {rel: v[1] for rel, v in snap.items() if v[0] == 'file' and re.search(r'(^|/)(new|cur)/[^/]+$', rel)}


def tmp_entries(snap):
    return sorted(rel for rel in snap if rel.startswith('tmp/'))


class TreeOracle:
    """Judges a final tree against the initial one and the fault-free final one (message accounting by X-Id)."""

    def __init__(self, initial, clean_final, stdin=None, discard_ids=()):
        self.orig = {}
        for rel, data in maildir_files(initial).items():
            i = msg_id(data)
            if i is not None:
                self.orig[i] = data
        if stdin is not None and msg_id(stdin) is not None:
            self.orig[msg_id(stdin)] = stdin
        self.final = {}
        self.final_place = {}
        for rel, data in maildir_files(clean_final).items():
            i = msg_id(data)
            if i is not None:
                self.final[i] = data
                self.final_place[i] = rel
        self.initial_files = maildir_files(initial)
        self.discard_ids = set(i for i in self.orig if i not in self.final)

    def classify(self, snap):
        """-> dict id -> list of (rel, 'intact'|'partial'); strays: list of rel"""
        seen = {i: [] for i in self.orig}
        strays = []
        for rel, data in maildir_files(snap).items():
            i = msg_id(data)
            if i in self.orig:
                ok = data == self.orig[i] or data == self.final.get(i)
                seen[i].append((rel, 'intact' if ok else 'partial'))
            else:
                strays.append(rel)
        return seen, strays

    def no_loss(self, snap):
        """Messages without any intact copy (discarded ones are allowed to be gone)."""
        seen, strays = self.classify(snap)
        return [i for i, cs in seen.items() if not any(k == 'intact' for _, k in cs) and i not in self.discard_ids]

    def exactly_once(self, snap):
        """Problems under the single-fault contract: duplicates, partial files, strays."""
        seen, strays = self.classify(snap)
        probs = []
        for i, cs in seen.items():
            intact = [r for r, k in cs if k == 'intact']
            partial = [r for r, k in cs if k == 'partial']
            if len(intact) > 1:
                probs.append('message %d exists %d times: %s' % (i, len(intact), intact))
            if partial:
                probs.append('partial copy of message %d: %s' % (i, partial))
            if not intact and i not in self.discard_ids:
                probs.append('message %d lost' % i)
        for r in strays:
            probs.append('stray file %s' % r)
        return probs

    def at_final_place(self, snap):
        files = maildir_files(snap)
        probs = []
        for i, rel in self.final_place.items():
            if files.get(rel) != self.final[i]:
                probs.append('message %d is not at its final place %s' % (i, rel))
        return probs
