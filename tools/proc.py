"""Process-level harness: the real mdsort binary under the LD_PRELOAD shim.

A scenario is a sandbox directory tree (maildirs with messages), a configuration, an
environment and run options.  `run()` executes mdsort with a fault / kill / pause plan and
returns the exit status, the parsed trace, stdout/stderr, the final tree and what the exec
helper recorded.  All identity sources (clock, pid, host, random, temp names, readdir order)
are pinned by the shim.
"""
import hashlib
import os
import re
import shutil
import stat
import subprocess
import vlib

PIN = dict(VSHIM_TIME='1790000000', VSHIM_PID='4242', VSHIM_HOST='host', VSHIM_RANDOM='7', VSHIM_TMPNAMES='1')
SHIM_DIR = os.path.join(vlib.HARNESS, 'shim')


class Tools:
    def __init__(self, sc):
        self.sc = sc
        self.mdsort = sc.binary('plain')
        self.shim = sc.build_c([os.path.join(SHIM_DIR, 'vshim.c')], 'vshim.so', ['-shared', '-fPIC', '-ldl'])
        self.helper = sc.build_c([os.path.join(SHIM_DIR, 'exechelper.c')], 'exechelper')
        self.nbox = 0

    def box(self):
        self.nbox += 1
        d = os.path.join(self.sc.dir, 'box%d' % self.nbox)
        os.makedirs(d)
        return d


def unescape(tok):
    out = bytearray()
    i = 0
    b = tok.encode('latin-1')
    while i < len(b):
        if b[i] == 0x5c and i + 1 < len(b):
            if b[i + 1] == 0x5c:
                out.append(0x5c)
                i += 2
                continue
            if b[i + 1] == 0x78 and i + 3 < len(b):
                out.append(int(b[i + 2:i + 4], 16))
                i += 4
                continue
        out.append(b[i])
        i += 1
    return bytes(out)


LINE = re.compile(r'^(\d+) (\S+)(.*)$')


def parse_trace(text):
    """List of dicts: k, name, args (dict of raw tokens), result (str), errno, fault, kind (call|pause|kill)."""
    res = []
    for line in text.split('\n'):
        if not line:
            continue
        m = LINE.match(line)
        if not m:
            res.append({'kind': 'junk', 'raw': line})
            continue
        k, name, rest = int(m.group(1)), m.group(2), m.group(3)
        if name == 'PAUSE':
            res.append({'kind': 'pause', 'k': k, 'raw': line})
            continue
        if name == 'KILLED-BEFORE':
            res.append({'kind': 'kill', 'k': k, 'name': rest.strip(), 'raw': line})
            continue
        fault = rest.endswith(' FAULT')
        if fault:
            rest = rest[:-6]
        if ' = ' in rest:
            a, r = rest.rsplit(' = ', 1)
        elif rest.startswith(' = '):
            a, r = '', rest[3:]
        else:
            a, r = rest, ''
        args = {}
        for tok in a.split(' '):
            if '=' in tok:
                kk, v = tok.split('=', 1)
                args[kk] = v
        errno = None
        if r.startswith('-1 errno='):
            errno = r[9:]
        res.append({'kind': 'call', 'k': k, 'name': name, 'args': args, 'result': r, 'errno': errno, 'fault': fault, 'raw': line})
    return res


def fsb(s):
    """Harness convention: a str path stands for the bytes s.encode('latin-1'), so that file names may contain ANY byte
    (8-bit, invalid UTF-8) and the configuration (written as latin-1), the tree, the trace and the model requests agree."""
    if isinstance(s, bytes):
        return s
    try:
        return s.encode('latin-1')
    except UnicodeEncodeError:
        return os.fsencode(s)


def snapshot(root, skip=()):
    """{relative path: (kind, content or None, mtime ns)} for everything below root.  kind: 'dir', 'file' (regular file, content =
    bytes), 'symlink' (content = the link target as bytes, never followed), 'fifo' / 'special' (never opened), 'unreadable'.  Names are latin-1 str (see fsb)."""
    snap = {}
    rootb = fsb(root)
    R = lambda p: os.path.relpath(p, rootb).decode('latin-1')
    for dp, dns, fns in os.walk(rootb):
        rel = R(dp)
        if any(rel == s or rel.startswith(s + '/') for s in skip):
            dns[:] = []
            continue
        for dn in dns:
            p = os.path.join(dp, dn)
            if os.path.islink(p):
                # a symbolic link to a directory: os.walk lists it with the directories (and does not descend)
                snap[R(p)] = ('symlink', os.fsencode(os.readlink(p)), os.lstat(p).st_mtime_ns)
            else:
                snap[R(p)] = ('dir', None, None)
        for fn in fns:
            p = os.path.join(dp, fn)
            try:
                st = os.lstat(p)
                if stat.S_ISLNK(st.st_mode):
                    snap[R(p)] = ('symlink', os.fsencode(os.readlink(p)), st.st_mtime_ns)
                elif stat.S_ISFIFO(st.st_mode):
                    snap[R(p)] = ('fifo', None, st.st_mtime_ns)
                elif not stat.S_ISREG(st.st_mode):
                    snap[R(p)] = ('special', None, st.st_mtime_ns)
                else:
                    data = open(p, 'rb').read()
                    snap[R(p)] = ('file', data, st.st_mtime_ns)
            except OSError:
                snap[R(p)] = ('unreadable', None, None)
    return snap


def dir_mtimes(root, skip=('tmp',)):
    """{relative path: mtime ns} of every directory below root (not root itself, not those in or below `skip`): creating, removing or
    renaming an entry changes the modification time of the directory even when the listing is the same afterwards."""
    out = {}
    rootb = fsb(root)
    for dp, dns, fns in os.walk(rootb):
        keep = []
        for dn in dns:
            p = os.path.join(dp, dn)
            rel = os.path.relpath(p, rootb).decode('latin-1')
            if rel in skip or os.path.islink(p):
                continue
            keep.append(dn)
            out[rel] = os.lstat(p).st_mtime_ns
        dns[:] = keep
    return out


def _copy_entry(src, dst):
    """copy_function for copytree: a FIFO is recreated, everything else copied with its times."""
    if stat.S_ISFIFO(os.lstat(src).st_mode):
        os.mkfifo(dst)
        st = os.lstat(src)
        os.utime(dst, ns=(st.st_atime_ns, st.st_mtime_ns))
        return dst
    return shutil.copy2(src, dst)


class Scenario:
    """A sandbox: `tree` maps relative paths to bytes (files), None (directories), ('symlink', target) (a symbolic link; `@R@` in the
    target is the sandbox root), ('fifo',) (a named pipe) or ('file', content, mode) (a regular file with permission bits)."""

    def __init__(self, tools, config, tree, stdin=None, args=(), env=None, devmap=(), mtimes=None, stdin_file=False, subst_tree=False):
        self.tools = tools
        self.root = tools.box()
        # stdin_file: standard input is a regular file instead of a pipe, so that every read(2) of a message larger than one
        # buffer returns a full buffer (a pipe fed by the parent returns whatever has arrived: call indices would not be reproducible)
        self.stdin_file = stdin_file
        self.config = config.replace('@R@', self.root).replace('@B@', os.path.basename(self.root))     # @B@: the root's own name (`../@B@/x`)
        self.stdin = stdin
        self.args = list(args)
        # a value of None removes the variable from the environment of the run (HOME, TMPDIR, TZ unset)
        self.env_extra = {k: (v.replace('@R@', self.root) if v is not None else None) for k, v in (env or {}).items()}
        self.devmap = [d.replace('@R@', self.root) for d in devmap]
        for rel, data in tree.items():
            p = os.path.join(fsb(self.root), fsb(rel))
            if data is None:
                os.makedirs(p, exist_ok=True)
            elif isinstance(data, tuple):
                os.makedirs(os.path.dirname(p), exist_ok=True)
                if data[0] == 'symlink':
                    os.symlink(data[1].replace('@R@', self.root), p)
                elif data[0] == 'fifo':
                    os.mkfifo(p)
                elif data[0] == 'file':
                    # ('file', content, mode): a regular file with these permission bits (0o755 a script, 0o644 a file that is
                    # there but cannot be executed - also not by root, which needs one x bit)
                    with open(p, 'wb') as fh:
                        fh.write(data[1])
                    os.chmod(p, data[2])
                else:
                    raise ValueError('unknown tree entry %r' % (data,))
            else:
                os.makedirs(os.path.dirname(p), exist_ok=True)
                with open(p, 'wb') as fh:
                    # subst_tree: `@R@` inside file contents is the sandbox root too (further configuration files of the scenario)
                    fh.write(data.replace(b'@R@', fsb(self.root)) if subst_tree else data)
        # every message gets a distinct modification time in the past (whole seconds + a ns part), so that "a moved message
        # keeps its modification time" is observable and a file written during the run can be told apart
        import time as _time
        self.t0_ns = _time.time_ns() - 5 * 10**9
        allm = {}
        for i, rel in enumerate(sorted(r for r, d in tree.items() if d is not None)):
            allm[rel] = (1600000000 + 86400 * i) * 10**9 + 123456789 + i
        # `mtimes`: {relative path: ns} on top of that - files, links and DIRECTORIES (set deepest first, after everything was created)
        allm.update(mtimes or {})
        os.makedirs(os.path.join(self.root, 'tmp'), exist_ok=True)
        os.makedirs(os.path.join(self.root, 'home'), exist_ok=True)
        with open(os.path.join(self.root, 'conf'), 'w', encoding='latin-1') as fh:
            fh.write(self.config)
        for rel in sorted(allm, key=lambda r: -r.count('/')):
            os.utime(os.path.join(fsb(self.root), fsb(rel)), ns=(allm[rel], allm[rel]), follow_symlinks=False)
        self.initial = snapshot(self.root, skip=('conf',))
        self.initial_dirs = dir_mtimes(self.root)
        self._saved = os.path.join(self.root + '.save')
        shutil.copytree(self.root, self._saved, symlinks=True, copy_function=_copy_entry)

    def reset(self):
        shutil.rmtree(self.root)
        shutil.copytree(self._saved, self.root, symlinks=True, copy_function=_copy_entry)

    def cleanup(self):
        shutil.rmtree(self.root, ignore_errors=True)
        shutil.rmtree(self._saved, ignore_errors=True)
        if os.path.exists(self.root + '.stdin'):
            os.unlink(self.root + '.stdin')

    def run(self, fail=None, kill=None, pause=None, pause_cmd=None, trace=True, shim=True, timeout=30, tag='run', fsize=None, argv=None,
            cwd=None, uid=None):
        """argv: the complete argument vector after argv[0] (instead of `-f <root>/conf` + args; `@R@` is replaced); cwd: the working
        directory of the run relative to the sandbox root (default: the root itself); uid: run as this numeric user and group (the check
        itself must be root; used for a user without password entry).  fsize=N: the kernel's file size limit (VSHIM_FSIZE): writes crossing N bytes are short, beyond it they fail with EFBIG -
        also the write(2) calls stdio issues by itself, which `fail=` cannot reach."""
        env = {'PATH': os.environ.get('PATH', '/usr/bin:/bin'), 'HOME': os.path.join(self.root, 'home'),
               'TMPDIR': os.path.join(self.root, 'tmp'), 'LC_ALL': 'C',
               'EXECHELPER_OUT': os.path.join(self.root, 'helper.out'), 'HELPER': self.tools.helper}
        log = os.path.join(self.root + '.%s.log' % tag)
        if os.path.exists(log):
            os.unlink(log)
        if shim:
            env['LD_PRELOAD'] = self.tools.shim
            env.update(PIN)
            if trace:
                env['VSHIM_LOG'] = log
                if uid is not None:
                    open(log, 'w').close()
                    os.chown(log, uid, uid)
            if fail:
                env['VSHIM_FAIL'] = fail
            if kill is not None:
                env['VSHIM_KILL'] = str(kill)
            if pause is not None:
                env['VSHIM_PAUSE'] = str(pause)
                env['VSHIM_PAUSE_CMD'] = pause_cmd
            if self.devmap:
                env['VSHIM_DEVMAP'] = ':'.join(self.devmap)
            if fsize is not None:
                env['VSHIM_FSIZE'] = str(int(fsize))
            if os.environ.get('VSHIM_OFF_AT_EXIT'):         # coverage measurement runs only (tools/cov.py)
                env['VSHIM_OFF_AT_EXIT'] = os.environ['VSHIM_OFF_AT_EXIT']
        env.update(self.env_extra)
        env = {fsb(k): fsb(v) for k, v in env.items() if v is not None}      # values may name directories with arbitrary bytes (HOME, TMPDIR)
        if argv is not None:
            cmd = [fsb(self.tools.mdsort)] + [fsb(a.replace('@R@', self.root) if isinstance(a, str) else a) for a in argv]
        else:
            cmd = [self.tools.mdsort, '-f', os.path.join(self.root, 'conf')] + self.args
        rundir = self.root if cwd is None else os.path.join(self.root, cwd)
        ids = {} if uid is None else {'user': uid, 'group': uid, 'extra_groups': []}
        sin = None
        if self.stdin_file and self.stdin is not None:
            sp = self.root + '.stdin'
            if not os.path.exists(sp):
                with open(sp, 'wb') as fh:
                    fh.write(self.stdin)
            sin = open(sp, 'rb')
        try:
            if sin is not None:
                r = subprocess.run(cmd, stdin=sin, capture_output=True, env=env, timeout=timeout, cwd=rundir, **ids)
            else:
                r = subprocess.run(cmd, input=self.stdin if self.stdin is not None else b'', capture_output=True, env=env,
                                   timeout=timeout, cwd=rundir, **ids)
            status, out, err = r.returncode, r.stdout, r.stderr
        except subprocess.TimeoutExpired as e:
            status, out, err = 'timeout', e.stdout or b'', e.stderr or b''
        finally:
            if sin is not None:
                sin.close()
        tr = []
        if shim and trace and os.path.exists(log):
            tr = parse_trace(open(log, encoding='latin-1').read())
            os.unlink(log)
        helper = []
        hp = os.path.join(self.root, 'helper.out')
        if os.path.exists(hp):
            helper = open(hp, encoding='latin-1').read().split('\n')[:-1]
            os.unlink(hp)
        final = snapshot(self.root, skip=('conf',))
        return Result(status, tr, out, err, final, helper)


class Result:
    def __init__(self, status, trace, out, err, final, helper):
        self.status, self.trace, self.out, self.err, self.final, self.helper = status, trace, out, err, final, helper

    def calls(self):
        return [t for t in self.trace if t['kind'] == 'call']


def maildir_tree(md, msgs):
    """msgs: {('new'|'cur', name): bytes}"""
    t = {md + '/new': None, md + '/cur': None, md + '/tmp': None}
    for (sub, name), data in msgs.items():
        t['%s/%s/%s' % (md, sub, name)] = data
    return t
