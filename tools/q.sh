#!/bin/sh
# usage: q.sh Cxx [tier]   -- run one check quietly; print exit status, contract lines (truncated) and the last error lines
p=$1; t=${2:-quick}
cd "$(dirname "$0")/.." || exit 2
python3 tools/check.py "$p" --tier "$t" > /tmp/q.$p.out 2> /tmp/q.$p.err
rc=$?
echo "== $p tier=$t rc=$rc violations=$(grep -c '^VIOLATION' /tmp/q.$p.out) known=$(grep -c '^KNOWN-FINDING' /tmp/q.$p.out)"
grep '^VIOLATION' /tmp/q.$p.out | head -3 | cut -c1-200
grep -v '^\[verif\]' /tmp/q.$p.err | grep -A12 '^Traceback' | tail -8 | cut -c1-200
exit $rc
