"""Configuration-BYTES family of C14: every byte value at every kind of position of a configuration file.

mdsort.conf(5): a configuration is maildir / stdin blocks and macro definitions; "comments can be put anywhere in the file using a
hash mark and extend to the end of the current line"; strings are quoted, patterns delimited.  So for a byte X (0x01 ... 0xff):

* between two blocks, before the first, after the last (token position, top level): the file stays valid iff X is white space or
  starts a comment; anything else is not part of the grammar -> the file is rejected;
* inside a comment: data, whatever it is (a line feed ends the comment); what FOLLOWS the comment still counts - an invalid block
  after it rejects the file;
* inside a string: data, except the quote that ends the string early;
* inside a pattern: the delimiter ends it early; otherwise the platform's regcomp (REG_EXTENDED | REG_NEWLINE) decides;
* inside a keyword: no keyword any more -> rejected;
* after a valid block and before an INVALID block: rejected whatever X is (an error anywhere rejects the file as a whole).

Rejected means what C14 says: a `file:line:` diagnostic, non-zero exit status (1, 75 with `-`), no maildir or message opened, no
command run, nothing changed; accepted: `-n` exits 0 silently.  Judged on the real parser in-process (`conf` of harness h_parse,
all 255 values at every position, also compared with `M conf`) and on the real binary over a populated maildir.

NUL is not in the family: `yylex` returns the byte itself for anything it does not know, and token 0 is bison's end of input - a NUL
at token position silently ends the file on the unchanged tree (`observe_nul` records what happens, without a verdict).
"""
import ctypes
import ctypes.util

R = '@R@'
V1 = b'maildir "@R@/src" {\n\tmatch header "To" /user/ move "@R@/dst"\n}\n'
V2 = b'maildir "@R@/md3" {\n\tmatch all label "two"\n}\n'
INVALID = b'maildir "@R@/md3" {\n\tmatch all\n}\n'              # missing action
WHITE = b' \t\n\v\f\r'


def _pattern_ok(pat):
    """The platform's regcomp(pat, REG_EXTENDED | REG_NEWLINE) in the C locale (mdsort's own flags; REG_ICASE makes no difference to validity)."""
    libc = ctypes.CDLL(ctypes.util.find_library('c') or 'libc.so.6')
    buf = ctypes.create_string_buffer(512)
    rc = libc.regcomp(buf, ctypes.c_char_p(pat), ctypes.c_int(1 | 4))     # glibc: REG_EXTENDED = 1, REG_NEWLINE = 4
    if rc == 0:
        libc.regfree(buf)
    return rc == 0


def positions():
    """name -> (function(X: bytes) -> configuration bytes, function(X) -> True (accepted) / False (rejected))"""
    P = {}
    top = lambda x: x in WHITE or x == b'#'
    P['before-first-block'] = (lambda x: x + b'\n' + V1, top)
    P['between-blocks'] = (lambda x: V1 + x + b'\n' + V2, top)
    P['between-blocks-no-newline'] = (lambda x: V1[:-1] + b' ' + x + b' ' + V2, lambda x: x in WHITE)      # ('#' would swallow the next block's first line)
    P['after-last-block'] = (lambda x: V1 + V2 + x, top)
    P['inside-block-between-rules'] = (lambda x: V1.replace(b'\n}\n', b'\n\t' + x + b'\n\tmatch new flag !new\n}\n'), top)
    P['in-comment'] = (lambda x: V1 + b'# note ' + x + b'# tail\n' + V2, lambda x: True)
    P['in-comment-before-invalid-block'] = (lambda x: V1 + b'# note ' + x + b'# tail\n' + INVALID, lambda x: False)
    P['in-comment-last-line'] = (lambda x: V1 + V2 + b'# note ' + x + b' end', lambda x: x != b'\n')
    P['in-string'] = (lambda x: V1 + V2.replace(b'"two"', b'"tw' + x + b'o"'), lambda x: x != b'"')
    P['in-maildir-path-string'] = (lambda x: V1 + V2.replace(b'/md3"', b'/md3' + x + b'z"'), lambda x: x != b'"')
    P['in-pattern'] = (lambda x: V1.replace(b'/user/', b'/us' + x + b'er/') + V2, lambda x: x != b'/' and _pattern_ok(b'us' + x + b'er'))
    P['in-keyword'] = (lambda x: V1.replace(b'\tmatch', b'\tmat' + x + b'ch') + V2, lambda x: False)
    P['in-macro-name'] = (lambda x: b'di' + x + b'r = "@R@/dst"\n' + V1.replace(b'move "@R@/dst"', b'move "${dir}"'), lambda x: False)
    P['valid-then-invalid-block'] = (lambda x: V1 + x + b'\n' + INVALID, lambda x: False)
    P['valid-then-invalid-block-same-line'] = (lambda x: V1[:-1] + b' ' + x + b' ' + INVALID, lambda x: False)
    return P


# an 8-bit byte in the middle of a macro name: two names -> rejected; a lowercase letter makes ANOTHER name (dixr), the reference ${dir} is then undefined
SPECIAL_BYTES = sorted(set(b'\t\n\v\f\r "#$/\\!(){}=<>-_.*[]^~09azAZ\x01\x1b\x7f') | {0x80, 0x81, 0x9f, 0xa0, 0xc2, 0xc3, 0xe4, 0xfe, 0xff})


def cases(tier, level):
    """(position name, X, configuration bytes, expected accepted?) - unit level: every value everywhere; process level, quick tier: every
    value between a valid and an invalid block, every 8-bit value between two valid blocks and in a comment before an invalid block,
    elsewhere the special values (white space, delimiters, operators, controls, a few 8-bit ones)."""
    out = []
    full = ('valid-then-invalid-block',)
    high = ('between-blocks', 'in-comment-before-invalid-block')
    for name, (build, ok) in positions().items():
        for b in range(1, 256):
            if level == 'process' and tier == 'quick' and name not in full and b not in SPECIAL_BYTES and not (name in high and b >= 0x80 and b % 2):
                continue
            x = bytes([b])
            out.append((name, b, build(x), bool(ok(x))))
    return out


def observe_nul():
    """The same positions with a NUL (outside the family, see the module text): [(position name, configuration bytes)]"""
    return [(name, build(b'\x00')) for name, (build, ok) in positions().items()]
