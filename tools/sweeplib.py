"""Thorough tiers of the world-level checks (C01, C02): many scenario variants, a pool of worker PROCESSES.

* `variants(spec, n, seed)`: n scenarios of the kind of `spec` - the scenario itself, and copies with another population (more /
  fewer messages in new and cur, with and without an X-Label header, folded headers, flags in the name, one message of several
  stdio buffers, messages of exactly one stdio buffer +-1), a destination that already holds the name maildir_genname tries first
  (the EEXIST retry); stdin kinds: other message sizes (one byte below / at / above the read buffer, several buffers), with and without X-Label.
* `Pool`: jobs run in forked worker processes (the sweeps are Python-heavy between two runs of the binary: threads serialise on the
  interpreter lock), each with its own sandbox names and its own `world.WorldCheck`; results come back as plain data.
"""
import concurrent.futures as cf
import multiprocessing
import os
import random
import time

import vlib
import proc
import world
import worldscen as ws

GEN_FIRST = '1790000000.4242_8.host'     # the first name maildir_genname tries under proc.PIN


class WTools:
    """What proc.Scenario needs from proc.Tools, with sandbox names private to this process."""

    def __init__(self, tools, tag):
        self.mdsort, self.shim, self.helper, self.sc = tools.mdsort, tools.shim, tools.helper, tools.sc
        self.dir = os.path.join(tools.sc.dir, '%s-%d' % (tag, os.getpid()))
        os.makedirs(self.dir, exist_ok=True)
        self.n = 0

    def box(self):
        self.n += 1
        d = os.path.join(self.dir, 'box%d' % self.n)
        os.makedirs(d)
        return d


_W = {}


def _init(tools, sc, tag):
    _W['tools'] = WTools(tools, tag)
    _W['W'] = world.WorldCheck(sc, _W['tools'])
    # verdicts of the driver inside a worker: one driver process (the pool is the parallelism)
    _W['W'].verdict = lambda reqs: vlib.run_batch(_W['W'].driver, reqs, nproc=1)


def worker_tools():
    return _W['tools']


def worker_world():
    return _W['W']


class Pool:
    def __init__(self, tools, sc, tag):
        nproc = int(os.environ.get('VERIF_JOBS', '0')) or vlib.NCPU
        self.nproc = nproc
        self.ex = cf.ProcessPoolExecutor(nproc, mp_context=multiprocessing.get_context('fork'), initializer=_init, initargs=(tools, sc, tag))

    def map(self, fn, jobs, what, weight=None):
        """Results in job order; progress on stderr.  Longest jobs first when `weight` is given."""
        order = list(range(len(jobs)))
        if weight:
            order.sort(key=lambda i: -weight(jobs[i]))
        t0 = time.time()
        futs = {self.ex.submit(fn, jobs[i]): i for i in order}
        out = [None] * len(jobs)
        done, nextlog = 0, time.time() + 20
        for f in cf.as_completed(futs):
            out[futs[f]] = f.result()
            done += 1
            if time.time() >= nextlog:
                vlib.log('%s: %d / %d jobs, %.0f s' % (what, done, len(jobs), time.time() - t0))
                nextlog = time.time() + 20
        vlib.log('%s: %d jobs done in %.0f s on %d processes' % (what, len(jobs), time.time() - t0, self.nproc))
        return out

    def close(self):
        self.ex.shutdown()


# --------------------------------------------------------------------------------------------------------------------------
# scenario variants
# --------------------------------------------------------------------------------------------------------------------------

def _extra_msg(i, rng, big=False):
    extra = b''
    if rng.random() < 0.5:
        extra += b'X-Label: old\n'
    if rng.random() < 0.3:
        extra += b'X-Folded: first\n\tsecond\n'
    body = ws.text_body(rng.choice((9000, 20000)), tag=b'm%d' % i) if big else None
    return ws.msg(i, extra=extra, body=body)


def variants(spec, n, seed):
    """[spec] + n-1 variants of it (same configuration, same kind)."""
    out = [spec]
    rng = random.Random('%s/%d' % (spec.name, seed))
    for v in range(1, n):
        name = '%s#%d' % (spec.name, v)
        if spec.kind == 'stdin':
            if spec.stdin is None or ws.msg_id(spec.stdin) is None:
                continue
            i = ws.msg_id(spec.stdin)
            size = [None, 8191, 8192, 8193, 16384, 20000, 30000, None, 9000, None, 12000, None][v % 12]
            extra = b'X-Label: a\n' if (v % 2 == 0 or b'X-Label' in spec.stdin) else b''
            body = ws.text_body(size, tag=b'v%d' % v) if size else None
            m = ws.msg(i, extra=extra, body=body)
            out.append(ws.Spec(name, spec.conf, spec.pats, tree=dict(spec.tree), devmap=spec.devmap, stdin=m, args=spec.args, kind='stdin', env=spec.env,
                               stdin_file=True))
            continue
        tree = dict(spec.tree)
        shape = v % 6
        ids = iter(range(20 + 10 * v, 30 + 10 * v))
        if shape == 0:
            # fewer: only the first message of the population stays
            msgs = sorted(r for r, d in tree.items() if isinstance(d, bytes) and ws.msg_id(d) is not None)
            for r in msgs[1:]:
                del tree[r]
        elif shape == 1:
            for sub, nm in (('new', '%d.host'), ('new', '%d.host'), ('cur', '%d.host:2,FS'), ('cur', '%d.host:2,RS')):
                i = next(ids)
                tree['src/%s/%s' % (sub, nm % i)] = _extra_msg(i, rng)
        elif shape == 2:
            i = next(ids)
            tree['src/new/%d.host' % i] = _extra_msg(i, rng, big=True)
        elif shape == 3:
            # the first name maildir_genname tries is taken in every destination (and in the walked maildir): the retry with the next counter
            for q, r in enumerate(sorted(r for r, d in list(tree.items()) if d is None and (r.endswith('/new') or r.endswith('/cur')))):
                sfx = ':2,' if r.endswith('/new') else ':2,S'
                tree['%s/%s%s' % (r, GEN_FIRST, sfx)] = ws.msg(900 + q, extra=b'X-Label: resident\n')
        elif shape == 4:
            i = next(ids)
            tree['src/cur/%d.host:2,S' % i] = _extra_msg(i, rng)
            j = next(ids)
            tree['src/new/%d.host' % j] = _extra_msg(j, rng, big=True)
        elif shape == 5:
            # messages whose size is around the stdio buffer (4096): the header block + body end one byte below / at / above it
            for size in (4095, 4096, 4097):
                i = next(ids)
                head = len(ws.msg(i, body=b''))
                tree['src/new/%d.host' % i] = ws.msg(i, body=ws.text_body(size - head, tag=b'b%d' % i))
        sp = ws.Spec(name, spec.conf, spec.pats, tree=tree, devmap=spec.devmap, stdin=spec.stdin, args=spec.args, kind=spec.kind, env=spec.env,
                     stdin_file=spec.stdin_file)
        out.append(sp)
    return out
