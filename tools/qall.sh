#!/bin/sh
# usage: qall.sh [tier] [Cxx ...]   -- run checks one after the other, one summary line each (details in /tmp/q.Cxx.out/.err)
t=${1:-quick}; [ $# -gt 0 ] && shift
ps="$*"; [ -z "$ps" ] && ps="C01 C02 C03 C04 C05 C06 C07 C08 C09 C10 C11 C12 C13 C14 C15 C16 C17 C18"
for p in $ps; do sh "$(dirname "$0")/q.sh" "$p" "$t" | grep -v '^$'; done
echo QALL-DONE
