"""C18, thorough tier: TWO path-carrying inputs near their limits in the same run, every combination of lengths in a window.

The sweeps of props/c18.py and c18seq.py move one length at a time.  Here a run has two independent inputs, each running through
limit-w .. limit+w (w = 3 by default: 49 combinations per pair, both exactly at limit-1 and at the limit included):

  message path x destination (literal / ~ / macro / back-reference)      message path x new message path after a move
  message path x isdirectory path (four spellings)                       message path x temporary file of exec stdin body
  host name (generated name, NAME_MAX) x new message path (PATH_MAX)     host name x new path of a flag action in a deep maildir
  stdin spool path x destination, x new message path                     ~ destination x temporary file of exec stdin body
  maildir root of a first block x destination of a second block          isdirectory path x destination in one rule
  default configuration path (no -f) x TMPDIR                            HOME x TMPDIR (readenv)

Every tree is built through directory descriptors (props/c18.py), so each intended object exists in full whatever its length and a
decoy stands at the PATH_MAX-1 / NAME_MAX truncation.  Every scenario lists the strings the run has to build (`derived`, in the
order the code builds them, with their limits); the oracle is the property:

* every one fits          => the actions are carried out at exactly the intended paths, exit status 0;
* one does not fit        => non-zero exit status, a diagnostic; what is built BEFORE the message is renamed does not fit => nothing
                             appears, disappears or is run; the message is never anywhere but at its source or at the complete
                             intended path, exactly once, intact; everything else in the tree is what it was;
* always                  => no traced call names a truncation (a prefix cut inside a component) of an intended path.
"""
import concurrent.futures as cf
import os
import re
import subprocess
import vlib
import proc
import worldscen as ws

PATH_MAX, NAME_MAX = 4096, 255
GEN = '1790000000.4242_8.'
TMPL = 'mdsort-XXXXXXXX'


def base():
    import props.c18 as b
    return b


class D:
    """One string the run builds: fits iff len < limit.  phase: 'config' (measured by the parser: the whole configuration is
    rejected), 'env' (readenv / defaultconf: the run ends before anything), 'pre' (before the message is renamed / a command is
    run), 'post' (after the rename: the message may already be at its intended new path)."""

    def __init__(self, what, length, limit, phase):
        self.what, self.length, self.limit, self.phase = what, length, limit, phase

    @property
    def fits(self):
        return self.length < self.limit

    def __repr__(self):
        return '%s=%d%s' % (self.what, self.length, '' if self.fits else '(!)')


def run_pair(tools, fam, a, b, how=None, how2=None):
    """One scenario of family `fam` with the two lengths a, b."""
    B = base()
    bx = B.Box(tools)
    box = bx.box
    MSG = ws.msg(1)
    derived, intended, probs = [], [], []
    src_rel = './src/new/1.host'
    want = None                   # where the message must be when everything fits (relative path; a directory ending in / = any full name there)
    args, stdin, tmpdir, home, default_conf = [], None, None, None, False
    host = 'host'
    cmd_expected = None           # None: no command in the scenario; else the stdin the helper must get, once, when everything fits
    cmd_needs = []                # the derived strings that must fit for the command to be run
    spool = False
    conf = None
    moved_name = GEN + 'host:2,'

    def deep_src(total):
        """A source maildir R whose message path R/new/<name> has `total` characters; an old directory at its truncation."""
        name = '1700000000.1_1.' + 'h' * 25
        R = B.chain(box + '/m', total - 1 - len(name) - 4)
        B.maildir_at(R)
        full = R + '/new/' + name
        B.dwrite(full, MSG)
        if total >= PATH_MAX:
            B.dmkdir(full[:PATH_MAX - 1], mtime=B.OLD)
        derived.append(D('message path', total, PATH_MAX, 'pre'))
        intended.append(full)
        return R, bx.rel(full)

    def dest(total_new, how_, root=None):
        """A destination maildir Dd with len(Dd + '/new') = total_new; decoy directory at the truncation."""
        Dd = B.chain(root or (bx.home + '/l' if how_ == 'tilde' else box + '/lists'), total_new - 4)
        B.maildir_at(Dd)
        if total_new >= PATH_MAX:
            B.dmkdir((Dd + '/new')[:PATH_MAX - 1].rstrip('/'))
        return Dd

    def dest_derived(Dd, how_, name=None):
        nm = name or moved_name
        derived.append(D('destination', len(Dd), PATH_MAX, 'config' if how_ == 'tilde' else 'pre'))
        derived.append(D('destination + /new', len(Dd) + 4, PATH_MAX, 'pre'))
        derived.append(D('new message path', len(Dd) + 5 + len(nm), PATH_MAX, 'post'))
        intended.extend([Dd + '/new', Dd + '/new/' + nm])

    if fam == 'msgpath-dest':
        R, src_rel = deep_src(a)
        Dd = dest(b, how)
        macros, text, hdr, cond = B.spell(how, Dd, bx.home)
        if hdr:
            B.dwrite(box + '/' + src_rel[2:], MSG.replace(b'\n\n', b'\n' + hdr + b'\n', 1))
        dest_derived(Dd, how)
        conf = '%smaildir "%s" {\n\tmatch %s move "%s"\n}\n' % (macros, R, cond or 'all', text)
        want = bx.rel(Dd) + '/new/' + moved_name
    elif fam == 'msgpath-setfile':
        R, src_rel = deep_src(a)
        Dd = B.chain(box + '/d', b - 1 - len(moved_name) - 4)
        B.maildir_at(Dd)
        dest_derived(Dd, 'literal')
        conf = 'maildir "%s" {\n\tmatch all move "%s"\n}\n' % (R, Dd)
        want = bx.rel(Dd) + '/new/' + moved_name
    elif fam == 'msgpath-isdir':
        R, src_rel = deep_src(a)
        root = bx.home + '/w' if how == 'tilde' else box + '/w'
        if b < PATH_MAX:
            I = B.chain(root, b)
            B.dmkdir(I)
        else:
            I = B.chain(root, PATH_MAX - 1)
            B.dmkdir(I)
            I += 'z' * (b - (PATH_MAX - 1))
        macros, text, hdr, cond = B.spell(how, I, bx.home)
        if hdr:
            B.dwrite(box + '/' + src_rel[2:], MSG.replace(b'\n\n', b'\n' + hdr + b'\n', 1))
        derived.append(D('isdirectory path', b, PATH_MAX, 'config' if how == 'tilde' else 'pre'))
        intended.append(I)
        conf = '%smaildir "%s" {\n\tmatch %sisdirectory "%s" move "%s/dst"\n}\n' % (macros, R, cond + ' and ' if cond else '', text, box)
        want = './dst/new/' + moved_name
    elif fam == 'msgpath-exectmp':
        R, src_rel = deep_src(a)
        T = B.chain(box + '/t', b - 1 - len(TMPL))
        B.dmkdir(T)
        tmpdir = T
        derived.append(D('temporary file path', b, PATH_MAX, 'pre'))
        intended.append(T + '/' + TMPL)
        conf = 'maildir "%s" {\n\tmatch all exec stdin body "%s"\n}\n' % (R, tools.helper)
        cmd_expected = MSG.split(b'\n\n', 1)[1]
        cmd_needs = ['message path', 'temporary file path']
        want = src_rel
    elif fam in ('host-setfile', 'host-flag'):
        # a = length of the generated name (NAME_MAX), b = length of the new message path (PATH_MAX)
        suffix = ':2,' if fam == 'host-setfile' else ':2,S'
        host = 'h' * (a - len(GEN) - len(suffix))
        name = GEN + host + suffix
        if fam == 'host-setfile':
            Dd = B.chain(box + '/d', b - 1 - len(name) - 4)
            B.maildir_at(Dd)
            B.dwrite(box + '/src/new/1.host', MSG)
            newdir = Dd + '/new'
            conf = 'maildir "%s/src" {\n\tmatch all move "%s"\n}\n' % (box, Dd)
            derived.append(D('destination + /new', len(Dd) + 4, PATH_MAX, 'pre'))
        else:
            R = B.chain(box + '/m', b - 1 - len(name) - 4)
            B.maildir_at(R)
            B.dwrite(R + '/new/1.host', MSG)
            src_rel = bx.rel(R) + '/new/1.host'
            newdir = R + '/cur'
            conf = 'maildir "%s" {\n\tmatch new flag !new\n}\n' % R
            derived.append(D('message path', len(R) + 5 + len('1.host'), PATH_MAX, 'pre'))
        derived.append(D('generated name', len(name), NAME_MAX + 1, 'pre'))
        derived.append(D('new message path', len(newdir) + 1 + len(name), PATH_MAX, 'post'))
        intended.append(newdir + '/' + name)
        if len(name) > NAME_MAX:
            B.dwrite(newdir + '/' + name[:NAME_MAX], ws.msg(7))      # a sibling at the truncation of the name
        want = bx.rel(newdir) + '/' + name
    elif fam in ('spool-dest', 'spool-setfile'):
        T = B.chain(box + '/t', a - 1 - len(GEN + 'host') - 4 - 1 - len(TMPL))
        B.dmkdir(T)
        tmpdir = T
        derived.append(D('spool directory + /new', len(T) + 1 + len(TMPL) + 4, PATH_MAX, 'pre'))
        derived.append(D('spooled message path', a, PATH_MAX, 'pre'))
        if fam == 'spool-dest':
            Dd = dest(b, 'literal')
        else:
            Dd = B.chain(box + '/d', b - 1 - len(GEN + 'host:2,') - 4)
            B.maildir_at(Dd)
        derived.append(D('destination', len(Dd), PATH_MAX, 'pre'))
        derived.append(D('destination + /new', len(Dd) + 4, PATH_MAX, 'pre'))
        derived.append(D('new message path', len(Dd) + 5 + len(GEN + 'host:2,'), PATH_MAX, 'post'))
        intended.extend([T + '/' + TMPL, Dd + '/new'])
        conf = 'stdin {\n\tmatch all move "%s"\n}\n' % Dd
        args, stdin, spool = ['-'], MSG, True
        src_rel = None
        want = bx.rel(Dd) + '/new/'
    elif fam == 'tilde-exectmp':
        B.dwrite(box + '/src/new/1.host', MSG)
        Dd = dest(a, 'tilde')
        T = B.chain(box + '/t', b - 1 - len(TMPL))
        B.dmkdir(T)
        tmpdir = T
        derived.append(D('destination', len(Dd), PATH_MAX, 'config'))
        derived.append(D('temporary file path', b, PATH_MAX, 'pre'))
        derived.append(D('destination + /new', len(Dd) + 4, PATH_MAX, 'pre'))
        derived.append(D('new message path', len(Dd) + 5 + len(moved_name), PATH_MAX, 'post'))
        intended.extend([T + '/' + TMPL, Dd + '/new', Dd + '/new/' + moved_name])
        conf = 'maildir "%s/src" {\n\tmatch all exec stdin body "%s" move "~%s"\n}\n' % (box, tools.helper, Dd[len(bx.home):])
        cmd_expected = MSG.split(b'\n\n', 1)[1]
        cmd_needs = ['destination', 'destination + /new', 'temporary file path']     # D + /new is built when the rule is evaluated (matches_append)
        want = bx.rel(Dd) + '/new/' + moved_name
    elif fam == 'root-dest':
        # a first block whose maildir path R1 + "/new" has `a` characters (an empty maildir), a second block that moves the message
        R1 = B.chain(bx.home if how == 'tilde' else box + '/r', a - 4)
        B.maildir_at(R1)
        if a >= PATH_MAX:
            for sub in ('/new', '/cur'):
                t = (R1 + sub)[:PATH_MAX - 1].rstrip('/')
                if B.dmkdir(t):
                    B.dwrite(t + '/7.decoy', ws.msg(7))
        macros, text, _, _ = B.spell(how, R1, bx.home)
        B.dwrite(box + '/src/new/1.host', MSG)
        Dd = dest(b, 'literal')
        derived.append(D('first maildir', len(R1), PATH_MAX, 'config' if how == 'tilde' else 'other-unit'))
        derived.append(D('first maildir + /new', a, PATH_MAX, 'other-unit'))
        dest_derived(Dd, 'literal')
        intended.extend([R1 + '/new', R1 + '/cur'])
        conf = '%smaildir "%s" {\n\tmatch all move "%s/dst"\n}\nmaildir "%s/src" {\n\tmatch all move "%s"\n}\n' % (macros, text, box, box, Dd)
        want = bx.rel(Dd) + '/new/' + moved_name
    elif fam == 'isdir-dest':
        B.dwrite(box + '/src/new/1.host', MSG)
        root = bx.home + '/w' if how == 'tilde' else box + '/w'
        if a < PATH_MAX:
            I = B.chain(root, a)
            B.dmkdir(I)
        else:
            I = B.chain(root, PATH_MAX - 1)
            B.dmkdir(I)
            I += 'z' * (a - (PATH_MAX - 1))
        macros, text, hdr, cond = B.spell(how, I, bx.home)
        if hdr:
            B.dwrite(box + '/src/new/1.host', MSG.replace(b'\n\n', b'\n' + hdr + b'\n', 1))
        dhow = how2 or 'literal'
        Dd = dest(b, dhow)
        derived.append(D('isdirectory path', a, PATH_MAX, 'config' if how == 'tilde' else 'pre'))
        dest_derived(Dd, dhow)
        intended.append(I)
        if dhow == 'literal':
            dtext, dmac = Dd, ''
        elif dhow == 'tilde':
            dtext, dmac = '~' + Dd[len(bx.home):], ''
        else:
            dtext, dmac = Dd[:len(Dd) - 50] + '${dtail}', 'dtail = "%s"\n' % Dd[len(Dd) - 50:]
        conf = '%s%smaildir "%s/src" {\n\tmatch %sisdirectory "%s" move "%s"\n}\n' % (macros, dmac, box, cond + ' and ' if cond else '', text, dtext)
        want = bx.rel(Dd) + '/new/' + moved_name
    elif fam in ('defconf-tmpdir', 'home-tmpdir'):
        B.dwrite(box + '/src/new/1.host', MSG)
        H = B.chain(box + '/h', a)
        B.dmkdir(H)
        T = B.chain(box + '/t', b)
        B.dmkdir(T)
        home, tmpdir = H, T
        conf = 'maildir "%s/src" {\n\tmatch all move "%s/dst"\n}\n' % (box, box)
        derived.append(D('HOME', a, PATH_MAX, 'env'))
        derived.append(D('TMPDIR', b, PATH_MAX, 'env'))
        if fam == 'defconf-tmpdir':
            full = H + '/.mdsort.conf'
            B.dwrite(full, conf.encode())
            for k in range(2, len('.mdsort.conf')):
                B.dwrite(H + '/' + '.mdsort.conf'[:k], ('maildir "%s/src" {\n\tmatch all move "%s/decoy"\n}\n' % (box, box)).encode())
            for d in ('decoy/new', 'decoy/cur'):
                os.makedirs(os.path.join(box, d))
            derived.append(D('default configuration path', a + 1 + len('.mdsort.conf'), PATH_MAX, 'env'))
            intended.append(full)
            default_conf = True
        want = './dst/new/' + moved_name
    else:
        raise ValueError(fam)

    # ---- run ----
    env_host = host
    with open(box + '/conf', 'w', encoding='latin-1') as fh:
        fh.write(conf)
    bx.conf = conf
    env = {'PATH': os.environ.get('PATH', ''), 'HOME': home or bx.home, 'TMPDIR': tmpdir or bx.tmp, 'LD_PRELOAD': tools.shim,
           'VSHIM_LOG': box + '.log', 'LC_ALL': 'C', 'EXECHELPER_OUT': box + '/helper.out'}
    env.update(proc.PIN)
    env['VSHIM_HOST'] = env_host
    before = B.listing(box)
    try:
        r = subprocess.run([tools.mdsort] + ([] if default_conf else ['-f', box + '/conf']) + args, input=stdin if stdin is not None else b'',
                           capture_output=True, env=env, cwd=box, timeout=60)
        status, err = r.returncode, r.stderr.decode('latin-1')
    except subprocess.TimeoutExpired:
        status, err = 'timeout', ''
    trace = B.read_trace(box)
    helper = []
    hp = box + '/helper.out'
    if os.path.exists(hp):
        for line in open(hp, encoding='latin-1').read().split('\n')[:-1]:
            kv = dict(x.split('=', 1) for x in line.split(' ') if '=' in x)
            helper.append(vlib.unhex(kv.get('stdin', '-')))
        os.unlink(hp)
    after = B.listing(box)
    appeared = sorted(p for p in after if p not in before)
    gone = sorted(p for p in before if p not in after)
    changed = sorted(p for p in before if p in after and before[p] != after[p])

    # ---- judge ----
    unfit = [d for d in derived if not d.fits]
    allfit = not unfit
    nothing = any(d.phase in ('config', 'env', 'pre') for d in unfit)       # the message must not move at all
    # a maildir that cannot be opened is reported and the run goes on with the next one (`other-unit`): the message of the second
    # block is delivered iff everything the second block builds fits
    own_fit = all(d.fits for d in derived if d.phase != 'other-unit')
    desc = ', '.join(repr(d) for d in derived)
    if status not in (0, 1, 75):
        probs.append('abnormal exit status %r (%s)' % (status, desc))
    if allfit and status != 0:
        probs.append('everything fits (%s) but the exit status is %r: %s' % (desc, status, err[-160:]))
    if unfit and status == 0:
        probs.append('%s does not fit (%s) but the exit status is 0' % (unfit[0].what, desc))
    if unfit and status != 0 and not err.strip():
        probs.append('%s does not fit but nothing is reported on stderr' % unfit[0].what)
    if changed:
        probs.append('files changed in place: %s' % ['...' + p[-50:] for p in changed[:3]])

    def at_want(p):
        if want.endswith('/'):
            return p.startswith(want) and '/' not in p[len(want):] and re.match(r'^1790000000\.4242_\d+\.host:2,$', p[len(want):]) is not None
        return p == want
    if spool:
        # stdin mode: the message comes from outside; delivered = exactly one new file, in the intended directory, complete
        left = subprocess.run(['find', '.', '-name', 'mdsort-*'], cwd=box, capture_output=True).stdout.decode('latin-1').strip()
        if left:
            probs.append('spool directory left behind (%s)' % desc)
        if gone:
            probs.append('files disappeared: %s' % gone[:2])
        if nothing and appeared:
            probs.append('%s does not fit but files appeared: %s' % (unfit[0].what, ['...' + p[-60:] for p in appeared[:2]]))
        for p in appeared:
            if not at_want(p):
                probs.append('delivered elsewhere than the intended directory / under a cut name: ...%s (%s)' % (p[-70:], desc))
            elif after[p] != len(MSG):
                probs.append('delivered copy has %d bytes, the message %d' % (after[p], len(MSG)))
        if len(appeared) > 1:
            probs.append('%d files appeared' % len(appeared))
        if status == 0 and len(appeared) != 1:
            probs.append('exit status 0 but %d files delivered' % len(appeared))
    else:
        src_gone = gone == [src_rel]
        if gone and not src_gone:
            probs.append('files disappeared: %s' % ['...' + p[-50:] for p in gone[:3]])
        if nothing and (appeared or gone):
            probs.append('%s does not fit (%s) but files appeared %s / disappeared %s' %
                         (unfit[0].what, desc, ['...' + p[-60:] for p in appeared[:2]], ['...' + p[-50:] for p in gone[:2]]))
        if want != src_rel:
            for p in appeared:
                if not at_want(p):
                    probs.append('the message appeared elsewhere than at its complete intended path: ...%s (%d characters; %s)' %
                                 (p[-70:], len(box) + len(p) - 1, desc))
            if len(appeared) > 1:
                probs.append('%d files appeared' % len(appeared))
            if bool(appeared) != bool(gone):
                probs.append('message accounting: appeared %s, disappeared %s' % (['...' + p[-40:] for p in appeared[:2]], ['...' + p[-40:] for p in gone[:2]]))
            if not allfit and own_fit and not (len(appeared) == 1 and src_gone):
                probs.append('%s does not fit (%s): the run must go on with the next maildir, but its message was not delivered: appeared %s, '
                             'disappeared %s' % (unfit[0].what, desc, appeared[:1], gone[:1]))
            if allfit and not (len(appeared) == 1 and src_gone):
                probs.append('everything fits (%s) but the message was not delivered: appeared %s, disappeared %s; %s' %
                             (desc, appeared[:1], gone[:1], err[-120:]))
            for p in appeared:
                if after[p] != before.get(src_rel, after[p]):
                    probs.append('the delivered file has %d bytes, the message %d' % (after[p], before.get(src_rel)))
        elif appeared or gone:
            probs.append('files appeared %s / disappeared %s' % (appeared[:2], gone[:2]))
    if cmd_expected is not None:
        need_ok = all(d.fits for d in derived if d.what in cmd_needs)
        if need_ok and helper != [cmd_expected]:
            probs.append('the command must run once with the decoded body (%s): it ran %d times' % (desc, len(helper)))
        if not need_ok and helper:
            probs.append('%s does not fit but the command was run' % [d.what for d in derived if d.what in cmd_needs and not d.fits][0])
    if fam == 'defconf-tmpdir':
        opened = [proc.unescape(t['args'].get('path', '')).decode('latin-1') for t in trace if t['kind'] == 'call' and t['name'] == 'fopen']
        if allfit and opened[:1] != [intended[0]]:
            probs.append('the default configuration fits but the file opened is %s' % ['%d characters' % len(o) for o in opened[:2]])
        if not allfit and opened:
            probs.append('%s does not fit, yet a configuration file was opened (%d characters)' % (unfit[0].what, len(opened[0])))
    probs += B.truncated_calls(trace, intended, len(box) + 8)
    B.shutil_rm(box)
    return {'family': 'pair-' + fam + ('-' + how if how else '') + ('-' + how2 if how2 else ''), 'a': a, 'b': b, 'status': status, 'problems': probs[:5], 'stderr': err[-200:],
            'derived': desc, 'rejected': bool(unfit), 'first_unfit': unfit[0].what if unfit else None,
            'config': conf if len(conf) < 400 else conf[:150] + ' ...(%d characters)... ' % len(conf) + conf[-200:]}


def jobs(w):
    """Every pair family, both lengths through limit-w .. limit+w."""
    P = range(PATH_MAX - w, PATH_MAX + w + 1)
    N = range(NAME_MAX + 1 - w, NAME_MAX + 1 + w + 1)
    out = []
    for how in ('literal', 'tilde', 'macro', 'interp'):
        out += [('msgpath-dest', a, b, how) for a in P for b in P]
        out += [('msgpath-isdir', a, b, how) for a in P for b in P]
        for how2 in ('literal', 'tilde', 'macro'):
            out += [('isdir-dest', a, b, how, how2) for a in P for b in P]
    for how in ('literal', 'tilde', 'macro'):
        out += [('root-dest', a, b, how) for a in P for b in P]
    for fam in ('msgpath-setfile', 'msgpath-exectmp', 'spool-dest', 'spool-setfile', 'tilde-exectmp'):
        out += [(fam, a, b, None) for a in P for b in P]
    for fam in ('host-setfile', 'host-flag'):
        out += [(fam, a, b, None) for a in N for b in P]
    out += [('defconf-tmpdir', a, b, None) for a in range(PATH_MAX - 13 - w, PATH_MAX - 13 + w + 1) for b in range(PATH_MAX - 2, PATH_MAX + 3)]
    out += [('home-tmpdir', a, b, None) for a in range(PATH_MAX - 2, PATH_MAX + 3) for b in range(PATH_MAX - 2, PATH_MAX + 3)]
    return out


def stage(rep, tools, w=6):
    import time
    t0 = time.time()
    js = jobs(w)
    vlib.log('C18 pairs: %d runs (window +-%d)' % (len(js), w))
    results = []
    done = [0]

    def do(j):
        r = run_pair(tools, *j)
        done[0] += 1
        if done[0] % 250 == 0:
            vlib.log('C18 pairs: %d / %d runs, %.0f s' % (done[0], len(js), time.time() - t0))
        return r
    nthreads = int(os.environ.get('VERIF_JOBS', '0')) or vlib.NCPU
    with cf.ThreadPoolExecutor(nthreads) as ex:
        results = list(ex.map(do, js))
    fam, bad = {}, 0
    firsts = {}
    for r in results:
        f = fam.setdefault(r['family'], {'runs': 0, 'rejected': 0, 'carried_out': 0})
        f['runs'] += 1
        f['rejected' if r['rejected'] else 'carried_out'] += 1
        if r['first_unfit']:
            firsts[r['first_unfit']] = firsts.get(r['first_unfit'], 0) + 1
        if r['problems']:
            bad += 1
            rep.finding('unlisted', {'family': r['family'], 'lengths': [r['a'], r['b']], 'strings_built': r['derived'], 'exit_status': r['status'],
                                     'what': r['problems'][:4], 'stderr': r['stderr'], 'config': r['config']})
    return {'runs': len(results), 'window': w, 'exhaustive': True, 'wall_s': round(time.time() - t0, 1), 'with_problems': bad,
            'rejected': sum(1 for r in results if r['rejected']), 'carried_out': sum(1 for r in results if not r['rejected']),
            'first_string_that_does_not_fit': firsts, 'families': fam,
            'rule': 'two path-carrying inputs in one run, both lengths through limit-%d .. limit+%d (every combination): message path x '
                    'destination / isdirectory (literal, ~, macro, back-reference) / new message path / exec temporary file; generated name '
                    '(host name, NAME_MAX) x new message path of a move / of a flag action; stdin spool x destination / new message path; ~ '
                    'destination x exec temporary file; maildir root of one block x destination of the next; isdirectory x destination in one '
                    'rule; default configuration path x TMPDIR; HOME x TMPDIR.  Judged: all strings fit => carried out at exactly the intended '
                    'paths, exit 0; one does not => non-zero exit and a diagnostic, nothing appears / disappears / runs when the string is built '
                    'before the rename, the message never anywhere but at its source or its complete intended path, no call names a '
                    'truncation' % (w, w)}
