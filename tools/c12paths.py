"""C12: message paths (and captured texts) that look like template syntax.

`${path}` stands for the path of the matched message: the maildir path as the configuration names it + `/new/` or `/cur/` + the file
name - text that comes from the mail store, not from the configuration.  Maildir file names encode `/` and `:` of the host part as
`\\057` and `\\072`, delivery agents put anything into the unique part, and a maildir may be called anything; so the value of `${path}`
may spell `\\1`, `\\0.1`, `${path}`, `${x}`, `$`, `{`, `}`, lone / doubled / trailing backslashes.  The property: the template is read
ONCE, left to right; what is substituted (a capture, the path) is data and never scanned again (Spec.interp, theorem C12_single_pass).

Two parts:

* `stage()` - process level, the REAL binary: maildirs called by the names of `props.c09.SPECIAL` and some more, holding messages whose
  file names are the look-alike names below and whose Subject (the captured text) is a look-alike too; `${path}` mixed with `\\N`,
  `\\M.N`, `\\N\\.` and literals in label, exec argv (with and without stdin / stdin body), add-header value and move destination, and
  the conditions `command` / `isdirectory` (back-references only: no macro table there).  The oracle `interp()` below is a rendering of
  Spec.interp in Python, independent of the C code and of the Lean model; what the exec helper recorded, the X-Label / added header of
  the final file and the maildir the message ended in must be EXACTLY the oracle's value, exit status 0, nothing on stderr.
  The value of `${path}` is the path at the moment the rule matched: matches_interpolate() runs over the whole action list before
  matches_exec() performs the first action (`move "D" exec { "h" "${path}" }` hands the helper the path the message HAD).
* `unit_cases()` - cases for the evaluator harness (h_expr `eval`): file names, maildir directories and header texts drawn from the
  look-alike alphabet, judged by tools/props/c12.py like its other cases (exact model comparison, every interpolated argument
  against `S interp` = Spec.interp of the Lean driver).
"""
import concurrent.futures as cf
import os
import re
import threading
import proc
import vlib
import worldscen as ws
import evalcommon as ec
from props import c09
from props.c13 import parse_helper

R = '@R@'
INT_MAX = 2**31 - 1
UNDEFINED = 'undefined'


# --------------------------------------------------------------------------
# the oracle: Spec.interp (lean/Mdsort/Spec/Interp.lean) rendered in Python
# --------------------------------------------------------------------------

def _digits(t, i):
    j = i
    while j < len(t) and 0x30 <= t[j] <= 0x39:
        j += 1
    return j


def itokens(t):
    """One left-to-right pass over the TEMPLATE: [('lit', byte) | ('ref', pattern, group) | ('macro', name)], or 'invalid' (a reported
    error: number above INT_MAX, unterminated `${`), or UNDEFINED (`\\N.` not followed by a digit: outside the documented syntax)."""
    out, i, n = [], 0, len(t)
    while i < n:
        c = t[i]
        if c == 0x5c and i + 1 < n and 0x30 <= t[i + 1] <= 0x39:
            j = _digits(t, i + 1)
            num = int(t[i + 1:j])
            if num > INT_MAX:
                return 'invalid'
            if j < n and t[j] == 0x2e:
                if j + 1 < n and 0x30 <= t[j + 1] <= 0x39:
                    k = _digits(t, j + 1)
                    grp = int(t[j + 1:k])
                    if grp > INT_MAX:
                        return 'invalid'
                    out.append(('ref', num, grp))
                    i = k
                    continue
                return UNDEFINED
            out.append(('ref', 0, num))
            # `\N\.`: the documented way to write a reference followed by a literal dot - the backslash is dropped
            i = j + 1 if t[j:j + 2] == b'\\.' else j
            continue
        if c == 0x24 and i + 1 < n and t[i + 1] == 0x7b:
            e = t.find(b'}', i + 2)
            if e < 0:
                return 'invalid'
            out.append(('macro', t[i + 2:e]))
            i = e + 1
            continue
        out.append(('lit', c))
        i += 1
    return out


def interp(t, caps, macros):
    """caps: capture lists of the rule's patterns in order; macros: {name: value} or None (no macro context).
    -> bytes, None (error: the message is left untouched) or UNDEFINED."""
    toks = itokens(t)
    if toks == UNDEFINED:
        return UNDEFINED
    if toks == 'invalid':
        return None
    out = bytearray()
    for tok in toks:
        if tok[0] == 'lit':
            out.append(tok[1])
        elif tok[0] == 'ref':
            if tok[1] >= len(caps) or tok[2] >= len(caps[tok[1]]):
                return None
            out += caps[tok[1]][tok[2]]
        else:
            if macros is None or tok[1] not in macros:
                return None
            out += macros[tok[1]]          # inserted as it is: never looked at again
    return bytes(out)


# --------------------------------------------------------------------------
# look-alike names
# --------------------------------------------------------------------------

# file names (latin-1 str, see proc.fsb): what maildir deliveries really produce first (`\057` = `/`, `\072` = `:` in the host part),
# then every single-digit reference, the two-number form, macros, the bare characters of the syntax, lone / doubled / trailing backslashes
FILES = (['1700000000.M1P1.mx\\057edge', '1700000001.R\\1Q.host', '1700000002.M2P2.h\\072\\057x', '\\057', '\\1.2', '${path}', '\\0'] +
         ['17%d.d\\%d' % (d, d) for d in range(10)] +
         ['30.n\\1.2m', '31.n\\0.1', '32.n\\2.1\\.', '33.${path}', '34.${x}', '35.$', '36.{', '37.}', '38.${', '39.$path', '40.a\\b', '41.a\\\\b',
          '42.tail\\', '43.tail\\\\', '44.\\\\1', '45.\\1${path}\\0', '46.\\10', '47.\\4294967297', '48.\\1\\.x', '49.\\1.', '50.}{$\\', '51.\\${path}',
          '52.${path', '53.\\0.0.0'])


def file_names():
    """The names above and every name of props.c09.SPECIAL that can be a message file name (no `/`; a `:` only as a flag suffix)."""
    out = list(FILES)
    for k, s in enumerate(c09.SPECIAL):
        if '/' in s or (':' in s and not re.search(r':2,[A-Za-z]*$', s)):
            continue
        out.append('%d.%s' % (60 + k, s))
    return out


# maildir names besides props.c09.SPECIAL (relative paths: a look-alike PARENT component counts as well)
DIRS = ['mx\\057edge', 'h\\072p', 'n\\1.2m', 'p${x}', '${path}', 'dd\\\\1', 'tb\\/in', 'q}{$', '\\3', 'e\\9/\\0']
PLAIN = 'src'

# Subject texts = what the first pattern captures: two words without blanks
SUBJECTS = [b'hello world', b'a\\1 b\\0', b'${path} \\2', b'\\057 \\072', b'\\1.2 ${x}', b'$ {', b'} \\', b'\\\\1 \\\\', b'${ }', b'x\\ y\\',
            b'\\0 \\0.0', b'path {path}', b'\\2.1 \\1\\.', b'${path}${path} $${path}']
XLABELS = [None, None, b'old', b'\\9 ${path}', b'kept \\1 ${x} {']

# the rule: pattern 0 = Subject (\0 = \0.0 the whole text, \1, \2 the words), pattern 1 = X-Id (\1.1), pattern 2 = the rule selector (\2.1)
COND = 'header "Subject" /^([^ ]+) ([^ ]+)$/ and header "X-Id" /^([0-9]+)$/ and header "X-T" /^(%s)$/'

# templates (none ends in a backslash: `\"` is the one escape of the configuration's strings)
TEMPLATES = ['${path}', 'x${path}y', '\\1${path}\\2', '${path}\\0', '\\2.1-${path}-\\0.2', '\\0.1\\.${path}', '${path}${path}', '\\\\${path}\\\\z',
             '${path}1', '${path}.1', '$${path}{', '{${path}}', '\\1.1:${path}', '${x}${path}', '\\2${path}\\1${path}', '${path}\\1\\.\\2',
             '\\1 \\0 \\2.1 ${path}', '\\${path}0', '${path}\\0.0', '$\\1{${path}}\\2.0']
# references to a group / pattern the rule does not have: an error that leaves the message untouched
BAD_TEMPLATES = ['\\3${path}', '${path}\\0.3', '\\3.0${path}', '\\1.2${path}', '${path}\\9', '\\2147483648${path}']
# arguments of the conditions `command` and `isdirectory`: interpolated while the rule is evaluated, back-references only
COND_TEMPLATES = ['\\1', 'x\\2-\\0', '\\0.2\\.\\0.1', '\\1\\2', '\\2.1\\1.1', '\\2$\\1{', '\\0', '{\\1}\\2.0']

CONTEXTS = ['label', 'label-list', 'exec', 'exec-stdin', 'exec-body', 'add-header', 'move', 'move-exec']
# conditions: the action of these rules is add-header "X-Out"
COND_CONTEXTS = ['command', 'isdirectory', 'isdirectory-absent']
# `${path}` where no macro table exists: refused when the configuration is read ("macro used in wrong context"); spelled so that it only
# comes into being by the parse-time expansion (`${d}{path}`, d = "$") it is refused when the condition is evaluated ("invalid macro")
NOMACRO_CONTEXTS = ['command-path', 'isdirectory-path', 'command-path-late', 'isdirectory-path-late']
HELPER_ID = '"@HELPER@" "\\1.1"'       # the helper's first argument says which message it was run for
NTEMPL = {'label': 1, 'label-list': 2, 'exec': 2, 'exec-stdin': 2, 'exec-body': 1, 'add-header': 1, 'move': 1, 'move-exec': 2}
NCOND = {'command': 2, 'isdirectory': 1, 'isdirectory-absent': 1}


def action_text(ctx, ts):
    if ctx == 'label':
        return 'label "%s"' % ts[0]
    if ctx == 'label-list':
        return 'label { "%s" "%s" }' % (ts[0], ts[1])
    if ctx == 'exec':
        return 'exec { %s "%s" "%s" }' % (HELPER_ID, ts[0], ts[1])
    if ctx == 'exec-stdin':
        return 'exec stdin { %s "%s" "%s" }' % (HELPER_ID, ts[0], ts[1])
    if ctx == 'exec-body':
        return 'exec stdin body { %s "%s" }' % (HELPER_ID, ts[0])
    if ctx == 'add-header':
        return 'add-header "X-Out" "%s"' % ts[0]
    if ctx == 'move':
        return 'move "%s/out/%s"' % (R, ts[0])
    if ctx == 'move-exec':
        return 'move "%s/dstA" exec { %s "%s" "%s" }' % (R, HELPER_ID, ts[0], ts[1])
    raise ValueError(ctx)


def cond_text(ctx, cts):
    if ctx == 'command':
        return ' and command { %s "%s" "%s" }' % (HELPER_ID, cts[0], cts[1])
    if ctx == 'isdirectory':
        return ' and isdirectory "%s/isd/%s"' % (R, cts[0])
    if ctx == 'isdirectory-absent':
        return ' and isdirectory "%s/isd/none/%s"' % (R, cts[0])
    if ctx.startswith('command-path'):
        return ' and command { %s "%s" }' % (HELPER_ID, '${d}{path}' if ctx.endswith('late') else '${path}')
    if ctx.startswith('isdirectory-path'):
        return ' and isdirectory "%s"' % ('${d}{path}' if ctx.endswith('late') else '${path}')
    return ''


def L(s):
    return s.encode('latin-1') if isinstance(s, str) else s


class Msg:
    def __init__(self, i, md, sub, name, subject, xlabel, tag):
        self.i, self.md, self.sub, self.name, self.subject, self.xlabel, self.tag = i, md, sub, name, subject, xlabel, tag
        self.body = b'body of message %d\nsecond line \\1 ${path} \\0.1\n' % i
        self.head = [(b'To', b'user%d@example.com' % i), (b'X-Id', b'%d' % i), (b'Subject', subject)]
        if xlabel is not None:
            self.head.append((b'X-Label', xlabel))
        self.head.append((b'X-T', L(tag)))
        self.data = b''.join(k + b': ' + v + b'\n' for k, v in self.head) + b'\n' + self.body
        self.rel = '%s/%s/%s' % (md, sub, name)
        w = subject.split(b' ')
        self.caps = [[subject, w[0], w[1]], [b'%d' % i] * 2, [L(tag)] * 2]


class Run:
    """One run of mdsort: one maildir (named by its absolute path, below $HOME through `~`, or with a trailing slash), one context,
    a handful of rules (one per template tuple, selected by the X-T header of the message), every look-alike file name once."""

    def __init__(self, md, ctx, rot, tilde=False, bad=False, slash=False):
        self.md, self.tilde, self.ctx, self.rot, self.bad, self.slash = md, tilde, ctx, rot, bad, slash
        self.rel = ('home/' if tilde else '') + md
        # the action of the rules; how the run is expected to fail, if it is
        self.actx = ctx if ctx in CONTEXTS else 'add-header'
        self.fail = 'reference' if bad else None if ctx not in NOMACRO_CONTEXTS else 'evaluation' if ctx.endswith('late') else 'parse'
        pool = BAD_TEMPLATES if bad else TEMPLATES
        nt, nc = NTEMPL[self.actx], NCOND.get(ctx, 0)
        self.rules = {}
        for k in range(len(pool) if bad else 6):
            ts = [pool[(rot * 7 + k * nt + j) % len(pool)] for j in range(nt)]
            if bad and nt > 1:
                ts = [ts[0]] + [TEMPLATES[(rot + k + j) % len(TEMPLATES)] for j in range(1, nt)]      # one failing argument is enough
            cts = [COND_TEMPLATES[(rot * 3 + k * nc + j) % len(COND_TEMPLATES)] for j in range(nc)]
            self.rules['t%d' % k] = (cts, ts)
        names = file_names()
        if self.actx in ('label', 'label-list', 'add-header'):
            # a line break in a header value is the subject of another property (C08): no such name where the path becomes a header value
            names = [n for n in names if '\n' not in n]
        tags = sorted(self.rules)
        self.msgs = []
        for i, name in enumerate(names):
            sub = 'cur' if i % 4 == 3 else 'new'
            if sub == 'cur' and ':2,' not in name:
                name += ':2,S'
            self.msgs.append(Msg(i + 1, self.rel, sub, name, SUBJECTS[(i + rot) % len(SUBJECTS)], XLABELS[(i + 2 * rot) % len(XLABELS)],
                                 tags[(i + rot) % len(tags)]))

    def describe(self):
        return {'maildir': self.md, 'context': self.ctx, 'rotation': self.rot, 'through_tilde': self.tilde, 'failing_references': self.bad,
                'written_with_trailing_slash': self.slash}

    @staticmethod
    def from_description(d):
        return Run(d['maildir'], d['context'], d['rotation'], tilde=d['through_tilde'], bad=d['failing_references'], slash=d['written_with_trailing_slash'])

    def needs_x(self):
        return any('${x}' in t for cts, ts in self.rules.values() for t in ts)

    def rule_text(self, tag):
        cts, ts = self.rules[tag]
        return 'match %s%s %s' % (COND % tag, cond_text(self.ctx, cts), action_text(self.actx, ts))

    def config(self):
        ref = c09.mdref(self.rel) + ('/' if self.slash else '')
        text = 'maildir "%s" {\n%s\n}\n' % (ref, '\n'.join('\t' + self.rule_text(tag) for tag in sorted(self.rules)))
        return ('d = "$"\n' if '${d}' in text else '') + ('x = "mx"\n' if self.needs_x() else '') + text

    def path_of(self, root, m):
        """The message's path as mdsort names it: the maildir as the configuration writes it (`~` = $HOME), the subdirectory, the file name."""
        return L('%s/%s%s/%s/%s' % (root, self.rel, '/' if self.slash else '', m.sub, m.name))

    def values(self, root, m):
        """-> (values of the condition's templates: no macro table, values of the action's templates: ${path}, and x where defined)"""
        cts, ts = self.rules[m.tag]
        macros = {b'path': self.path_of(root, m)}
        if self.needs_x():
            macros[b'x'] = b'mx'
        return [interp(L(t), m.caps, None) for t in cts], [interp(L(t), m.caps, macros) for t in ts]


def headers_of(data):
    head, sep, body = data.partition(b'\n\n')
    hs = []
    for line in head.split(b'\n'):
        k, c, v = line.partition(b':')
        hs.append((k, v[1:] if v.startswith(b' ') else v))
    return hs, body


def show(b):
    return None if b is None else (b if isinstance(b, str) else b.decode('latin-1'))


_box_lock = threading.Lock()


def execute(tools, run):
    """-> (problems of this run: [{what, message_file, rule, path_value, expected, observed}], facts)"""
    tree = {}
    for d in (run.rel, 'dstA'):
        tree.update(proc.maildir_tree(d, {}))
    for m in run.msgs:
        tree[m.rel] = m.data
    with _box_lock:
        scen = ws.Spec('c12paths', run.config(), [], tree=tree).build(tools)
    try:
        root = scen.root
        expect = {}
        for m in run.msgs:
            cvals, vals = run.values(root, m)
            expect[m.i] = (cvals, vals)
            # directories the documented values name: the destination maildir of a move, the directory an isdirectory condition asks for
            if run.ctx == 'move' and vals[0] is not None:
                for s in ('new', 'cur', 'tmp'):
                    os.makedirs(proc.fsb(root) + b'/out/' + vals[0] + b'/' + L(s), exist_ok=True)
            if run.ctx == 'isdirectory':
                os.makedirs(proc.fsb(root) + b'/isd/' + cvals[0], exist_ok=True)
        r = scen.run(trace=False)
        return judge(run, root, r, expect), {'status': r.status, 'messages': len(run.msgs), 'helper_records': len(r.helper)}
    finally:
        scen.cleanup()


def judge(run, root, r, expect):
    probs = []

    def S(b):
        return None if b is None else show(b).replace(root, R)

    def P(m, what, expected=None, observed=None):
        probs.append({'what': what, 'message_file': m.rel, 'subject': show(m.subject), 'existing_x_label': show(m.xlabel),
                      'rule': run.rule_text(m.tag), 'path_value': S(run.path_of(root, m)), 'expected': expected, 'observed': observed})

    err = r.err[-600:].decode('latin-1').replace(root, R)
    want_status = 1 if run.fail else 0
    if r.status != want_status:
        probs.append({'what': 'exit status %s, expected %d' % (r.status, want_status), 'stderr': err})
    elif not run.fail and r.err:
        probs.append({'what': 'mdsort reported something although every reference and macro is valid', 'stderr': err})
    elif run.fail and len(r.err.split(b'\n')) - 1 < (1 if run.fail == 'parse' else len(run.msgs)):
        probs.append({'what': 'an error must be reported (for every message, when it arises from the message)', 'stderr': err})
    files = {rel: v[1] for rel, v in r.final.items() if v[0] == 'file' and re.search(r'/(new|cur)/[^/]+$', rel)}
    byid = {}
    for rel, data in files.items():
        i = ws.msg_id(data)
        if i is not None:
            byid.setdefault(i, []).append(rel)
    records, stray = {}, []
    for line in r.helper:
        argv, stdin, fds, target = parse_helper(line)
        if argv and argv[0].isdigit() and int(argv[0]) not in records:
            records[int(argv[0])] = (argv, stdin)
        else:
            stray.append([S(a) for a in argv])
    runs_command = 'exec' in run.ctx or run.ctx == 'command'
    for m in run.msgs:
        cvals, vals = expect[m.i]
        where = byid.get(m.i, [])
        if len(where) != 1:
            P(m, 'the message exists %d times after the run' % len(where), observed=where)
            continue
        rel = where[0]
        data = files[rel]
        fmd, fsub, fname = rel.rsplit('/', 2)
        if run.fail or run.ctx == 'isdirectory-absent':
            if rel != m.rel or data != m.data:
                P(m, 'an argument that cannot be interpolated is an error that leaves the message untouched' if run.fail else
                  'the rule must not match: the directory the condition names does not exist', expected=m.rel, observed=rel)
            if m.i in records:
                P(m, 'the command was run although one of its arguments cannot be interpolated', observed=[S(a) for a in records[m.i][0]])
            continue
        if any(v is None or v == UNDEFINED for v in cvals + vals):
            P(m, 'generator error: a template of the valid set has no value')
            continue
        if runs_command:
            wargs = cvals if run.ctx == 'command' else vals
            rec = records.get(m.i)
            if rec is None:
                P(m, 'the command was not run for this message (no record with its X-Id as first argument)',
                  expected=[S(b'%d' % m.i)] + [S(v) for v in wargs], observed=stray[:3])
                continue
            argv, stdin = rec
            if argv != [b'%d' % m.i] + wargs:
                P(m, 'arguments the command was run with', expected=[S(b'%d' % m.i)] + [S(v) for v in wargs], observed=[S(a) for a in argv])
            wstdin = {'exec-stdin': m.data, 'exec-body': m.body}.get(run.ctx, b'')
            if stdin != wstdin:
                P(m, 'standard input of the command', expected=show(wstdin), observed=S(stdin))
        if run.actx in ('label', 'label-list', 'add-header'):
            hs, body = headers_of(data)
            ohs, obody = headers_of(m.data)
            key = b'X-Out' if run.actx == 'add-header' else b'X-Label'
            want = vals[0] if run.actx == 'add-header' else b' '.join(([m.xlabel] if m.xlabel is not None else []) + vals)
            got = [v for k, v in hs if k.lower() == key.lower()]
            if got != [want]:
                P(m, '%s of the message after the run' % key.decode(), expected=S(want), observed=[S(g) for g in got])
            if sorted((k, v) for k, v in hs if k.lower() != key.lower()) != sorted((k, v) for k, v in ohs if k.lower() != key.lower()) or body != obody:
                P(m, 'the other headers or the body changed', expected=show(m.data), observed=S(data))
            if (fmd, fsub) != (m.md, m.sub):
                P(m, 'the message left its maildir / subdirectory', expected='%s/%s' % (m.md, m.sub), observed=rel)
        elif run.actx == 'move':
            wdir = os.path.normpath('out/' + show(vals[0])) + '/' + m.sub
            if os.path.normpath(fmd + '/' + fsub) != wdir:
                P(m, 'destination of the move', expected=S(L(wdir)), observed='%s/%s' % (fmd, fsub))
            if data != m.data:
                P(m, 'content changed by a move', expected=show(m.data), observed=S(data))
        else:
            wplace = ('dstA', m.sub) if run.actx == 'move-exec' else (m.md, m.sub)
            if (fmd, fsub) != wplace or data != m.data or (run.actx != 'move-exec' and rel != m.rel):
                P(m, 'place or content of the message after the run', expected='%s/%s' % wplace, observed=rel)
    if stray or (r.helper and not runs_command) or (runs_command and not run.fail and len(r.helper) != len(run.msgs)):
        probs.append({'what': 'records of the command that belong to no message, or several for one message', 'records': len(r.helper),
                      'messages': len(run.msgs), 'examples': stray[:3]})
    return probs


# --------------------------------------------------------------------------
# the stage
# --------------------------------------------------------------------------

def maildirs():
    return [PLAIN] + list(c09.SPECIAL) + DIRS


def plan(tier, seed):
    """The runs of one check.  Thorough: every maildir name x every context.  Quick: every context on the plain maildir, and on every
    look-alike maildir a third of the contexts (which third depends on the seed); each run holds every look-alike file name."""
    runs = []
    ctxs = CONTEXTS + COND_CONTEXTS
    for k, md in enumerate(maildirs()):
        for c, ctx in enumerate(ctxs):
            header_value = ctx in ('label', 'label-list', 'add-header') or ctx in COND_CONTEXTS
            if '\n' in md and header_value:
                continue        # see Run: a line break in a header value
            if tier == 'quick' and md != PLAIN and (k + c + seed) % 3 != 0:
                continue
            runs.append(Run(md, ctx, seed * 31 + k * 11 + c, tilde=(k + c + seed) % 4 == 1))
    # the maildir written with a trailing slash: the path mdsort builds has `//`
    for c, (md, ctx) in enumerate((('m\\1x', 'exec'), (PLAIN, 'label'), ('mx\\057edge', 'move'))):
        runs.append(Run(md, ctx, seed * 17 + c, slash=True))
    # references to groups / patterns the rule does not have, next to ${path}
    for k, md in enumerate((PLAIN, 'm\\1x', 'mx\\057edge')):
        for c, ctx in enumerate(CONTEXTS):
            if tier != 'quick' or (k + c + seed) % 2 == 0:
                runs.append(Run(md, ctx, seed * 13 + k * 5 + c, bad=True))
    # ${path} in the arguments that have no macro table
    for k, md in enumerate((PLAIN, 'p${path}')):
        for c, ctx in enumerate(NOMACRO_CONTEXTS):
            runs.append(Run(md, ctx, seed + k + c, tilde=bool(k)))
    return runs


RULE = ('the real binary on maildirs called %d names (plain, the %d of props.c09.SPECIAL, %d more: `\\057`/`\\072`, `\\N`, `\\M.N`, `${path}`, `${x}`, '
        'doubled / trailing backslash, as last and as parent component; by absolute path, through ~, with a trailing slash), each holding %d '
        'messages whose FILE NAMES are look-alikes (real maildir names with `\\057` `\\072`; `\\0`..`\\9`, `\\1.2`, `\\10`, `\\4294967297`, '
        '`${path}`, `${x}`, `${`, `$`, `{`, `}`, lone / doubled / trailing backslashes, the SPECIAL names) and whose Subject - the captured text - '
        'is one of %d look-alike texts, some with an existing X-Label that looks like a template; %d templates mixing ${path} with \\N, \\M.N, '
        '\\N\\. and literals (also: ${path} directly followed by `1`, `.1`, `\\0`) in label, label list, exec argv, exec stdin, exec stdin body, '
        'add-header value, move destination, move + exec; back-references to look-alike captures in command and isdirectory; references to '
        'missing groups / patterns and ${path} in command / isdirectory (no macro table: refused at parse time, or at evaluation time when it '
        'only arises by parse-time expansion) must fail with the message untouched and no command run.  Oracle: Spec.interp rendered in Python '
        '(one pass over the template; ${path} = maildir as written + /new|cur/ + file name, as of the moment the rule matched); the helper\'s '
        'argv and stdin, the X-Label / added header of the final file (other headers and body unchanged) and the maildir the message ended in '
        'must equal the oracle\'s value exactly, exit status 0, nothing on stderr')


def stage(rep, tools):
    runs = plan(rep.tier, rep.seed)

    def one(run):
        try:
            return execute(tools, run)
        except Exception as e:          # an infrastructure failure must not pass for "nothing found"
            return [{'what': 'the run could not be carried out: %r' % (e,)}], {'status': None, 'messages': 0, 'helper_records': 0}

    with cf.ThreadPoolExecutor(min(8, vlib.NCPU)) as ex:
        res = list(ex.map(one, runs))
    stat = {'runs': len(runs), 'messages': 0, 'helper_records': 0, 'runs_with_problems': 0, 'by_context': {}, 'maildir_names': len(maildirs()),
            'file_names': len(file_names()), 'expected_failures': 0,
            'rule': RULE % (len(maildirs()), len(c09.SPECIAL), len(DIRS), len(file_names()), len(SUBJECTS), len(TEMPLATES))}
    reported = 0
    for run, (probs, facts) in zip(runs, res):
        stat['messages'] += facts['messages']
        stat['helper_records'] += facts['helper_records']
        stat['by_context'][run.ctx] = stat['by_context'].get(run.ctx, 0) + 1
        stat['expected_failures'] += bool(run.fail)
        if not probs:
            continue
        stat['runs_with_problems'] += 1
        if reported < 5:
            reported += 1
            rep.finding('unlisted', {'stage': 'c12paths', 'harness': 'process (real binary)', 'run': run.describe(), 'config': run.config(),
                                     'exit_status': facts['status'], 'problems': len(probs), 'first_problems': probs[:4],
                                     'what': 'an interpolated argument is not the single-pass value of its template (Spec.interp), or the run failed'})
    return stat


def replay(rep, tools, j):
    run = Run.from_description(j['run'])
    probs, facts = execute(tools, run)
    print('run            %s' % (run.describe(),))
    print('exit status    %s, %d messages, %d problems' % (facts['status'], facts['messages'], len(probs)))
    for p in probs[:6]:
        print('problem        %s' % (p,))
    if probs:
        rep.finding('unlisted', {'stage': 'c12paths', 'run': run.describe(), 'config': run.config(), 'problems': len(probs), 'first_problems': probs[:4]})


# --------------------------------------------------------------------------
# cases for the evaluator harness
# --------------------------------------------------------------------------

ALPHABET = ['\\', '\\', '\\\\', '.', '$', '{', '}', 'path', 'x', '${path}', '${x}', '${', '\\0', '\\1', '\\2', '\\9', '\\057', '\\072', '\\1.2', '\\0.1',
            '0', '1', '2', '7', 'a', '-']


def lookalike(rng, lo, hi):
    return ''.join(rng.choice(ALPHABET) for _ in range(rng.randrange(lo, hi)))


def unit_cases(rng, n):
    """Rules with two capturing patterns whose subjects (Subject: two words, To: local part and domain) are drawn from the look-alike
    alphabet, on messages whose file name - and in a third of the cases whose maildir directory - is drawn from it as well, so that the
    value of ${path} spells references and macros; templates mix \\N, \\M.N, \\N\\., ${path} and literals of the same alphabet."""
    cases = []
    cond = 'header "Subject" /^([^ ]*) ([^ ]*)$/%s and header "To" /(u[^@]*)@(.*)/%s'
    for _ in range(n):
        f1, f2 = rng.choice(['', '', 'l', 'u']), rng.choice(['', '', 'i', 'u'])
        pats = [('^([^ ]*) ([^ ]*)$', f1), ('(u[^@]*)@(.*)', f2)]

        def tmpl():
            out = ''
            for _ in range(rng.randrange(1, 5)):
                out += rng.choice(['${path}', '${path}', '\\%d' % rng.randrange(3), '\\%d.%d' % (rng.randrange(2), rng.randrange(3)), '\\%d\\.' % rng.randrange(3),
                                   rng.choice(ALPHABET[:9] + ALPHABET[20:])])
            if rng.random() < 0.04:
                out += rng.choice(['\\3', '\\2.0', '\\0.3', '\\1.3'])        # a group / pattern the rule does not have
            return out + ('z' if out.endswith('\\') else '')
        acts = []
        for _ in range(rng.randrange(1, 4)):
            w = rng.randrange(4)
            if w == 0:
                acts.append('move "~/dst/%s"' % tmpl())
            elif w == 1:
                acts.append('label { "%s" "%s" }' % (tmpl(), tmpl()))
            elif w == 2:
                acts.append('exec { "echo" "%s" "%s" }' % (tmpl(), tmpl()))
            else:
                acts.append('add-header "X-Out" "%s"' % tmpl())
        conf = 'maildir "~/md" {\n\tmatch %s %s\n}\n' % (cond % (f1, f2), ' '.join(acts))
        msg = (b'To: u' + L(lookalike(rng, 0, 3)) + b'@' + L(lookalike(rng, 0, 3)) + b'\nSubject: ' + L(lookalike(rng, 1, 4)) + b' ' + L(lookalike(rng, 1, 4)) +
               b'\nX-Label: ' + L(lookalike(rng, 1, 4)) + b'\n\nbody ' + L(lookalike(rng, 0, 4)) + b'\n')
        name = rng.choice(['', '1.', '1700000000.M1P1.']) + lookalike(rng, 1, 6)
        if name in ('.', '..'):
            name = 'n' + name
        sub = rng.choice(['new', 'cur'])
        if sub == 'cur' or rng.random() < 0.2:
            name += ':2,' + rng.choice(['', 'S', 'FS'])
        md = 'md' if rng.random() < 0.66 else 'md' + lookalike(rng, 1, 4) + rng.choice(['', '/' + lookalike(rng, 1, 3)])
        cases.append(ec.Case(conf, pats, msg, md + '/' + sub, name, '0'))
    return cases
