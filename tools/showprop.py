#!/usr/bin/env python3
"""showprop.py Cxx [out]  -- print statement / quantifier of a property from properties.jsonl"""
import json
import os
import sys
root = os.path.dirname(os.path.dirname(os.path.abspath(__file__)))
for line in open(os.path.join(root, 'properties.jsonl')):
    p = json.loads(line)
    if p['id'] == sys.argv[1]:
        text = 'STATEMENT: %s\n\nQUANTIFIER: %s\n\nWHY: %s\n' % (p['statement'], p['quantifier'].get('text'), p['why_tests_cant'])
        if len(sys.argv) > 2:
            open(sys.argv[2], 'w').write(text)
        else:
            print(text)
