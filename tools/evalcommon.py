"""Shared driver of the evaluator harness (harness/unit/h_expr.c) for C03, C06, C10, C11, C12.

A case is (config text, pattern list, message bytes, subdir, file name, dry-run flag).
The real parser's dump of the tree (with line numbers and expanded strings) is completed
with the pattern sources and handed to the model (`M eval`) and to the specification
(`S eval`)."""
import time
import vlib

INCLUDED = ['message.c', 'maildir.c', 'time.c', 'match.c', 'expr.c', 'util.c', 'macro.c']
NOW = 1790000000
ACTION_TYPES = {'move', 'flag', 'flags', 'discard', 'label', 'reject', 'exec', 'add_header'}


class Case:
    __slots__ = ('conf', 'pats', 'msg', 'sub', 'name', 'dry', 'tz', 'impl', 'path', 'ast', 'model', 'spec', 'note', 'mtime', 'times', 'locale')

    def __init__(self, conf, pats, msg, sub='new', name='1.host', dry='0', tz=None, mtime=None):
        if '/' not in sub:
            sub = 'md/' + sub
        self.conf, self.pats, self.msg, self.sub, self.name, self.dry, self.tz = conf, pats, msg, sub, name, dry, tz
        self.impl = self.path = self.ast = self.model = self.spec = self.note = None
        # mtime: the message file gets this modification time (seconds) before it is parsed; the harness then reports the
        # three stat times the evaluator saw (`times`), which are handed to the model as its file-time oracle
        self.mtime, self.times = mtime, None
        self.locale = None      # LC_ALL the case was run under (set by the caller; None = the check's default)

    def request(self):
        a = ['eval', vlib.hexs(self.conf.encode('latin-1')), vlib.hexs(self.msg), vlib.hexs(self.sub.encode()),
             vlib.hexs(self.name.encode()), vlib.hexs(self.dry.encode()), vlib.hexs(str(NOW).encode())]
        if self.tz or self.mtime is not None:
            a.append(vlib.hexs((self.tz or 'UTC').encode()))
        if self.mtime is not None:
            a.append(vlib.hexs(str(self.mtime).encode()))
        return ' '.join(a)

    def readable(self):
        return {'config': self.conf, 'message': repr(self.msg), 'subdir': self.sub, 'file': self.name, 'dryrun': self.dry, 'request': self.request(),
                **({'locale': 'LC_ALL=' + self.locale} if self.locale else {})}


def harness(sc):
    return sc.unit_harness('h_expr', INCLUDED), dict(vlib.ASAN_ENV, HARNESS_TMP=sc.dir)


def fill_patterns(ast_tokens, pats):
    res, k, j = [], 0, 0
    while j < len(ast_tokens):
        if ast_tokens[j] == '?':
            if k >= len(pats):
                return None
            src, fl = pats[k]
            k += 1
            res.append(vlib.hexs(src.encode('latin-1')))
            lf = ast_tokens[j + 1].rstrip('.')
            res.append((('i' if 'i' in fl else '') + lf) or '-')
            j += 2
        else:
            res.append(ast_tokens[j])
            j += 1
    return ' '.join(res) if k == len(pats) else None


def run_cases(h, env, cases, want_spec=True, denv=None):
    """Fills impl / model / spec of every case. impl is the text after 'RES '.
    denv: environment of the Lean driver (its regex library, mbtowc and wcwidth follow LC_ALL/LC_CTYPE like the harness)."""
    out = vlib.run_batch([h], [c.request() for c in cases], env)
    mreq, sreq, idx = [], [], []
    for c, o in zip(cases, out):
        if o.startswith('FAULT'):
            c.impl, c.note = o, 'fault'
            continue
        if not o.startswith('PATH'):
            c.impl, c.note = o, 'noeval'
            continue
        toks = o.split(' ')
        c.path = toks[1]
        a, r = toks.index('AST'), toks.index('RES')
        if 'TIMES' in toks[r:]:
            t = len(toks) - 1 - toks[::-1].index('TIMES')
            c.times = toks[t + 1:t + 7]
            toks = toks[:t]
        c.impl = ' '.join(toks[r + 1:])
        ast = fill_patterns(toks[a + 1:r], c.pats)
        if ast is None:
            c.note = 'pattern-count'
            continue
        c.ast = ast
        tail = [vlib.hexs(ast.encode()), vlib.hexs(c.msg), c.path, vlib.hexs(c.dry.encode()), vlib.hexs(str(NOW).encode())]
        if c.times and len(c.times) == 6:
            # file-time oracle of the model: \x01T<atime> <mtime> <ctime>\x01<fmt a>\x01<fmt m>\x01<fmt c>  (passed in the place of a directory)
            blob = b'\x01T' + ' '.join(c.times[:3]).encode() + b''.join(b'\x01' + vlib.unhex(x) for x in c.times[3:])
            tail.append(vlib.hexs(blob))
        mreq.append('M eval ' + ' '.join(tail))
        sreq.append('S eval ' + ' '.join(tail))
        idx.append(c)
    mo = vlib.run_batch([vlib.driver_path()], mreq, denv)
    so = vlib.run_batch([vlib.driver_path()], sreq, denv) if want_spec else [None] * len(idx)
    for c, m, s in zip(idx, mo, so):
        c.model, c.spec = m, s
    return cases


def impl_core(c):
    """The implementation's answer without the dry-run text (compared separately)."""
    e = c.impl.split(' ')
    return ' '.join(e[:5]) if len(e) >= 6 else c.impl


def model_core(c):
    """The model's answer without the dry-run text (the text is compared by C06 only)."""
    if c.model is None:
        return None
    e = c.model.split(' ')
    return ' '.join(e[:5]) if len(e) >= 6 else c.model


def impl_dry_text(c):
    e = c.impl.split(' ')
    return vlib.unhex(e[5]) if len(e) >= 6 else None


def parse_ml(field):
    """[(type, lno, part, path, maildir, subdir, subs, argv, key, val)]"""
    if field == '':
        return []
    res = []
    for ent in field.split(';'):
        f = ent.split(',')
        res.append(f)
    return res


def impl_plan(c):
    """(tri, [non move/flag action keys], last move/flag key) as the implementation executed/would execute."""
    e = c.impl.split(' ')
    tri = e[0]
    if tri != 'MATCH':
        return tri, [], '-'
    ml = parse_ml(e[1])
    keys = ['%s:%s' % (f[0], f[1]) for f in ml if f[0] in ACTION_TYPES]
    np = [k for k in keys if k.split(':')[0] not in ('move', 'flag')]
    mf = [k for k in keys if k.split(':')[0] in ('move', 'flag')]
    return tri, np, (mf[-1] if mf else '-')


def spec_plan(c):
    """(tri, crosses, non-path keys, last path key, placement class) or None when outside the specification (not a tree the
    grammar builds, a matcher that depends on the match list, `NOTWF MIXED`: an action list with both pass and break).
    placement class (Driver `placementClass`): 'PLACED' = every action list is Proofs.placedOK, the domain of
    C03_eval_refines_spec_wide; 'AFTERPASS' / 'ATTAFTERBREAK' = the documented outcome is still computed, the evaluator is
    known to depart from it (C03_actions_after_pass_ignored, C03_att_after_break_consumes_break)."""
    if c.spec is None or c.spec.split(' ')[0] in ('NOTWF', 'BADAST', 'BADOP'):
        return None
    e = c.spec.split(' ')
    np = e[2][1:-1]
    return e[0], e[1] == 'CROSSES', (np.split(',') if np else []), e[3], (e[4] if len(e) > 4 else 'PLACED')


def gm(t):
    return time.strftime('%a, %d %b %Y %H:%M:%S', time.gmtime(t)).encode()
