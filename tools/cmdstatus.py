"""Outcomes of the programs mdsort runs - `command` conditions and `exec` actions - and their documented meaning.

Shared stage of C04 ("any ... command ... error yields a non-zero status, and an error concerning one message ... does not prevent the
remaining messages and maildirs from being processed") and C13 ("a non-zero exit of exec is an error that stops further actions on
that message, while a non-zero exit of command just means no match").  mdsort.conf(5): `command` "evaluates to true if command exits
zero"; `exec` "execute command".  mdsort(1): exit status >0 if an error occurred.

THE ORACLE (written from these texts, not from the binary):

  outcome of the program                      `command` condition                  `exec` action
  ------------------------------------------  -----------------------------------  -----------------------------------------------
  runs and exits 0                            match                                success, the next action runs
  runs and exits 1..126, 128..255             no match: the next rule is tried,    error for that message: later actions not run,
                                              the run's exit status is not          non-zero exit status, other messages processed
                                              affected
  cannot be executed (no such file, not        ERROR: the message is left            error (as above)
  executable, a directory, bad interpreter,   untouched, non-zero exit status
  a path through a non-directory; the child   (75 with `-`), the other messages
  then exits 127), exits 127 itself, fork     and maildirs are still processed
  fails, waitpid fails
  killed by a signal                          PINNED to what the code does today:  error (as above)
                                              no match (exec() returns 128+sig;
                                              the property texts do not decide it,
                                              see `SIGNAL_NOTE`)

The programs are real: links to the exec helper named `cmd-exit-N` / `cmd-signal-N` (harness/shim/exechelper.c takes its outcome
from the name and records argv, stdin and descriptors), files that are there but cannot be executed, scripts, names resolved
through PATH; fork / waitpid failures are injected by the shim at the call the clean run made for that command.  Every run - condition
shapes and action shapes alike - is also conformed call by call against Model.mainP (conditions are evaluated inside the run,
Model.evalP).

The unit-level half (`unit_stage`) runs the real evaluator in-process (harness/unit/h_expr.c) with injectable outcomes
(`vstatus:...`: real fork/waitpid/status mapping of util.c, the child ends as the name says) on the same table of outcomes and
compares it with Model.eval (whose command oracle is Model.execValue / Model.execStatus on the same outcome) and with this oracle.
"""
import concurrent.futures as cf
import re
import vlib
import proc
import world
import worldscen as ws
import evalcommon as ec

R = '@R@'
EXIT_CODES = [0, 1, 2, 126, 127, 128, 129, 200, 255]
SIGNALS = [15, 9, 11]          # SIGTERM, SIGKILL, SIGSEGV
SIGNAL_NOTE = ('a `command` condition whose program is killed by a signal counts as "no match" in the unchanged code (exec() returns '
               '128 + signal > 0); C13 speaks of a "non-zero exit", C04\'s anchor of "127 and signals are errors": recorded as the current '
               'behaviour, reported as a candidate finding, not decided by this oracle')


class Outcome:
    """kind: 'exit' (code), 'signal' (code), 'cannot-run' (code = why), 'fork' / 'waitpid' (the libc call fails)."""

    def __init__(self, kind, code=None):
        self.kind, self.code = kind, code

    def __repr__(self):
        return self.kind if self.code is None else '%s %s' % (self.kind, self.code)

    def condition(self):
        """Documented verdict of a `command` condition: MATCH / NOMATCH / ERROR (+ whether it is only pinned)."""
        if self.kind == 'exit':
            return 'MATCH' if self.code == 0 else 'ERROR' if self.code == 127 else 'NOMATCH'
        if self.kind == 'signal':
            return 'NOMATCH'          # pinned, see SIGNAL_NOTE
        return 'ERROR'

    def pinned(self):
        return self.kind == 'signal'

    def action_ok(self):
        """Documented result of an `exec` action: success only for exit 0."""
        return self.kind == 'exit' and self.code == 0

    def ran(self):
        """Did the program itself start (so that a recording program leaves a record)?"""
        return self.kind in ('exit', 'signal', 'waitpid')


class Prog:
    """A program as named in a configuration: `words` (configuration strings, the first is the program), the tree entries it
    needs, its outcome, whether it is the recording helper, the fault to inject (None | 'fork' | 'waitpid')."""

    def __init__(self, tag, words, tree, outcome, records=False, fault=None):
        self.tag, self.words, self.tree, self.outcome, self.records, self.fault = tag, list(words), dict(tree), outcome, records, fault

    def conf(self):
        return '{ ' + ' '.join('"%s"' % w for w in self.words) + ' }' if len(self.words) > 1 else '"%s"' % self.words[0]

    def args(self):
        return [w.encode('latin-1') for w in self.words[1:]]


def programs(helper):
    """The family: every way a program can end, and every way it can fail to start."""
    link = ('symlink', helper)
    plain = {'bin/plain-not-executable': ('file', b'#!/bin/sh\nexit 0\n', 0o644)}
    P = []
    for n in EXIT_CODES:
        P.append(Prog('exit-%d' % n, ['%s/bin/cmd-exit-%d' % (R, n), 'a b', '*'], {'bin/cmd-exit-%d' % n: link}, Outcome('exit', n), records=True))
    for s in SIGNALS:
        P.append(Prog('signal-%d' % s, ['%s/bin/cmd-signal-%d' % (R, s), 'arg'], {'bin/cmd-signal-%d' % s: link}, Outcome('signal', s), records=True))
    P.append(Prog('missing', ['%s/bin/missing' % R], {'bin': None}, Outcome('cannot-run', 'ENOENT')))
    P.append(Prog('mode-0644', ['%s/bin/plain-not-executable' % R, 'x'], plain, Outcome('cannot-run', 'EACCES')))
    P.append(Prog('directory', ['%s/bin/adir' % R], {'bin/adir': None}, Outcome('cannot-run', 'EACCES')))
    P.append(Prog('bad-interpreter', ['%s/bin/badinterp' % R], {'bin/badinterp': ('file', b'#!/nonexistent/interpreter -x\nexit 0\n', 0o755)},
                  Outcome('cannot-run', 'ENOENT')))
    P.append(Prog('not-a-directory', ['%s/bin/plain-not-executable/x' % R], plain, Outcome('cannot-run', 'ENOTDIR')))
    P.append(Prog('script-exit-0', ['%s/bin/ok.sh' % R], {'bin/ok.sh': ('file', b'#!/bin/sh\nexit 0\n', 0o755)}, Outcome('exit', 0)))
    P.append(Prog('script-exit-200', ['%s/bin/no.sh' % R, 'x'], {'bin/no.sh': ('file', b'#!/bin/sh\nexit 200\n', 0o755)}, Outcome('exit', 200)))
    # no interpreter line at all: execve fails with ENOEXEC and execvp(3) runs the file with /bin/sh
    P.append(Prog('no-shebang-exit-3', ['%s/bin/noshebang' % R], {'bin/noshebang': ('file', b'exit 3\n', 0o755)}, Outcome('exit', 3)))
    P.append(Prog('sh-c-exit-200', ['sh', '-c', 'exit 200'], {}, Outcome('exit', 200)))
    # names without a slash: resolved through PATH (= @R@/bin first)
    P.append(Prog('path-exit-0', ['cmd-exit-0', 'via PATH'], {'bin/cmd-exit-0': link}, Outcome('exit', 0), records=True))
    P.append(Prog('path-exit-129', ['cmd-exit-129'], {'bin/cmd-exit-129': link}, Outcome('exit', 129), records=True))
    P.append(Prog('path-missing', ['no-such-command-anywhere'], {'bin': None}, Outcome('cannot-run', 'ENOENT')))
    P.append(Prog('path-mode-0644', ['plain-not-executable'], plain, Outcome('cannot-run', 'EACCES')))
    # the program is fine, the libc call around it fails (injected at the call the clean run makes for it)
    P.append(Prog('fork-fails', ['%s/bin/cmd-exit-0' % R], {'bin/cmd-exit-0': link}, Outcome('fork'), records=True, fault='fork'))
    P.append(Prog('waitpid-fails', ['%s/bin/cmd-exit-0' % R], {'bin/cmd-exit-0': link}, Outcome('waitpid'), records=True, fault='waitpid'))
    return P


# --------------------------------------------------------------------------
# process level: shapes
# --------------------------------------------------------------------------

def msg(i, cmd, extra=b'', body=None):
    b = body if body is not None else b'body of message %d\n' % i
    return b'To: user%d@example.com\nX-Id: %d\nX-Cmd: %s\n' % (i, i, b'yes' if cmd else b'no') + extra + b'\n' + b


PART1 = b'Content-Type: text/plain\nX-Part: one\n\nfirst part\n'
PART2 = b'Content-Type: application/pdf\nX-Part: two\n\nsecond part\n'
MIME2 = msg(2, True, b'Content-Type: multipart/mixed; boundary="b"\n', b'--b\n' + PART1 + b'--b\n' + PART2 + b'--b--\n')
B64BODY = b'decoded body text\n'
B64M2 = msg(2, True, b'Content-Transfer-Encoding: base64\n', b'ZGVjb2RlZCBib2R5IHRleHQK\n')

# name -> (is a condition, stdin mode, rules for the subject (message 2), subject message, patterns)
SHAPES = ['cond', 'cond-neg', 'cond-attachment', 'cond-stdin-mode',
          'exec', 'exec-stdin', 'exec-body', 'exec-attachment', 'exec-after-label', 'exec-stdin-mode']
AFTER = '{ "@HELPER@" "after" }'


class Shape:
    def __init__(self, name, prog):
        self.name, self.prog = name, prog
        self.is_cond = name.startswith('cond')
        self.stdin_mode = name.endswith('stdin-mode')
        P = prog.conf()
        dst, fb = '%s/dst' % R, '%s/fallback' % R
        self.subject = msg(2, True)
        self.pats = [('yes', ''), ('yes', '')] if self.is_cond else [('yes', '')]
        if name == 'cond':
            rules = ['match header "X-Cmd" /yes/ and command %s move "%s"' % (P, dst), 'match header "X-Cmd" /yes/ move "%s"' % fb]
        elif name == 'cond-neg':
            rules = ['match header "X-Cmd" /yes/ and ! command %s move "%s"' % (P, dst), 'match header "X-Cmd" /yes/ move "%s"' % fb]
        elif name == 'cond-attachment':
            rules = ['match header "X-Cmd" /yes/ and attachment command %s move "%s"' % (P, dst), 'match header "X-Cmd" /yes/ move "%s"' % fb]
            self.subject = MIME2
        elif name == 'cond-stdin-mode':
            rules = ['match command %s move "%s"' % (P, dst), 'match all move "%s"' % fb]
            self.pats = []
        elif name == 'exec':
            rules = ['match header "X-Cmd" /yes/ exec %s exec %s move "%s"' % (P, AFTER, dst)]
        elif name == 'exec-stdin':
            rules = ['match header "X-Cmd" /yes/ exec stdin %s exec %s move "%s"' % (P, AFTER, dst)]
        elif name == 'exec-body':
            rules = ['match header "X-Cmd" /yes/ exec stdin body %s exec %s move "%s"' % (P, AFTER, dst)]
            self.subject = B64M2
        elif name == 'exec-attachment':
            rules = ['match header "X-Cmd" /yes/ attachment { match header "X-Part" /two/ exec stdin %s } exec %s move "%s"' % (P, AFTER, dst)]
            self.subject = MIME2
            self.pats = [('yes', ''), ('two', '')]
        elif name == 'exec-after-label':
            rules = ['match header "X-Cmd" /yes/ label "lbl" exec %s exec %s move "%s"' % (P, AFTER, dst)]
        elif name == 'exec-stdin-mode':
            rules = ['match all exec stdin %s exec %s move "%s"' % (P, AFTER, dst)]
            self.pats = []
        else:
            raise ValueError(name)
        if self.stdin_mode:
            self.conf = 'stdin {\n' + ''.join('\t%s\n' % r for r in rules) + '}\n'
        else:
            self.conf = ('maildir "%s/src" {\n' % R + ''.join('\t%s\n' % r for r in rules) + '\tmatch all move "%s/other"\n}\n' % R +
                         'maildir "%s/src2" {\n\tmatch all move "%s/dst2"\n}\n' % (R, R))

    def spec(self):
        tree = dict(self.prog.tree)
        tree.setdefault('bin', None)
        for d in ('dst', 'fallback', 'other', 'dst2'):
            tree.update(proc.maildir_tree(d, {}))
        env = {'PATH': '%s/bin:/usr/bin:/bin' % R}
        if self.stdin_mode:
            return ws.Spec('%s/%s' % (self.name, self.prog.tag), self.conf, self.pats, tree=tree, stdin=self.subject, args=['-'], kind='stdin', env=env)
        tree.update(proc.maildir_tree('src', {('new', '1.host'): msg(1, False), ('new', '2.host'): self.subject, ('new', '3.host'): msg(3, False)}))
        tree.update(proc.maildir_tree('src2', {('new', '90.host'): msg(90, False)}))
        return ws.Spec('%s/%s' % (self.name, self.prog.tag), self.conf, self.pats, tree=tree, env=env)

    # ---- the documented outcome -------------------------------------------------------------------------------
    def expectation(self):
        """dict: status, where (directory of message 2 | 'src' = left where it was), label (content carries the label), runs (how often
        the program under test runs, None = not recorded), after (did the action after it run), stdin (what it reads)."""
        o = self.prog.outcome
        e = {'pinned': False}
        if self.is_cond:
            v = o.condition()
            e['pinned'] = o.pinned()
            if self.name == 'cond-neg' and v != 'ERROR':
                v = 'MATCH' if v == 'NOMATCH' else 'NOMATCH'
            e['verdict'] = v
            e['where'] = {'MATCH': 'dst', 'NOMATCH': 'fallback', 'ERROR': 'src'}[v]
            e['error'] = v == 'ERROR'
            e['label'] = False
            e['after'] = None
            e['stdin'] = b''
            if self.name == 'cond-attachment':
                # the parts are tried in order, the first match or error decides; the verdict of every part is the program's
                c = o.condition()
                e['runs'] = 2 if c == 'NOMATCH' else 1
                if o.kind == 'fork':
                    e['runs'] = 0
            else:
                e['runs'] = 1 if o.ran() else 0
        else:
            ok = o.action_ok()
            e['verdict'] = 'ok' if ok else 'error'
            e['where'] = 'dst' if ok else 'src'
            e['error'] = not ok
            e['label'] = self.name == 'exec-after-label'
            e['after'] = ok
            e['runs'] = 1 if o.ran() else 0
            e['stdin'] = {'exec': b'', 'exec-after-label': b'', 'exec-stdin': self.subject, 'exec-stdin-mode': self.subject,
                          'exec-body': B64BODY, 'exec-attachment': PART2}[self.name]
        if self.stdin_mode:
            e['status'] = 75 if e['error'] else 0
        else:
            e['status'] = 1 if e['error'] else 0
        return e


def parse_helper(line):
    from props.c13 import parse_helper as ph
    return ph(line)


def judge(shape, scen, r):
    """Problems of one run against the documented outcome."""
    e = shape.expectation()
    o = shape.prog.outcome
    pin = ' (pinned current behaviour: %s)' % SIGNAL_NOTE if e['pinned'] else ''
    what = '%s whose program %s' % ('a `command` condition' if shape.is_cond else 'an `exec` action', describe(o))
    probs = []
    if r.status != e['status']:
        probs.append('exit status %r, documented %r for %s%s' % (r.status, e['status'], what, pin))
    files = ws.maildir_files(r.final)
    by_id = {}
    for rel, d in files.items():
        by_id.setdefault(ws.msg_id(d), []).append((rel, d))
    # the subject
    here = by_id.get(2, [])
    if len(here) != 1:
        if not (shape.stdin_mode and e['where'] == 'src' and not here):
            probs.append('message 2 exists %d times after the run: %s' % (len(here), [x[0] for x in here]))
    else:
        rel, d = here[0]
        if shape.stdin_mode and e['where'] == 'src':
            probs.append('the delivery failed (documented status 75) but the message was stored at %s' % rel)
        elif not shape.stdin_mode and e['where'] == 'src':
            if not rel.startswith('src/new/'):
                probs.append('message 2 must stay in its maildir (%s), it is at %s%s' % (what, rel, pin))
            elif not e['label'] and rel != 'src/new/2.host':
                probs.append('message 2 must be left untouched, it was renamed to %s' % rel)
        elif not rel.startswith(e['where'] + '/new/'):
            probs.append('message 2 is at %s, documented: %s/new (%s: %s)%s' % (rel, e['where'], what, e['verdict'], pin))
        want = shape.subject
        if e['label']:
            if b'X-Label: lbl\n' not in d or d.replace(b'X-Label: lbl\n', b'', 1) != want:
                probs.append('message 2 does not carry exactly the label of the action before the exec')
        elif d != want:
            probs.append('the content of message 2 changed')
    if shape.stdin_mode:
        left = ws.tmp_entries(r.final)
        if left:
            probs.append('spool left in TMPDIR: %s' % left)
    else:
        # isolation: the neighbours and the second maildir are processed whatever happened to message 2
        for i, d in ((1, 'other'), (3, 'other'), (90, 'dst2')):
            got = by_id.get(i, [])
            if len(got) != 1 or not got[0][0].startswith(d + '/new/'):
                probs.append('message %d must end in %s/new whatever happens to message 2; it is at %s' % (i, d, [x[0] for x in got]))
    # what ran
    recs = [parse_helper(l) for l in r.helper]
    after = [x for x in recs if x[0] == [b'after']]
    mine = [x for x in recs if x[0] != [b'after']]
    if e['after'] is not None and (len(after) == 1) != e['after']:
        probs.append('the action after the exec ran %d times, documented: %s' % (len(after), 'once' if e['after'] else 'not at all (an error stops the '
                     'remaining actions of that message)'))
    if shape.is_cond and after:
        probs.append('an exec helper ran although the configuration has no exec action')
    if shape.prog.records:
        if len(mine) != e['runs']:
            probs.append('the program ran %d times, documented %d' % (len(mine), e['runs']))
        for argv, stdin, fds, target in mine:
            if argv != shape.prog.args():
                probs.append('argv is %r, configured %r' % (argv, shape.prog.args()))
            if stdin != e['stdin']:
                probs.append('the program read %r on standard input, documented %r' % (stdin[:80], e['stdin'][:80]))
            if e['stdin'] == b'' and target != '/dev/null':
                probs.append('standard input is %s, not /dev/null' % target)
            if sorted(fds) != [0, 1, 2]:
                probs.append('the program inherited descriptors %s' % fds)
    # a failure mdsort detects itself is reported on stderr (a program that runs and exits with 127 prints its own diagnostic, if any:
    # exec() then says nothing - observed, the property texts do not ask for more)
    if e['error'] and not r.err.strip() and not (o.kind == 'exit' and o.code == 127):
        probs.append('an error without any diagnostic on stderr')
    return probs


def describe(o):
    if o.kind == 'exit':
        return 'exits with status %d' % o.code
    if o.kind == 'signal':
        return 'is killed by signal %d' % o.code
    if o.kind == 'cannot-run':
        return 'cannot be executed (%s)' % o.code
    return 'is fine but %s fails' % o.kind


def describe_tree(tree):
    """The sandbox of a failing run in readable form: messages, programs (with mode / link target), directories."""
    out = {}
    for rel, d in sorted(tree.items()):
        if d is None:
            out[rel + '/'] = 'directory'
        elif isinstance(d, tuple):
            out[rel] = 'link to the exec helper' if d[0] == 'symlink' else 'file mode %o: %r' % (d[2], d[1]) if d[0] == 'file' else repr(d)
        else:
            out[rel] = d.decode('latin-1')
    return out


def run_shape(tools, W, shape):
    scen = shape.spec().build(tools)
    try:
        plan = None
        r = scen.run()
        if shape.prog.fault:
            calls = r.calls()
            idx = [k for k, c in enumerate(calls) if c['name'] == shape.prog.fault]
            if not idx:
                return {'shape': shape.name, 'program': shape.prog.tag, 'problems': ['the clean run made no %s call' % shape.prog.fault],
                        'conform': 'skipped', 'status': r.status, 'stderr': '', 'plan': None, 'config': shape.conf, 'infrastructure': True}
            plan = '%d:%s' % (idx[0], 'EAGAIN' if shape.prog.fault == 'fork' else 'ECHILD')
            scen.reset()
            r = scen.run(fail=plan)
        # a race of the HARNESS, not of mdsort: the scenarios run in threads of one Python process, and while another thread is between
        # fork and exec of its own child, that child still holds every descriptor of this process - also the one a third thread has open
        # for WRITING on a script it is just creating; execvp of that script then fails with ETXTBSY ("Text file busy").  Such a run says
        # nothing about mdsort: it is repeated (the file is complete and closed by then).
        for _ in range(3):
            if b'Text file busy' not in r.err:
                break
            scen.reset()
            r = scen.run(fail=plan) if plan else scen.run()
        probs = judge(shape, scen, r)
        # exec actions AND `command` conditions are in the world model (Model.evalP: a condition issues open("/dev/null"), fork, waitpid,
        # close while the rules are evaluated): every run follows Model.mainP call by call
        rq, _, nts = W.request(scen, shape.pats, r, stdin=shape.stdin_mode)
        ans = W.verdict([rq])[0]
        conform, detail = world.compare(scen, r, ans)
        if conform != 'ok':
            conform += ': ' + detail[:300]
        return {'shape': shape.name, 'program': shape.prog.tag, 'outcome': repr(shape.prog.outcome), 'problems': probs, 'conform': conform,
                'tree': describe_tree(shape.spec().tree) if probs else None,
                'status': r.status, 'stderr': r.err[-300:].decode('latin-1').replace(scen.root, R), 'plan': plan, 'config': shape.conf,
                'pinned': shape.expectation()['pinned']}
    finally:
        scen.cleanup()


# --------------------------------------------------------------------------
# process level: one maildir, every program at once (the C04 population)
# --------------------------------------------------------------------------

def population(rng, progs, n):
    """A configuration with one `command` rule and one `exec` rule per program and n messages each addressed to one of them."""
    progs = [p for p in progs if not p.fault]
    rules, pats, tree = [], [], {'bin': None}
    for p in progs:
        tree.update(p.tree)
        rules.append('match header "X-Cond" /^%s$/ and command %s move "%s/dst"' % (p.tag, p.conf(), R))
        rules.append('match header "X-Exec" /^%s$/ exec %s move "%s/dst"' % (p.tag, p.conf(), R))
        pats += [('^%s$' % p.tag, ''), ('^%s$' % p.tag, '')]
    rules.append('match header "X-Cond" /./ move "%s/fallback"' % R)
    pats.append(('.', ''))
    rules.append('match all move "%s/other"' % R)
    conf = ('maildir "%s/src" {\n' % R + ''.join('\t%s\n' % r for r in rules) + '}\n' +
            'maildir "%s/src2" {\n\tmatch all move "%s/dst2"\n}\n' % (R, R))
    msgs, meta = {}, {}
    for i in range(1, n + 1):
        k = rng.random()
        if k < 0.2:
            h, want, err = b'X-Plain: 1\n', 'other', False
        else:
            p = rng.choice(progs)
            if k < 0.6:
                h = b'X-Cond: %s\n' % p.tag.encode()
                v = p.outcome.condition()
                want, err = {'MATCH': 'dst', 'NOMATCH': 'fallback', 'ERROR': 'src'}[v], v == 'ERROR'
            else:
                h = b'X-Exec: %s\n' % p.tag.encode()
                ok = p.outcome.action_ok()
                want, err = ('dst' if ok else 'src'), not ok
        sub = rng.choice(['new', 'cur'])
        name = '%d.host' % i + (':2,S' if sub == 'cur' else '')
        data = b'To: u%d@x\nX-Id: %d\n' % (i, i) + h + b'\nbody %d\n' % i
        msgs[(sub, name)] = data
        meta[i] = (h.decode().strip(), want, err, sub, name)
    for d in ('dst', 'fallback', 'other', 'dst2'):
        tree.update(proc.maildir_tree(d, {}))
    tree.update(proc.maildir_tree('src', msgs))
    tree.update(proc.maildir_tree('src2', {('new', '90.host'): b'To: z\nX-Id: 90\n\nsecond maildir\n'}))
    return ws.Spec('command-population', conf, pats, tree=tree, env={'PATH': '%s/bin:/usr/bin:/bin' % R}), msgs, meta


def run_population(tools, W, spec, msgs, meta):
    scen = spec.build(tools)
    try:
        r = scen.run()
        probs = []
        nerr = sum(1 for m in meta.values() if m[2])
        if r.status != (1 if nerr else 0):
            probs.append('%d message(s) with a command error (%s) but exit status %r' % (nerr, sorted(m[0] for m in meta.values() if m[2]), r.status))
        files = ws.maildir_files(r.final)
        where = {}
        for rel, d in files.items():
            where.setdefault(ws.msg_id(d), []).append((rel, d))
        for i, (h, want, err, sub, name) in meta.items():
            got = where.get(i, [])
            orig = msgs[(sub, name)]
            if len(got) != 1:
                probs.append('message %d (%s) exists %d times' % (i, h, len(got)))
                continue
            rel, d = got[0]
            if want == 'src':
                if rel != 'src/%s/%s' % (sub, name) or d != orig:
                    probs.append('message %d (%s): a command error must leave it untouched at src/%s/%s, it is at %s' % (i, h, sub, name, rel))
            else:
                if not rel.startswith(want + '/') or d != orig:
                    probs.append('message %d (%s): documented destination %s, it is at %s' % (i, h, want, rel))
        got = where.get(90, [])
        if len(got) != 1 or not got[0][0].startswith('dst2/new/'):
            probs.append('the second maildir was not processed')
        # the whole maildir (command conditions and exec actions mixed) follows Model.mainP call by call
        rq, _, nts = W.request(scen, spec.pats, r)
        conform, detail = world.compare(scen, r, W.verdict([rq])[0])
        if conform != 'ok':
            conform += ': ' + detail[:300]
        return {'kinds': sorted(m[0] for m in meta.values()), 'status': r.status, 'problems': probs, 'config': spec.conf, 'conform': conform,
                'messages': {'src/%s/%s' % k: v.decode('latin-1') for k, v in msgs.items()} if probs else None,
                'stderr': r.err[-400:].decode('latin-1').replace(scen.root, R)}
    finally:
        scen.cleanup()


def process_stage(rep, tools, W, rng):
    """Runs the family; reports failing inputs; returns coverage."""
    progs = programs(tools.helper)
    shapes = [Shape(s, p) for s in SHAPES for p in progs]
    with cf.ThreadPoolExecutor(vlib.NCPU) as ex:
        results = list(ex.map(lambda s: run_shape(tools, W, s), shapes))
    npop = 12 if rep.tier == 'quick' else 400
    pops = [population(rng, progs, rng.randrange(2, 9)) for _ in range(npop)]
    with cf.ThreadPoolExecutor(vlib.NCPU) as ex:
        presults = list(ex.map(lambda p: run_population(tools, W, p[0], p[1], p[2]), pops))
    corr_bad, nbad = [], 0
    for r in results:
        if r.get('infrastructure'):
            rep.violation({'obligation': 'command status family: ' + r['problems'][0], 'shape': r['shape'], 'program': r['program']}, False)
        elif r['problems']:
            nbad += 1
            if nbad <= 8:
                rep.finding('unlisted', {'stage': 'cmdstatus', 'shape': r['shape'], 'program': r['program'], 'outcome': r['outcome'],
                                         'fault_plan': r['plan'], 'config': r['config'], 'sandbox': r['tree'], 'environment': 'PATH=@R@/bin:/usr/bin:/bin',
                                         'exit_status': r['status'], 'stderr': r['stderr'],
                                         'what': r['problems'][:6], 'pinned_current_behaviour': r['pinned'],
                                         'replay_cmd': 'python3 tools/check.py %s --replay <this file>' % rep.prop})
        elif r['conform'] not in ('ok', 'skipped'):
            corr_bad.append(r)
    npbad = 0
    for r in presults:
        if r['problems']:
            npbad += 1
            if npbad <= 4:
                rep.finding('unlisted', {'stage': 'cmdstatus-population', 'population': r['kinds'], 'exit_status': r['status'], 'what': r['problems'][:6],
                                         'stderr': r['stderr'], 'config': r['config'], 'messages': r['messages']})
    for r in presults:
        if not r['problems'] and r['conform'] != 'ok':
            corr_bad.append({'shape': 'population', 'population': r['kinds'], 'conform': r['conform'], 'config': r['config'], 'status': r['status']})
    if corr_bad and not rep.violations:
        rep.violation({'obligation': 'correspondence: a scenario of the command status family (command condition or exec action) does not follow Model.mainP',
                       'disagreements': len(corr_bad), 'examples': corr_bad[:6]}, False)
    verdicts = {}
    for r in results:
        verdicts.setdefault(r['program'], {})[r['shape']] = r['status']
    return {
        'programs': [p.tag for p in progs], 'shapes': SHAPES, 'runs': len(results), 'failing_runs': nbad,
        'populations': len(presults), 'failing_populations': npbad, 'conformance_mismatches': len(corr_bad),
        'conformance_runs': sum(1 for r in results if r['conform'] == 'ok') + sum(1 for r in presults if r['conform'] == 'ok'),
        'conformance_runs_condition_shapes': sum(1 for r in results if r['conform'] == 'ok' and r['shape'].startswith('cond')),
        'exit_status_by_program_and_shape': verdicts,
        'current_behaviour_signals': SIGNAL_NOTE,
        'rule': 'every program of the family (exit 0/1/2/126/127/128/129/200/255, SIGTERM/SIGKILL/SIGSEGV, missing, mode 0644, a directory, bad '
                'interpreter line, a path through a non-directory, scripts, no interpreter line, sh -c, names resolved through PATH, fork '
                'failing, waitpid failing) in every shape (command condition: plain / negated / under attachment / with `-`; exec action: plain / '
                'stdin / stdin body / inside attachment { } / after label / with `-`) on the real binary next to two other messages and a second '
                'maildir, judged by the documented meaning (module docstring of tools/cmdstatus.py): exit status, where message 2 ends and its '
                'content, the action after the exec, the neighbours, the spool, what the program got (argv, stdin, descriptors); every '
                'shape (conditions and actions) also follows Model.mainP call by call; plus %d maildirs of 2-8 messages each addressed to a random program' % npop,
    }


def replay_process(tools, W, j):
    progs = {p.tag: p for p in programs(tools.helper)}
    if j.get('program') not in progs or j.get('shape') not in SHAPES:
        print('unknown shape/program', j.get('shape'), j.get('program'))
        return
    shape = Shape(j['shape'], progs[j['program']])
    res = run_shape(tools, W, shape)
    print('shape %s, program %s (%s)' % (res['shape'], res['program'], res.get('outcome')))
    print(res['config'])
    print('exit status', res['status'], 'fault plan', res['plan'])
    print(res['stderr'])
    print('documented:', shape.expectation())
    for p in res['problems']:
        print('PROBLEM', p)
    print('conformance with Model.mainP:', res['conform'])


# --------------------------------------------------------------------------
# unit level: the evaluator in-process against Model.eval on the same outcomes
# --------------------------------------------------------------------------

UNIT_OUTCOMES = ([('vstatus:exit:%d' % n, Outcome('exit', n)) for n in EXIT_CODES + [3, 64, 125, 130, 254]] +
                 [('vstatus:signal:%d' % s, Outcome('signal', s)) for s in SIGNALS + [1, 2, 6, 13]] +
                 [('vstatus:errno:%s' % e, Outcome('cannot-run', e)) for e in ('ENOENT', 'EACCES', 'ENOTDIR', 'ENOEXEC', 'ELOOP', 'ENOMEM', 'E2BIG', 'ETXTBSY')] +
                 [('vstatus:fork', Outcome('fork')), ('vstatus:waitpid', Outcome('waitpid')),
                  ('true', Outcome('exit', 0)), ('false', Outcome('exit', 1)), ('/nonexistent/cmd', Outcome('cannot-run', 'ENOENT'))])

# (name, rules with %(P)s, patterns, function verdict -> (documented result of the evaluation, action keys selected))
#   the message has X-0: 1 and X-1: 0
def _plain(v):
    return {'MATCH': ('MATCH', ['move']), 'NOMATCH': ('MATCH', ['label']), 'ERROR': ('ERROR', [])}[v]


def _neg(v):
    return {'MATCH': ('MATCH', ['label']), 'NOMATCH': ('MATCH', ['move']), 'ERROR': ('ERROR', [])}[v]


def _only(v):
    return {'MATCH': ('MATCH', ['move']), 'NOMATCH': ('NOMATCH', []), 'ERROR': ('ERROR', [])}[v]


def _notrun(v):
    return ('MATCH', ['label'])


def _notrun_or(v):
    return ('MATCH', ['move'])


UNIT_FORMS = [
    ('plain', '\tmatch command %(P)s move "~/dst/a"\n\tmatch all label "l1"\n', [], _plain),
    ('list', '\tmatch command { %(P)s "arg one" "*" } move "~/dst/a"\n\tmatch all label "l1"\n', [], _plain),
    ('negated', '\tmatch ! command %(P)s move "~/dst/a"\n\tmatch all label "l1"\n', [], _neg),
    ('only-rule', '\tmatch command %(P)s move "~/dst/a"\n', [], _only),
    ('and-true', '\tmatch header "X-0" /^1$/ and command %(P)s move "~/dst/a"\n\tmatch all label "l1"\n', [('^1$', '')], _plain),
    # short circuit: the command is not run at all, so its outcome cannot matter
    ('and-false', '\tmatch header "X-1" /^1$/ and command %(P)s move "~/dst/a"\n\tmatch all label "l1"\n', [('^1$', '')], _notrun),
    ('or-true', '\tmatch header "X-0" /^1$/ or command %(P)s move "~/dst/a"\n\tmatch all label "l1"\n', [('^1$', '')], _notrun_or),
    ('or-false', '\tmatch header "X-1" /^1$/ or command %(P)s move "~/dst/a"\n\tmatch all label "l1"\n', [('^1$', '')], _plain),
    ('nested', '\tmatch all {\n\t\tmatch command %(P)s move "~/dst/a"\n\t\tmatch all label "l1"\n\t}\n', [], _plain),
    ('after-pass', '\tmatch all flags "F" pass\n\tmatch command %(P)s move "~/dst/a"\n\tmatch all label "l1"\n', [], None),
    ('back-reference', '\tmatch header "To" /(u[a-z]*)@/ and command { %(P)s "\\\\1" } move "~/dst/a"\n\tmatch all label "l1"\n', [('(u[a-z]*)@', '')], _plain),
]
UNIT_MSG = b'X-0: 1\nX-1: 0\nTo: user@example.com\nSubject: hello\n\nbody\n'
UNIT_MIME = (b'X-0: 1\nX-1: 0\nTo: user@example.com\nContent-Type: multipart/mixed; boundary="b"\n\n--b\nContent-Type: text/plain\n\none\n'
             b'--b\nContent-Type: text/html\n\ntwo\n--b--\n')


def unit_cases():
    cases = []
    for pname, o in UNIT_OUTCOMES:
        for fname, rules, pats, fn in UNIT_FORMS:
            conf = 'maildir "~/md" {\n%s}\n' % (rules % {'P': '"%s"' % pname})
            cases.append((ec.Case(conf, list(pats), UNIT_MSG), pname, o, fname, fn))
        conf = 'maildir "~/md" {\n\tmatch attachment command "%s" move "~/dst/a"\n\tmatch all label "l1"\n}\n' % pname
        cases.append((ec.Case(conf, [], UNIT_MIME), pname, o, 'attachment', _plain))
    return cases


def unit_stage(rep, sc):
    """The real expr_eval on `command` conditions with every outcome, against Model.eval and the documented meaning."""
    h, env = ec.harness(sc)
    cases = unit_cases()
    ec.run_cases(h, env, [c[0] for c in cases], want_spec=False)
    corr_bad, nbad, pinned_seen = [], 0, {}
    for c, pname, o, fname, fn in cases:
        if c.note == 'fault':
            rep.finding('sanitizer-fault', dict(c.readable(), implementation=c.impl))
            continue
        if c.note is not None:
            rep.violation({'obligation': 'command status family (unit): a case could not be evaluated', 'case': c.readable(), 'answer': c.impl, 'note': c.note}, False)
            continue
        e = c.impl.split(' ')
        tri = e[0]
        ml = ec.parse_ml(e[1]) if len(e) > 1 else []
        acts = [f[0] for f in ml if f[0] in ec.ACTION_TYPES]
        if fn is not None:
            want_tri, want_acts = fn(o.condition())
            if tri != want_tri or (tri == 'MATCH' and [a for a in acts if a in ('move', 'label')] != want_acts):
                nbad += 1
                if nbad <= 6:
                    rep.finding('unlisted', {
                        'stage': 'cmdstatus-unit', 'form': fname, 'program': pname, 'outcome': describe(o), 'config': c.conf, 'message': repr(c.msg),
                        'implementation': c.impl, 'model': c.model,
                        'what': ['the evaluation gives %s with actions %s; documented for a `command` condition whose program %s: %s with %s%s'
                                 % (tri, acts, describe(o), want_tri, want_acts, (' (pinned current behaviour: %s)' % SIGNAL_NOTE) if o.pinned() else '')],
                        'request': c.request()})
                continue
        if o.pinned():
            pinned_seen[pname] = tri
        if ec.impl_core(c) != ec.model_core(c):
            corr_bad.append({'form': fname, 'program': pname, 'config': c.conf, 'implementation': c.impl, 'model': c.model})
    if corr_bad and not rep.violations:
        rep.violation({'obligation': 'correspondence: expr_eval and Model.eval disagree on a `command` condition (status mapping of exec() / '
                                     'expr_eval_command vs Model.execStatus / Model.eval)', 'disagreements': len(corr_bad), 'examples': corr_bad[:8]}, False)
    return {'cases': len(cases), 'outcomes': [p for p, _ in UNIT_OUTCOMES], 'forms': [f[0] for f in UNIT_FORMS] + ['attachment'],
            'failing_cases': nbad, 'correspondence_mismatches': len(corr_bad),
            'rule': 'the real expr_eval (ASan+UBSan harness; util.c exec() with its real fork / waitpid / status mapping, the child ending as the '
                    'injected outcome says) on %d outcomes x %d rule forms, compared with Model.eval (command oracle = Model.execValue / '
                    'Model.execStatus on the same outcome) and with the documented meaning of the outcome' % (len(UNIT_OUTCOMES), len(UNIT_FORMS) + 1)}


def stage(rep, sc, tools, W, rng):
    """Both halves; returns the coverage dict of the stage."""
    return {'process': process_stage(rep, tools, W, rng), 'unit': unit_stage(rep, sc)}
