"""The shape the documented grammar (mdsort.conf(5) / parse.y at the pinned commit) assigns to a
configuration: an independent recursive-descent reading used to check that the real parser
builds the tree the grammar defines (operator precedence and associativity, nesting, action
chains).  Returns the prefix sequence of node types of the first maildir/stdin block, in the
vocabulary of the harness dump.

Grammar of conditions: `and` and `or` have the same precedence and associate to the left;
`!` and `attachment` bind tighter than both; parentheses group.
"""

KEYWORDS = {'access', 'add-header', 'all', 'and', 'attachment', 'body', 'break', 'command', 'created', 'date', 'discard',
            'exec', 'flag', 'flags', 'header', 'isdirectory', 'label', 'maildir', 'match', 'modified', 'move', 'new', 'old',
            'or', 'pass', 'reject', 'stdin'}


class ShapeError(Exception):
    pass


class Parser:
    def __init__(self, text):
        # pattern positions depend on the grammar (after `body`, after `header strings`): lex incrementally
        self.text = text
        self.pos = 0

    # incremental lexer -------------------------------------------------
    def _skip(self):
        t, n = self.text, len(self.text)
        while self.pos < n:
            if t[self.pos] in ' \t\n\r':
                self.pos += 1
            elif t[self.pos] == '#':
                while self.pos < n and t[self.pos] != '\n':
                    self.pos += 1
            else:
                break

    def peek(self):
        save = self.pos
        tok = self.next()
        self.pos = save
        return tok

    def next(self, pattern=False):
        self._skip()
        t, n = self.text, len(self.text)
        if self.pos >= n:
            return ('eof', None)
        c = t[self.pos]
        if c == '"':
            j = self.pos + 1
            while j < n and t[j] != '"':
                if t[j] == '\\' and j + 1 < n and t[j + 1] == '"':
                    j += 1
                j += 1
            s = t[self.pos + 1:j]
            self.pos = j + 1
            return ('str', s)
        if pattern:
            d = c
            j = self.pos + 1
            while j < n and t[j] != d:
                if t[j] == '\\' and j + 1 < n and t[j + 1] == d:
                    j += 1
                j += 1
            self.pos = j + 1
            while self.pos < n and t[self.pos] in 'ilu':
                self.pos += 1
            return ('pat', None)
        if c in '{}()!<>=':
            self.pos += 1
            return (c, c)
        if c.isdigit():
            j = self.pos
            while j < n and t[j].isdigit():
                j += 1
            s = t[self.pos:j]
            self.pos = j
            return ('int', s)
        if c.islower():
            j = self.pos
            while j < n and (t[j].islower() or t[j] == '-'):
                j += 1
            w = t[self.pos:j]
            self.pos = j
            return ('kw' if w in KEYWORDS else 'word', w)
        raise ShapeError('unexpected character %r at %d' % (c, self.pos))

    def expect(self, kind, val=None):
        tok = self.next()
        if tok[0] != kind or (val is not None and tok[1] != val):
            raise ShapeError('expected %s %s, got %r' % (kind, val, tok))
        return tok

    # grammar -------------------------------------------------------------
    def strings(self):
        tok = self.next()
        if tok[0] == 'str':
            return 1
        if tok[0] == '{':
            k = 0
            while True:
                tok = self.next()
                if tok[0] == '}':
                    return k
                if tok[0] != 'str':
                    raise ShapeError('string expected')
                k += 1
        raise ShapeError('strings expected, got %r' % (tok,))

    def config(self):
        """First block of the file (after optional macro definitions)."""
        while True:
            tok = self.peek()
            if tok[0] == 'word':          # macro = "value"
                self.next()
                self.expect('=')
                self.expect('str')
                continue
            break
        tok = self.next()
        if tok == ('kw', 'maildir'):
            self.strings()
        elif tok == ('kw', 'stdin'):
            pass
        else:
            raise ShapeError('maildir or stdin expected')
        return self.block()

    def block(self):
        self.expect('{')
        rules = []
        while self.peek()[0] != '}':
            rules.append(self.rule())
        self.expect('}')
        if not rules:
            raise ShapeError('empty block')
        out = ['block'] + ['or'] * (len(rules) - 1)
        for r in rules:
            out += r
        return out

    def rule(self):
        self.expect('kw', 'match')
        c = self.cond()
        if self.peek()[0] == '{':
            rhs = self.block()
        else:
            acts = []
            while True:
                a = self.action()
                if a is None:
                    break
                acts.append(a)
            if not acts:
                raise ShapeError('missing action')
            rhs = ['and'] * (len(acts) - 1)
            for a in acts:
                rhs += a
        return ['match'] + c + rhs

    def cond(self):
        left = self.unary()
        while True:
            tok = self.peek()
            if tok in (('kw', 'and'), ('kw', 'or')):
                self.next()
                right = self.unary()
                left = [tok[1]] + left + right
            else:
                return left

    def unary(self):
        tok = self.peek()
        if tok[0] == '!':
            self.next()
            return ['neg'] + self.unary()
        if tok == ('kw', 'attachment'):
            self.next()
            return ['attachment'] + self.unary()
        return self.primary()

    def primary(self):
        tok = self.next()
        if tok[0] == '(':
            c = self.cond()
            self.expect(')')
            return c
        if tok[0] != 'kw':
            raise ShapeError('condition expected, got %r' % (tok,))
        w = tok[1]
        if w == 'body':
            self.next(pattern=True)
            return ['body']
        if w == 'header':
            self.strings()
            self.next(pattern=True)
            return ['header']
        if w == 'date':
            t2 = self.peek()
            if t2[0] == 'kw' and t2[1] in ('header', 'access', 'modified', 'created'):
                self.next()
            tok = self.next()
            if tok[0] not in '<>':
                raise ShapeError('date comparison expected')
            self.expect('int')
            tok = self.next()
            if tok[0] not in ('word', 'kw'):
                raise ShapeError('time unit expected')
            return ['date']
        if w in ('new', 'old', 'all'):
            return [w]
        if w == 'isdirectory':
            self.expect('str')
            return ['stat']
        if w == 'command':
            self.strings()
            return ['command']
        raise ShapeError('unknown condition %s' % w)

    def action(self):
        tok = self.peek()
        if tok[0] != 'kw':
            return None
        w = tok[1]
        if w == 'break' or w == 'pass' or w == 'discard' or w == 'reject':
            self.next()
            return [w]
        if w == 'move':
            self.next(); self.expect('str'); return ['move']
        if w == 'flag':
            self.next()
            if self.peek()[0] == '!':
                self.next()
            self.expect('kw', 'new')
            return ['flag']
        if w == 'flags':
            self.next(); self.expect('str'); return ['flags']
        if w == 'label':
            self.next(); self.strings(); return ['label']
        if w == 'exec':
            self.next()
            while self.peek() in (('kw', 'stdin'), ('kw', 'body')):
                self.next()
            self.strings()
            return ['exec']
        if w == 'attachment':
            self.next()
            return ['attblock'] + self.block()
        if w == 'add-header':
            self.next(); self.expect('str'); self.expect('str'); return ['addheader']
        return None


NODE_TYPES = {'block', 'and', 'or', 'neg', 'match', 'all', 'attachment', 'body', 'date', 'header', 'new', 'old', 'stat', 'command',
              'move', 'flag', 'flags', 'discard', 'break', 'label', 'pass', 'reject', 'exec', 'attblock', 'addheader'}


def expected_shape(conf_text):
    return Parser(conf_text).config()


def dump_shape(ast_text):
    """Node types of a harness/driver tree dump, in prefix order.  A type name is always followed by
    its line number; string arguments are hex or '-' and never collide with the type names because
    every type name contains a letter outside a-f or is followed by a decimal."""
    toks = ast_text.split(' ')
    out = []
    i = 0
    while i < len(toks):
        t = toks[i]
        if t in NODE_TYPES and i + 1 < len(toks) and toks[i + 1].isdigit():
            out.append(t)
        i += 1
    return out
