#!/bin/sh
# usage: thorough_probe.sh [Cxx ...]   -- run thorough tiers one after the other with wall time and peak memory (for sizing them)
cd "$(dirname "$0")/.." || exit 2
ps="$*"; [ -z "$ps" ] && ps="C01 C02 C03 C04 C05 C06 C07 C08 C09 C10 C11 C12 C13 C14 C15 C16 C17 C18"
for p in $ps; do
  /usr/bin/time -v python3 tools/check.py "$p" --tier thorough > /tmp/th.$p.out 2> /tmp/th.$p.err
  rc=$?
  wall=$(grep 'Elapsed (wall clock)' /tmp/th.$p.err | sed 's/.*: //')
  rss=$(grep 'Maximum resident set size' /tmp/th.$p.err | sed 's/.*: //')
  echo "== $p thorough rc=$rc violations=$(grep -c '^VIOLATION' /tmp/th.$p.out) known=$(grep -c '^KNOWN-FINDING' /tmp/th.$p.out) wall=$wall peak_rss_kb=$rss"
done
echo THOROUGH-DONE
