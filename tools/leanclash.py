#!/usr/bin/env python3
"""leanclash.py <glob of new files> -- names declared in the given Lean files that are also declared (same namespace) elsewhere in lean/Mdsort."""
import glob
import os
import re
import sys

ROOT = os.path.join(os.path.dirname(os.path.dirname(os.path.abspath(__file__))), 'lean', 'Mdsort')
DECL = re.compile(r'^\s*(?:private\s+|protected\s+|@\[[^\]]*\]\s*)*(theorem|def|structure|inductive|abbrev|lemma|instance|class)\s+([^\s:({\[]+)')


def decls(path):
    ns, out = [], {}
    for line in open(path, encoding='utf-8'):
        m = re.match(r'^namespace\s+(\S+)', line)
        if m:
            ns.append(m.group(1))
            continue
        m = re.match(r'^end\s+(\S+)', line)
        if m and ns and ns[-1] == m.group(1):
            ns.pop()
            continue
        m = DECL.match(line)
        if m and 'private' not in line.split(m.group(1))[0]:
            out['.'.join(ns + [m.group(2)])] = path
    return out


new = set()
for pat in sys.argv[1:]:
    new |= set(os.path.abspath(p) for p in glob.glob(pat))
newd, oldd = {}, {}
for p in glob.glob(os.path.join(ROOT, '**', '*.lean'), recursive=True):
    (newd if os.path.abspath(p) in new else oldd).update(decls(p))
for n in sorted(newd):
    if n in oldd:
        print('%s  %s  <->  %s' % (n, os.path.basename(newd[n]), os.path.basename(oldd[n])))
