"""C17, thorough tier: several real parties along arbitrary schedules at call granularity, each schedule also run by the model.

A schedule is a list of segments (party, n): "party issues its next n calls" (n = None: until it has finished).  Every mdsort party
runs under the shim with `VSHIM_PAUSE` set to the call indices at which it has to yield; its pause command reports on one FIFO and
blocks on another until the coordinator (this module) lets it go on, so exactly one party runs at any time and the global order of
the calls is the schedule.  The external client (a mail reader that listed the maildir when it started: it renames the new messages
to `cur/<name>:2,S`, or deletes every message) is a party whose steps are issued by the coordinator itself.

The same schedule is handed to the Lean driver (`M parties`: `Model.stepParty` on `Model/Parties.lean`, every party a run of
`Model.mainP`, the client `Model.clientProg`); compared: every call and result of every party, every exit status, the final
directories (names, contents, modification times).  Independently the final tree is judged by the property oracle (every message
exactly once, intact, no stray or partial file, no abnormal exit).

A wrong final tree is a KNOWN finding only if (a) the model yields the same tree for the same schedule and (b) its history is
listed in known/C17_sched_histories.json (produced once from the pinned tree by `tools/pin_histories.py sched`, reviewed, committed,
only read here).  For the families that are enumerated completely the table holds the EXACT histories (parties, rule shape, the
phases in which each party was preempted, every exit status, what is wrong with which message).  For the sampled families it holds
history SHAPES (rule shape, which message is duplicated / lost / size class of a stray, and the (kind, phase) pairs of preempted
parties that have to be present).  Anything else - another loss, another duplicate, a damaged copy, an abnormal exit, or a listed
history the model does not reproduce - is a violation.
"""
import concurrent.futures as cf
import itertools
import multiprocessing
import os
import random
import re
import select
import subprocess
import time

import vlib
import proc
import world
import worldscen as ws
import evalcommon as ec

R = '@R@'
RULE = 'match header "X-Id" /^[0-9]+$/'
RULE_PATS = [('^[0-9]+$', '')]
MD_KINDS = {
    'move-A': ('maildir "%s/src" {\n\t%s move "%s/dstA"\n}\n', ()),
    'move-B': ('maildir "%s/src" {\n\t%s move "%s/dstB"\n}\n', ()),
    'move-xdev': ('maildir "%s/src" {\n\t%s move "%s/dstA"\n}\n', ('dstA',)),
    'flag': ('maildir "%s/src" {\n\t%s flag !new\n}\n', ()),
    'label': ('maildir "%s/src" {\n\t%s label "lbl"\n}\n', ()),
    'discard': ('maildir "%s/src" {\n\t%s discard\n}\n', ()),
}
CLIENT_KINDS = ('ext-rename', 'ext-delete')
IDENT = [dict(VSHIM_PID='4242', VSHIM_RANDOM='7'), dict(VSHIM_PID='5353', VSHIM_RANDOM='50'), dict(VSHIM_PID='6464', VSHIM_RANDOM='90')]
CONF_NAMES = ['conf', 'confB', 'confC']
TIMEOUT = 30.0
BUDGET = 4000          # size of the sampled families (see families())
SAMPLE_UNIVERSES = 8    # distinct sampled schedule sets (VERIF_SEED modulo this)


def conf_for(kind, root, rule):
    tmpl = MD_KINDS[kind][0]
    return tmpl % ((root, rule, root) if tmpl.count('%s') == 3 else (root, rule))


class WTools:
    """What proc.Scenario needs from proc.Tools, with sandbox names private to this worker process."""

    def __init__(self, tools):
        self.mdsort, self.shim, self.helper = tools.mdsort, tools.shim, tools.helper
        self.dir = os.path.join(tools.sc.dir, 'sched-%d' % os.getpid())
        os.makedirs(self.dir, exist_ok=True)
        self.n = 0

    def box(self):
        self.n += 1
        d = os.path.join(self.dir, 'box%d' % self.n)
        os.makedirs(d)
        return d


def phases_after(calls):
    """Phase of a party after each prefix of its calls (index k = before its call k; one more entry for "after the last")."""
    out, ph = ['idle'], 'idle'
    for c in calls:
        raw = c['raw']
        name = raw.split()[1] if len(raw.split()) > 1 else ''
        if name == 'openat' and 'O_EXCL' in raw:
            ph = 'inflight-empty'
        elif name == 'fflush' and ph == 'inflight-empty':
            ph = 'inflight-complete'
        elif name in ('renameat', 'unlinkat'):
            ph = 'idle'
        out.append(ph)
    return out


class Combo:
    """One sandbox for a tuple of party kinds and a rule shape."""

    def __init__(self, wt, h, henv, kinds, rule=RULE):
        self.kinds, self.rule = tuple(kinds), rule
        self.pats = RULE_PATS if rule == RULE else []
        tree = ws.base_tree(1, 1, extra_dirs=('dstA', 'dstB'))
        devs = sorted(set(d for k in kinds if k in MD_KINDS for d in MD_KINDS[k][1]))
        first_md = [k for k in kinds if k in MD_KINDS]
        conf0 = conf_for(first_md[0], R, rule) if first_md else 'maildir "%s/src" {\n\tmatch all flag new\n}\n' % R
        spec = ws.Spec('|'.join(kinds), conf0, self.pats, tree=tree, devmap=tuple('%s/%s' % (R, d) for d in devs))
        self.scen = spec.build(wt)
        root = self.scen.root
        self.h, self.henv = h, henv
        self.confs, self.texts, self.blocks = [], [], None
        for i, k in enumerate(kinds):
            if k in MD_KINDS:
                text = conf_for(k, root, rule)
                for base in (root, self.scen._saved):
                    with open(os.path.join(base, CONF_NAMES[i]), 'w', encoding='latin-1') as fh:
                        fh.write(text)
                self.confs.append(os.path.join(root, CONF_NAMES[i]))
                self.texts.append(text)
            else:
                self.confs.append(None)
                self.texts.append(None)
        # the client listed the maildir when it started: its operations are fixed by the initial tree
        self.client_ops = {}
        msgs = sorted(rel for rel in ws.maildir_files(self.scen.initial))
        new = [rel for rel in msgs if rel.startswith('src/new/')]
        self.client_ops['ext-rename'] = [('rename', 'src/new', os.path.basename(r), 'src/cur', os.path.basename(r) + ':2,S') for r in new]
        self.client_ops['ext-delete'] = [('unlink', os.path.dirname(r), os.path.basename(r)) for r in msgs if r.startswith('src/')]
        self.fifos = []
        for i in range(len(kinds)):
            rq, ak = root + '.g%d.req' % i, root + '.g%d.ack' % i
            for p in (rq, ak):
                if os.path.exists(p):
                    os.unlink(p)
                os.mkfifo(p)
            self.fifos.append((rq, ak))
        self.orig = {}
        for rel, data in ws.maildir_files(self.scen.initial).items():
            i = ws.msg_id(data)
            if i is not None:
                self.orig[i] = data
        self.files_blob, self.devs_blob = self._fs_blobs()

    def _fs_blobs(self):
        scen = self.scen
        files, dirs = [], set()
        for rel, (kind, data, mt) in scen.initial.items():
            full = os.path.join(scen.root, rel)
            if kind == 'dir':
                dirs.add(full)
            elif kind == 'file':
                files.append((os.path.dirname(full), os.path.basename(full), data, mt or 0))
        lines = ['%s %s %s %d' % (world.hx(d.encode('latin-1')), world.hx(n.encode('latin-1')), world.hx(c), mt) for d, n, c, mt in files]
        for d in sorted(dirs):
            lines.append('%s - -' % world.hx(d.encode('latin-1')))
        devs = '\n'.join('%s %d' % (world.hx(p.encode('latin-1')), i + 1) for i, p in enumerate(scen.devmap))
        return world.blob('\n'.join(lines)), world.blob(devs)

    def cleanup(self):
        for rq, ak in self.fifos:
            for p in (rq, ak):
                try:
                    os.unlink(p)
                except OSError:
                    pass
        self.scen.cleanup()

    def _blocks(self):
        """The configurations as the real parser reads them (harness `ast`), once per sandbox (only the model needs them)."""
        if self.blocks is None:
            self.blocks = []
            for k, text in zip(self.kinds, self.texts):
                if text is None:
                    self.blocks.append(None)
                    continue
                out = vlib.run_batch([self.h], ['ast %s %s' % (world.blob(text), world.blob(os.path.join(self.scen.root, 'home')))], self.henv, nproc=1)[0]
                if not out.startswith('BLOCKS'):
                    raise vlib.CheckError('C17 schedules: the configuration of party %s is rejected: %s' % (k, out[:200]))
                filled = ec.fill_patterns(out.split(' ')[1:], self.pats)
                if filled is None:
                    raise vlib.CheckError('C17 schedules: cannot fill the patterns of party %s' % k)
                self.blocks.append('\n'.join(b.strip() for b in filled.split(' ;') if b.strip()))
        return self.blocks

    # ---- the model's request for a schedule -------------------------------------------------------------------------------
    def request(self, sched):
        root = self.scen.root
        self._blocks()
        plines = []
        for i, k in enumerate(self.kinds):
            if k in MD_KINDS:
                plines.append(' '.join(['mdsort', proc.PIN['VSHIM_TIME'], IDENT[i]['VSHIM_PID'], world.hx(proc.PIN['VSHIM_HOST'].encode()),
                                        IDENT[i]['VSHIM_RANDOM'], world.hx(os.path.join(root, 'tmp').encode()),
                                        world.hx(os.path.join(root, 'home').encode()), world.hx(self.confs[i].encode()),
                                        world.blob(self.blocks[i])]))
            else:
                ops = []
                for op in self.client_ops[k]:
                    if op[0] == 'rename':
                        ops.append('rename,%s,%s,%s,%s' % (world.hx(os.path.join(root, op[1]).encode()), world.hx(op[2].encode()),
                                                           world.hx(os.path.join(root, op[3]).encode()), world.hx(op[4].encode())))
                    else:
                        ops.append('unlink,%s,%s' % (world.hx(os.path.join(root, op[1]).encode()), world.hx(op[2].encode())))
                plines.append('client ' + ';'.join(ops))
        # a schedule that does not end every party is completed in party order (as `run` does)
        stoks = ' '.join('%d:%s' % (p, '*' if n is None else n) for p, n in list(sched) + [(p, None) for p in range(len(self.kinds))])
        return 'M parties %s %s %s %s' % (self.files_blob, self.devs_blob, world.blob('\n'.join(plines)), world.blob(stoks))

    # ---- the real run of a schedule ---------------------------------------------------------------------------------------
    def run(self, sched):
        """-> dict(status=[...], traces=[canonical lines per party], calls=[raw call dicts per party], preempted=[set of phases],
        final=snapshot, notes=[...])"""
        scen = self.scen
        scen.reset()
        root = scen.root
        n = len(self.kinds)
        # absolute yield points of every party
        done = [0] * n
        stops = [[] for _ in range(n)]
        for p, cnt in sched:
            if cnt:                       # (p, 0) is "not yet": no yield point
                done[p] += cnt
                stops[p].append(done[p])
        procs, reqfd, keep, logs, pidfd, outf = [None] * n, [None] * n, [None] * n, [None] * n, [None] * n, [None] * n
        state = ['new'] * n          # new / paused / exited
        executed = [0] * n            # calls issued so far (mdsort: known at pauses and at the end)
        client_pos = [0] * n
        client_tr = [[] for _ in range(n)]
        status = [None] * n
        notes = []
        preempt_at = [[] for _ in range(n)]     # call counts of party p at which another party ran
        outs = [b''] * n

        def start(p):
            rq, ak = self.fifos[p]
            reqfd[p] = os.open(rq, os.O_RDONLY | os.O_NONBLOCK)
            keep[p] = os.open(rq, os.O_WRONLY)
            log = root + '.p%d.log' % p
            if os.path.exists(log):
                os.unlink(log)
            logs[p] = log
            env = {'PATH': os.environ.get('PATH', '/usr/bin:/bin'), 'HOME': os.path.join(root, 'home'), 'TMPDIR': os.path.join(root, 'tmp'),
                   'LC_ALL': 'C', 'LD_PRELOAD': scen.tools.shim, 'VSHIM_LOG': log}
            env.update(proc.PIN)
            env.update(IDENT[p])
            if scen.devmap:
                env['VSHIM_DEVMAP'] = ':'.join(scen.devmap)
            if stops[p]:
                env['VSHIM_PAUSE'] = ','.join(str(s) for s in sorted(set(stops[p])))
                # report, then wait for the word `go`: a read that ends without it (the writer of the previous release was still
                # closing its end when this reader attached) is repeated, so one release lets exactly one pause go on
                env['VSHIM_PAUSE_CMD'] = 'echo "$VSHIM_PAUSE_INDEX" > %s; until read x < %s && [ "$x" = go ]; do :; done' % (rq, ak)
            # its own process group (the pause commands are its children: a kill of the group leaves no shell behind), output to a file
            # (nothing but the party holds it open for the coordinator to wait on)
            outf[p] = open(root + '.p%d.out' % p, 'wb')
            procs[p] = subprocess.Popen([scen.tools.mdsort, '-f', self.confs[p]], stdin=subprocess.DEVNULL, stdout=outf[p],
                                        stderr=subprocess.STDOUT, env=env, cwd=root, start_new_session=True)
            pidfd[p] = os.pidfd_open(procs[p].pid)

        def release(p):
            ak = self.fifos[p][1]
            t0 = time.time()
            while True:
                try:
                    fd = os.open(ak, os.O_WRONLY | os.O_NONBLOCK)
                    break
                except OSError:
                    if time.time() - t0 > TIMEOUT:
                        tail = ''
                        try:
                            tail = ' | '.join(open(logs[p], encoding='latin-1').read().split('\n')[-6:])
                        except OSError:
                            pass
                        raise vlib.CheckError('C17 schedules: party %d, paused before its call %d, does not wait for its release (exit status: %r; '
                                              'stops %s; end of its trace: %s)' % (p, executed[p], procs[p].poll(), stops[p], tail))
                    time.sleep(0.0005)
            os.write(fd, b'go\n')
            os.close(fd)

        def wait(p):
            """Until party p has paused again (-> its call index) or has exited (-> None)."""
            t0 = time.time()
            buf = b''
            while True:
                r, _, _ = select.select([reqfd[p], pidfd[p]], [], [], 1.0)
                if reqfd[p] in r:
                    try:
                        buf += os.read(reqfd[p], 64)
                    except BlockingIOError:
                        pass
                    if buf.endswith(b'\n'):
                        return int(buf.strip() or b'0')
                    continue
                if pidfd[p] in r or procs[p].poll() is not None:
                    procs[p].wait()
                    return None
                if time.time() - t0 > TIMEOUT:
                    raise vlib.CheckError('C17 schedules: party %d neither pauses nor ends within %d s' % (p, TIMEOUT))

        def finish(p):
            procs[p].wait()
            outf[p].close()
            try:
                outs[p] = open(outf[p].name, 'rb').read()[-2000:]
                os.unlink(outf[p].name)
            except OSError:
                pass
            status[p] = procs[p].returncode
            state[p] = 'exited'
            for fd in (reqfd[p], keep[p], pidfd[p]):
                if fd is not None:
                    os.close(fd)
            reqfd[p] = keep[p] = pidfd[p] = None

        try:
            for p, cnt in sched:
                if state[p] == 'exited':
                    continue
                kind = self.kinds[p]
                if kind in CLIENT_KINDS:
                    ops = self.client_ops[kind]
                    todo = len(ops) - client_pos[p] if cnt is None else min(cnt, len(ops) - client_pos[p])
                    if todo > 0:
                        self._mark_preempted(p, state, executed, client_pos, preempt_at)
                    for _ in range(todo):
                        op = ops[client_pos[p]]
                        client_pos[p] += 1
                        try:
                            if op[0] == 'rename':
                                os.rename(os.path.join(root, op[1], op[2]), os.path.join(root, op[3], op[4]))
                            else:
                                os.unlink(os.path.join(root, op[1], op[2]))
                            client_tr[p].append('ok 0')
                        except OSError as e:
                            import errno as _errno
                            client_tr[p].append('err %s' % _errno.errorcode.get(e.errno, str(e.errno)))
                    state[p] = 'paused' if client_pos[p] < len(ops) else 'exited'
                    if state[p] == 'exited':
                        status[p] = 0
                    continue
                if cnt == 0:
                    continue
                self._mark_preempted(p, state, executed, client_pos, preempt_at)
                if state[p] == 'new':
                    start(p)
                else:
                    release(p)
                k = wait(p)
                if k is None:
                    finish(p)
                else:
                    executed[p] = k
                    state[p] = 'paused'
            # whatever is still paused (a schedule that does not end every party): let it finish, in party order
            for p in range(n):
                if self.kinds[p] in CLIENT_KINDS or state[p] == 'exited':
                    continue
                notes.append('party %d finished after the end of the schedule' % p)
                while state[p] != 'exited':
                    self._mark_preempted(p, state, executed, client_pos, preempt_at)
                    if state[p] == 'new':
                        start(p)
                    else:
                        release(p)
                    k = wait(p)
                    if k is None:
                        finish(p)
                    else:
                        executed[p], state[p] = k, 'paused'
        finally:
            for p in range(n):
                if procs[p] is not None and procs[p].returncode is None:
                    # not reaped yet (so its pid still names its group): kill the whole group - the party and whatever pause command it
                    # is waiting in; nothing of it may outlive the schedule
                    try:
                        os.killpg(procs[p].pid, 9)
                    except OSError:
                        pass
                    procs[p].wait()
                    if outf[p] is not None and not outf[p].closed:
                        outf[p].close()
                for fd in (reqfd[p], keep[p], pidfd[p]):
                    if fd is not None:
                        os.close(fd)
        traces, calls = [], []
        for p in range(n):
            if self.kinds[p] in CLIENT_KINDS:
                traces.append(list(client_tr[p]))
                calls.append([])
                continue
            tr = []
            if logs[p] and os.path.exists(logs[p]):
                tr = proc.parse_trace(open(logs[p], encoding='latin-1').read())
                os.unlink(logs[p])
            cl = [t for t in tr if t['kind'] == 'call']
            for t in tr:
                if t['kind'] == 'pause' and not t['raw'].endswith('rc=0'):
                    raise vlib.CheckError('C17 schedules: the pause command of party %d failed: %s' % (p, t['raw']))
            lines, nts = world.canon_trace(tr)
            notes.extend(nts)
            traces.append(lines)
            calls.append(cl)
        final = proc.snapshot(root, skip=('conf',))
        pre = []
        for p in range(n):
            if self.kinds[p] in CLIENT_KINDS:
                pre.append(sorted(set('idle' for _ in preempt_at[p])))
                continue
            ph = phases_after(calls[p])
            pre.append(sorted(set(ph[min(k, len(ph) - 1)] for k in preempt_at[p] if k < len(calls[p]))))
        return {'status': status, 'traces': traces, 'calls': calls, 'preempted': pre, 'final': final, 'notes': notes, 'out': outs}

    def _mark_preempted(self, p, state, executed, client_pos, preempt_at):
        """Party p is about to issue calls: every other party that has started and not finished is preempted where it stands."""
        for q in range(len(self.kinds)):
            if q == p:
                continue
            # a party that has not started yet is not preempted: whatever runs before it is simply earlier
            if state[q] == 'paused':
                preempt_at[q].append(client_pos[q] if self.kinds[q] in CLIENT_KINDS else executed[q])

    # ---- judging ---------------------------------------------------------------------------------------------------------
    def oracle(self, res):
        files = ws.maildir_files(res['final'])
        probs = []
        deleted_ok = any(k in ('ext-delete', 'discard') for k in self.kinds)
        for i in sorted(self.orig):
            same = sorted(rel for rel, d in files.items() if ws.msg_id(d) == i)
            if not same and not deleted_ok:
                probs.append('message %d lost' % i)
            if len(same) > 1:
                probs.append('message %d exists %d times: %s' % (i, len(same), same))
            for rel in same:
                if files[rel].split(b'\n\n', 1)[-1] != self.orig[i].split(b'\n\n', 1)[-1]:
                    probs.append('copy %s of message %d is not intact' % (rel, i))
        for rel in sorted(files):
            if ws.msg_id(files[rel]) not in self.orig:
                probs.append('stray file %s (%d bytes)' % (rel, len(files[rel])))
        for p, k in enumerate(self.kinds):
            if k in MD_KINDS and res['status'][p] not in (0, 1):
                probs.append('party %d (%s): abnormal exit status %r: %s' % (p, k, res['status'][p], res['out'][p][-200:].decode('latin-1')))
        return probs

    def norm_line(self, line):
        """Canonical trace line with what the two sides cannot agree on literally made equal: the length argument of fprintf (a trace
        shows the format, not the length) and modification times set while the test ran (the model says 0 for "during the run")."""
        t = line.split(' ')
        if t[0] == 'fprintf' and len(t) > 2:
            t[2] = '#'
        if t[0] == 'fdopen' and t[-2] == 'ok':
            t[-1] = '#'           # the stream of the same descriptor: the trace shows the descriptor, the model no value
        if t[0] == 'fstatat' and t[-2] == 'ok' and int(t[-1]) >= self.scen.t0_ns:
            t[-1] = '0'
        if t[0] == 'utimensat':
            for j in (3, 4):
                if t[j] != 'omit' and int(t[j]) >= self.scen.t0_ns:
                    t[j] = '0'
        return ' '.join(t)

    def compare(self, res, answer):
        """-> list of disagreements between the real run and the model's run of the same schedule."""
        if not answer.startswith('OK ST '):
            return ['the model does not run this schedule: %s' % answer[:300]]
        m = re.match(r'OK ST (\S*) FS (.*?) TR (.*?) EV (\S*)$', answer)
        if not m:
            return ['unreadable answer: %s' % answer[:200]]
        diffs = []
        mst = m.group(1).split(',')
        mtr = m.group(3).split('|')
        for p, k in enumerate(self.kinds):
            ml = [l for l in (mtr[p] if p < len(mtr) else '').split(';') if l]
            if k in CLIENT_KINDS:
                got = [l.split(' = ', 1)[1] for l in ml]
                if got != res['traces'][p]:
                    diffs.append('client %d: results %s, model %s' % (p, res['traces'][p], got))
                continue
            want = '-' if res['status'][p] is None else ('0' if res['status'][p] == 0 else '1')
            if (mst[p] if p < len(mst) else '?') != want:
                diffs.append('party %d (%s): exit status %r, model error flag %s' % (p, k, res['status'][p], mst[p] if p < len(mst) else '?'))
            rl = [self.norm_line(l) for l in res['traces'][p]]
            ml = [self.norm_line(l) for l in ml]
            if rl != ml:
                j = 0
                while j < min(len(rl), len(ml)) and rl[j] == ml[j]:
                    j += 1
                diffs.append('party %d (%s): call %d is [%s], the model has [%s] (%d / %d calls)' % (
                    p, k, j, rl[j] if j < len(rl) else 'end', ml[j] if j < len(ml) else 'end', len(rl), len(ml)))
        mfs = world.parse_fs(m.group(2))
        root = self.scen.root
        rfs, rmt = {}, {}
        for rel, (kind, data, mt) in res['final'].items():
            full = os.path.join(root, rel)
            if kind == 'dir':
                rfs.setdefault(full, {})
            elif kind == 'file':
                rfs.setdefault(os.path.dirname(full), {})[os.path.basename(full).encode('latin-1')] = data
                rmt.setdefault(os.path.dirname(full), {})[os.path.basename(full).encode('latin-1')] = mt
        for d, ents in mfs.items():
            if not (d.endswith('/new') or d.endswith('/cur')):
                continue
            real = rfs.get(d, {})
            if set(real) != set(ents):
                diffs.append('directory %s: model %s, real %s' % (d.replace(root, R), sorted(ents), sorted(real)))
                continue
            for nme, (data, dur, mt) in ents.items():
                if data is not None and real[nme] != data:
                    diffs.append('content of %s/%r differs' % (d.replace(root, R), nme))
                t = rmt[d].get(nme)
                if mt != 0 and t != mt:
                    diffs.append('modification time of %s/%r: model %d, real %s' % (d.replace(root, R), nme, mt, t))
                if mt == 0 and t is not None and t < self.scen.t0_ns:
                    diffs.append('modification time of %s/%r: set during the run says the model, real %d is older' % (d.replace(root, R), nme, t))
        return diffs

    def eff_kind(self, p):
        """Devices are global: where some party is `move-xdev`, dstA is another device for everybody and `move-A` copies too."""
        k = self.kinds[p]
        return 'move-xdev' if k == 'move-A' and 'move-xdev' in self.kinds else k

    def history(self, res, probs, answer=''):
        """(exact signature, shape key) of a run that ended in a wrong tree.  The shape carries `stale-unlink` when the model's
        history of the same schedule has a successful unlinkat of a name that was bound to another file than the one the party had
        opened under it (the driver's EV field)."""
        rs = 'match-all' if self.rule != RULE else 'match-real'
        sig = ' || '.join(['+'.join(self.kinds), rs,
                           ';'.join('%s:%s' % (self.kinds[p], ','.join(res['preempted'][p]) or '-') for p in range(len(self.kinds))),
                           'exit=' + ','.join(str(x) for x in res['status']), ' ; '.join(sorted(set(norm_problem(p) for p in probs)))])
        victims = sorted(set('%s:%s' % (self.eff_kind(p), ph) for p in range(len(self.kinds)) for ph in res['preempted'][p]))
        m = re.search(r' EV (\S*)$', answer)
        stale = bool(m) and any(x not in ('', '0') for x in m.group(1).split(','))
        return sig, shape_key(rs, problem_shape(probs) + (['stale-unlink'] if stale else []), victims)


def norm_problem(p):
    return re.sub(r'\d{6,}\.\d+_(\d+)\.\w+', r'N\1', p)


def problem_shape(probs):
    """What is wrong, without names: dup<i> / lost<i> (message i), stray0 / stray-short (up to 40 bytes: a header block only) /
    stray-long, OTHER (a damaged copy, an abnormal exit: never part of a listed history)."""
    out = set()
    for p in probs:
        m = re.match(r'message (\d+) exists', p)
        if m:
            out.add('dup' + m.group(1))
            continue
        m = re.match(r'message (\d+) lost', p)
        if m:
            out.add('lost' + m.group(1))
            continue
        m = re.match(r'stray file .* \((\d+) bytes\)', p)
        if m:
            n = int(m.group(1))
            out.add('stray0' if n == 0 else 'stray-short' if n <= 40 else 'stray-long')
            continue
        out.add('OTHER')
    return sorted(out)


def shape_key(rule_shape, pshape, victims):
    return ' || '.join([rule_shape, ','.join(pshape), ','.join(victims)])


INFLIGHT = ('inflight-empty', 'inflight-complete')
COPIERS = ('label', 'move-xdev')


def review_class(rule_shape, pshape, victims):
    """The rule by which tools/pin_histories.py PROPOSES a class for a history of the pinned tree (the proposals are reviewed and
    committed as a table; the check itself never calls this).  pshape: what is wrong (problem_shape) plus `stale-unlink` (see
    Combo.history); victims: 'kind:phase' of the preempted parties."""
    if 'OTHER' in pshape or not [t for t in pshape if t != 'stale-unlink']:
        return None
    kinds_pre = set(v.split(':')[0] for v in victims)
    inflight = set(v.split(':')[0] for v in victims if v.split(':')[1] in INFLIGHT)
    lost = any(t.startswith('lost') for t in pshape)
    dup = any(t.startswith('dup') for t in pshape)
    strays = [t for t in pshape if t.startswith('stray')]
    stale = 'stale-unlink' in pshape
    flag_pre = 'flag' in kinds_pre
    copier_pre = any(k in kinds_pre for k in COPIERS)
    if stale and copier_pre and dup and not strays:
        # F31: a copying party removed BY NAME a file that was not the one it had opened under that name (the name was renamed away
        # by a flag party, or rolled back by a copying party, and generated again): one message twice, possibly another one gone
        return 'name-reuse-unlink'
    if lost:
        if rule_shape == 'match-all' and any(k in inflight for k in COPIERS) and strays and all(t in ('stray0', 'stray-short') for t in strays) and not dup:
            return 'inflight-copy-loss'               # F32
        return None
    if 'label' in inflight:
        return 'inflight-copy-visible'                # F14, as before
    if flag_pre and strays and not dup and (all(t == 'stray0' for t in strays) or
                                            (rule_shape == 'match-all' and all(t in ('stray0', 'stray-short') for t in strays))):
        # F13, as before; with rules matching every file the party that takes the placeholder for a message may be one that moves
        # across devices: it WRITES the empty message (one byte) instead of renaming the empty file
        return 'placeholder-visible'
    return None


def essential_victims(cls, victims):
    """The preempted (kind, phase) pairs a class is about - what `review_class` looked at: any ONE of them has to be present in a
    sampled schedule of that shape (first party's action kind + window, as for the pinned F13/F14 histories)."""
    if cls == 'inflight-copy-visible':
        return [v for v in victims if v.split(':')[0] == 'label' and v.split(':')[1] in INFLIGHT]
    if cls == 'placeholder-visible':
        return [v for v in victims if v.split(':')[0] == 'flag']
    if cls == 'name-reuse-unlink':
        return [v for v in victims if v.split(':')[0] in COPIERS]
    if cls == 'inflight-copy-loss':
        return [v for v in victims if v.split(':')[0] in COPIERS and v.split(':')[1] in INFLIGHT]
    return []


SCHED_TABLE = os.path.join(vlib.ROOT, 'known', 'C17_sched_histories.json')
EXHAUSTIVE = ('one-preemption', 'two-preemptions', 'match-all')


def load_table():
    import json
    try:
        t = json.load(open(SCHED_TABLE))
    except OSError:
        t = {}
    shapes = []
    for key, cls in sorted(t.get('shapes', {}).items()):
        rs, ps, vs = key.split(' || ')
        shapes.append((rs, ps, set(v for v in vs.split(',') if v), cls))
    return {'exact': t.get('exact', {}), 'shapes': shapes}


def table_class(table, family, sig, shape):
    """Class of a wrong tree the model reproduces: the exact history for the enumerated families; for the sampled ones a listed shape
    (same rule shape, exactly the same things wrong, its preempted (kind, phase) pair present); else `unlisted`."""
    if family in EXHAUSTIVE or family == 'witness':
        return table['exact'].get(sig, 'unlisted')
    rs, ps, vs = shape.split(' || ')
    have = set(v for v in vs.split(',') if v)
    # with the stale unlink of the model's history (F31 is listed with it), then without (the other classes do not depend on it)
    for want in (ps, ','.join(t for t in ps.split(',') if t != 'stale-unlink')):
        for trs, tps, tvs, cls in table['shapes']:
            if trs == rs and tps == want and tvs <= have:
                return cls
    return 'unlisted'


# --------------------------------------------------------------------------------------------------------------------------
# worker side
# --------------------------------------------------------------------------------------------------------------------------

_W = {}


def _worker_init(tools, h, henv):
    _W['wt'] = WTools(tools)
    _W['h'], _W['henv'] = h, henv


def lengths(kinds, rule=RULE):
    """Number of calls of each party when it runs alone (fault-free), for laying out schedules."""
    c = Combo(_W['wt'], _W['h'], _W['henv'], kinds, rule)
    try:
        out = []
        for p, k in enumerate(kinds):
            if k in CLIENT_KINDS:
                out.append(len(c.client_ops[k]))
            else:
                r = c.run([(p, None)])
                out.append(len(r['calls'][p]))
        return out
    finally:
        c.cleanup()


def run_job(job):
    """job = (family, kinds, rule, [schedules]) -> compact result: counters and, per distinct history of a wrong tree or disagreement,
    its count and one example."""
    family, kinds, rule, scheds = job
    c = Combo(_W['wt'], _W['h'], _W['henv'], kinds, rule)
    out = {'family': family, 'kinds': kinds, 'rule': 'match-all' if rule != RULE else 'match-real', 'n': 0, 'switches': 0, 'clean': 0,
           'hist': {}, 'model_agrees': 0, 'calls': 0}

    def note(key, example):
        e = out['hist'].setdefault(key, {'n': 0, 'example': example})
        e['n'] += 1
    pending = []

    def flush(c):
        """The model's runs of the schedules gathered in this sandbox; judge each."""
        answers = vlib.run_batch([vlib.driver_path()], [c.request(s) for s, _ in pending], nproc=1)
        for (s, res), ans in zip(pending, answers):
            out['n'] += 1
            out['switches'] += max(0, len([1 for a, b in zip(s, s[1:]) if a[0] != b[0]]))
            out['calls'] += sum(len(t) for t in res['traces'])
            probs = c.oracle(res)
            diffs = c.compare(res, ans)
            if not diffs:
                out['model_agrees'] += 1
            if not probs and not diffs:
                out['clean'] += 1
                continue
            sig, shape = c.history(res, probs, ans)
            note((sig, shape, bool(probs), not diffs),
                 {'family': family, 'parties': list(kinds), 'rule': rule, 'schedule': sched_text(s), 'history': sig, 'shape': shape, 'what': probs[:6],
                  'model_disagrees': diffs[:6], 'notes': res['notes'][:4], 'exit': res['status'],
                  'traces': [[l for l in t][-12:] for t in res['traces']] if diffs else None})
        del pending[:]
    try:
        for s in scheds:
            for attempt in (1, 2):
                try:
                    pending.append((s, c.run(s)))
                    break
                except vlib.CheckError as e:
                    # the harness lost a party (a pause command that does not come back on an overloaded machine): judge what was
                    # gathered in this sandbox, go on in a fresh one, try the schedule once more; a second failure is reported
                    flush(c)
                    c.cleanup()
                    c = Combo(_W['wt'], _W['h'], _W['henv'], kinds, rule)
                    out['retries'] = out.get('retries', 0) + 1
                    if attempt == 2:
                        out['n'] += 1
                        note(('harness', str(e)[:80], False, False), {'family': family, 'parties': list(kinds), 'rule': rule, 'schedule': sched_text(s),
                                                                      'what': [], 'model_disagrees': ['harness: %s' % e]})
        flush(c)
        return out
    finally:
        c.cleanup()


def sched_text(s):
    return ' '.join('%d:%s' % (p, '*' if n is None else n) for p, n in s)


def parse_sched(text):
    out = []
    for t in text.split():
        p, n = t.split(':')
        out.append((int(p), None if n == '*' else int(n)))
    return out


# --------------------------------------------------------------------------------------------------------------------------
# schedule families
# --------------------------------------------------------------------------------------------------------------------------

def chunks(lst, n):
    return [lst[i:i + n] for i in range(0, len(lst), n)]


def families(rng, L, budget):
    """-> list of jobs.  `L(kinds, rule)` = calls of each party alone.  `budget` scales the sampled families."""
    jobs = []
    md = list(MD_KINDS)
    allk = md + list(CLIENT_KINDS)

    # (1) one preemption, exhaustive: A up to k, B whole, A rest - every ordered pair incl. the client as B, every k
    for a in md:
        for b in allk:
            la, lb = L((a, b))
            jobs.append(('one-preemption', (a, b), RULE, [[(0, k), (1, None), (0, None)] for k in range(la + 1)]))
    # (2) two preemptions, exhaustive: A up to k1, B up to k2, A whole rest, B rest - every ordered pair of mdsort parties, every (k1, k2)
    for a in md:
        for b in md:
            la, lb = L((a, b))
            sc = [[(0, k1), (1, k2), (0, None), (1, None)] for k1 in range(la + 1) for k2 in range(1, lb)]
            for ch in chunks(sc, 120):
                jobs.append(('two-preemptions', (a, b), RULE, ch))
        for b in CLIENT_KINDS:
            la, lb = L((a, b))
            sc = [[(0, k1), (1, k2), (0, k3), (1, None), (0, None)] for k1 in range(la + 1) for k2 in range(1, lb) for k3 in range(1, la + 1 - k1)]
            for ch in chunks(sc, 120):
                jobs.append(('two-preemptions', (a, b), RULE, ch))
    # (3) the rule that matches every file (witness shape of F13), two preemptions, exhaustive for the witness pairs
    for a, b in (('flag', 'move-A'), ('label', 'label'), ('label', 'move-A'), ('move-A', 'label')):
        la, lb = L((a, b), 'match all')
        sc = [[(0, k1), (1, k2), (0, None), (1, None)] for k1 in range(la + 1) for k2 in range(1, lb + 1)]
        for ch in chunks(sc, 120):
            jobs.append(('match-all', (a, b), 'match all', ch))
    # (4) three switches between two parties, sampled
    n4 = budget * 2
    per = {}
    for _ in range(n4):
        a, b = rng.choice(md), rng.choice(md)
        la, lb = L((a, b))
        k1 = rng.randrange(0, la + 1)
        k2 = rng.randrange(1, lb + 1)
        k3 = rng.randrange(1, max(2, la + 1 - k1))
        k4 = rng.randrange(1, max(2, lb + 1 - k2))
        order = rng.choice([[(0, None), (1, None)], [(1, None), (0, None)]])
        per.setdefault((a, b), []).append([(0, k1), (1, k2), (0, k3), (1, k4)] + order)
    for kinds, sc in sorted(per.items()):
        for ch in chunks(sc, 120):
            jobs.append(('three-switches', kinds, RULE, ch))
    # (5) three parties, sampled: two or three mdsort runs and the client, a few long segments
    per = {}
    for _ in range(budget * 3):
        if rng.random() < 0.5:
            kinds = (rng.choice(md), rng.choice(md), rng.choice(CLIENT_KINDS))
        else:
            kinds = (rng.choice(md), rng.choice(md), rng.choice(md))
        ls = L(kinds)
        left = list(ls)
        s = []
        for _ in range(rng.randrange(3, 8)):
            p = rng.randrange(3)
            if left[p] <= 0:
                continue
            k = rng.randrange(1, left[p] + 1)
            if s and s[-1][0] == p:
                continue
            s.append((p, k))
            left[p] -= k
        tail = [0, 1, 2]
        rng.shuffle(tail)
        s += [(p, None) for p in tail]
        per.setdefault(kinds, []).append(s)
    for kinds, sc in sorted(per.items()):
        for ch in chunks(sc, 120):
            jobs.append(('three-parties', kinds, RULE, ch))
    # (6) fine-grained interleavings: the scheduler picks the next party at random every 1-4 calls
    per = {}
    for _ in range(budget):
        np_ = rng.choice((2, 2, 3))
        kinds = tuple(rng.choice(md) for _ in range(np_))
        if np_ == 3 and rng.random() < 0.4:
            kinds = kinds[:2] + (rng.choice(CLIENT_KINDS),)
        rule = RULE if rng.random() < 0.8 else 'match all'
        ls = L(kinds, rule)
        left = [x + 6 for x in ls]
        s = []
        while any(x > 0 for x in left):
            p = rng.choice([i for i, x in enumerate(left) if x > 0])
            k = rng.randrange(1, 5)
            if s and s[-1][0] == p:
                s[-1] = (p, s[-1][1] + k)
            else:
                s.append((p, k))
            left[p] -= k
        s += [(p, None) for p in range(np_)]
        per.setdefault((kinds, rule), []).append(s)
    for (kinds, rule), sc in sorted(per.items()):
        for ch in chunks(sc, 60):
            jobs.append(('fine-grained', kinds, rule, ch))
    return jobs


def sweep(tools, sc, seed, budget, only=None, progress=True):
    """Run the families; -> (per-family counters, {history key: {n, example}}, total, wall seconds, processes).
    history key = (family, exact signature, shape, has oracle problems, model agrees)."""
    t0 = time.time()
    h, henv = ec.harness(sc)
    # the sampled families are drawn from one of SAMPLE_UNIVERSES fixed streams (VERIF_SEED picks which): every schedule any seed can
    # draw has been run on the pinned tree when known/C17_sched_histories.json was produced (tools/pin_histories.py sched), so an
    # unlisted history is a change of the code, never the luck of the draw
    rng = random.Random((seed % SAMPLE_UNIVERSES) * 7919 + 17)
    md = list(MD_KINDS)
    ctx = multiprocessing.get_context('fork')
    nproc = int(os.environ.get('VERIF_JOBS', '0')) or vlib.NCPU
    fam, hist, done = {}, {}, 0
    with cf.ProcessPoolExecutor(nproc, mp_context=ctx, initializer=_worker_init, initargs=(tools, h, henv)) as ex:
        # calls of a party alone: by kind and rule shape (they lay out the schedules)
        single = {}
        kinds_rules = [(k, RULE) for k in md] + [(k, 'match all') for k in md]
        for (k, rule), ls in zip(kinds_rules, ex.map(_single_len, kinds_rules)):
            single[(k, rule)] = ls

        def L(kinds, rule=RULE):
            return [single[(k, rule)] if k in MD_KINDS else (1 if k == 'ext-rename' else 2) for k in kinds]
        jobs = families(rng, L, budget)
        if only:
            jobs = [j for j in jobs if j[0] in only]
        total = sum(len(j[3]) for j in jobs)
        if progress:
            vlib.log('C17 schedules: calls of a party alone %s; %d schedules in %d jobs on %d processes' % (
                {k: v for (k, r), v in single.items() if r == RULE}, total, len(jobs), nproc))
        jobs.sort(key=lambda j: -len(j[3]) * sum(L(j[1], j[2])))
        nextlog = time.time() + 20
        for out in ex.map(run_job, jobs, chunksize=1):
            f = fam.setdefault(out['family'], {'schedules': 0, 'clean': 0, 'context_switches': 0, 'model_agrees': 0, 'calls': 0, 'party_tuples': set()})
            f['schedules'] += out['n']
            f['clean'] += out['clean']
            f['context_switches'] += out['switches']
            f['model_agrees'] += out['model_agrees']
            f['calls'] += out['calls']
            f['party_tuples'].add('+'.join(out['kinds']) + '/' + out['rule'])
            for key, e in out['hist'].items():
                g = hist.setdefault((out['family'],) + key, {'n': 0, 'example': e['example']})
                g['n'] += e['n']
            done += out['n']
            if progress and time.time() >= nextlog:
                vlib.log('C17 schedules: %d / %d schedules, %d of them end in a wrong tree or differ from the model (%d distinct histories), %.0f s' % (
                    done, total, sum(g['n'] for g in hist.values()), len(hist), time.time() - t0))
                nextlog = time.time() + 20
    for f in fam.values():
        f['party_tuples'] = len(f['party_tuples'])
    return fam, hist, done, time.time() - t0, nproc


def stage(rep, tools, sc, budget):
    """Run the schedule families; report findings; -> coverage dict."""
    table = load_table()
    fam, hist, done, wall, nproc = sweep(tools, sc, rep.seed, budget)
    known, bad_oracle, bad_model, nbad, sigs = {}, [], [], 0, 0
    for (family, sig, shape, has_probs, agrees), g in sorted(hist.items(), key=lambda kv: str(kv[0])):
        f = fam[family]
        cls = table_class(table, family, sig, shape) if (has_probs and agrees) else 'unlisted'
        if cls != 'unlisted':
            sigs += 1
            f.setdefault('known', {})
            f['known'][cls] = f['known'].get(cls, 0) + g['n']
            e = known.setdefault(cls, {'n': 0, 'example': g['example']})
            e['n'] += g['n']
            continue
        nbad += g['n']
        f['violations'] = f.get('violations', 0) + g['n']
        (bad_oracle if has_probs else bad_model).append(dict(g['example'], schedules_with_this_history=g['n']))
    for cls, e in sorted(known.items()):
        rep.finding(cls, dict({k: v for k, v in e['example'].items() if k != 'traces'}, stage='schedules'))
        if cls in rep.known and e['n'] > 1:
            rep.known_hits[cls][0] += e['n'] - 1
    for b in bad_oracle[:10]:
        rep.finding('unlisted', dict(b, stage='schedules', replay_cmd='python3 tools/check.py C17 --replay <this file>'))
    if bad_model and not rep.violations:
        rep.violation({'obligation': 'correspondence: real parties along a schedule and Model/Parties.lean along the same schedule end differently '
                                     '(calls, results, exit status or final directories); the property oracle found nothing wrong in these runs',
                       'stage': 'schedules', 'disagreements': len(bad_model), 'examples': bad_model[:6]}, False)
    return {
        'schedules': done, 'wall_s': round(wall, 1), 'processes': nproc,
        'families': {k: dict(v, exhaustive=(k in EXHAUSTIVE)) for k, v in sorted(fam.items())},
        'exhaustive': {k: True for k in EXHAUSTIVE if k in fam},
        'known_class_histories': {cls: e['n'] for cls, e in known.items()},
        'distinct_known_histories': sigs,
        'violations': nbad,
        'what': 'one-preemption: every ordered pair of {move-A, move-B, move-xdev, flag, label, discard} x {the same, external rename, external delete}, the '
                'second party whole before call k of the first, every k; two-preemptions: first party up to k1, second up to k2, first to its end, '
                'second to its end, every (k1, k2) of every ordered pair of mdsort parties (against the client: first up to k1, client k2 steps, first '
                'k3 more calls, client rest, first rest, every (k1, k2, k3)); match-all: the same with rules that match every file for the witness '
                'pairs; three-switches, three-parties (two or three mdsort runs and the client), fine-grained (next party drawn every 1-4 calls): '
                'schedules drawn with the PRNG (VERIF_SEED).  Every schedule: real parties under the shim, one running at a time; the same schedule in '
                'Model/Parties.lean through the driver; compared call by call, exit statuses, final directories; the final tree judged by the '
                'exactly-once oracle; a wrong tree is known only if the model reproduces it and its history is listed (known/C17_sched_histories.json)',
    }


WITNESS_F31 = (('flag', 'label'), RULE, '0:26 1:12 0:* 1:*')


def witness(rep, tools):
    """Quick tier: ONE fixed two-preemption schedule that re-confirms F31 on every run (real parties and the oracle only; the
    history must be the listed one)."""
    wt = WTools(tools)
    kinds, rule, st = WITNESS_F31
    c = Combo(wt, None, None, kinds, rule)
    try:
        res = c.run(parse_sched(st))
        probs = c.oracle(res)
        sig, shape = c.history(res, probs)
        cls = load_table()['exact'].get(sig, 'unlisted') if probs else None
        if probs:
            rep.finding(cls, {'stage': 'schedules', 'parties': list(kinds), 'rule': rule, 'schedule': st, 'history': sig, 'what': probs[:5],
                              'exit': res['status'], 'replay_cmd': 'python3 tools/check.py C17 --replay <this file>'})
        return {'schedule': st, 'parties': list(kinds), 'history': sig, 'class': cls, 'wrong_tree': bool(probs)}
    finally:
        c.cleanup()


def _single_len(kr):
    k, rule = kr
    return lengths((k,), rule)[0]


def replay(tools, sc, j):
    h, henv = ec.harness(sc)
    _worker_init(tools, h, henv)
    c = Combo(_W['wt'], h, henv, tuple(j['parties']), j.get('rule', RULE))
    try:
        s = parse_sched(j['schedule'])
        res = c.run(s)
        ans = vlib.run_batch([vlib.driver_path()], [c.request(s)], nproc=1)[0]
        print('parties', j['parties'], 'schedule', j['schedule'])
        print('exit statuses', res['status'])
        for p, t in enumerate(res['calls']):
            print('--- party %d (%s), preempted in phases %s' % (p, c.kinds[p], res['preempted'][p]))
            for x in t:
                print(x['raw'].replace(c.scen.root, R))
        for rel in sorted(ws.maildir_files(res['final'])):
            print('file', rel, len(ws.maildir_files(res['final'])[rel]), 'bytes')
        print('oracle:', c.oracle(res))
        print('model :', c.compare(res, ans) or 'agrees')
    finally:
        c.cleanup()
