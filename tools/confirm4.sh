#!/bin/sh
# usage: confirm4.sh Cxx   -- confirm and file the two round-4 seeds a sub-agent left in /tmp/seed4/Cxx/{s7,s8}
c=$1
for k in s7 s8; do
  d=/tmp/seed4/$c/$k
  [ -f $d/patch.diff ] || { echo "$c-$k: no patch"; continue; }
  extra=$(ls $d | grep -v -e '^patch.diff$' -e '^demo.sh$' | sed "s#^#$d/#")
  sh "$(dirname "$0")/confirm_seed.sh" $c-$k $c $d/patch.diff $d/demo.sh $extra 2>&1 | tail -2
done
