#!/bin/sh
# usage: confirm4.sh Cxx   -- confirm and file the two round-4 seeds a sub-agent left in /tmp/seed5/Cxx/{t9,t10}
c=$1
for k in t9 t10; do
  d=/tmp/seed5/$c/$k
  [ -f $d/patch.diff ] || { echo "$c-$k: no patch"; continue; }
  extra=$(ls $d | grep -v -e '^patch.diff$' -e '^demo.sh$' | sed "s#^#$d/#")
  sh "$(dirname "$0")/confirm_seed.sh" $c-$k $c $d/patch.diff $d/demo.sh $extra 2>&1 | tail -2
done
