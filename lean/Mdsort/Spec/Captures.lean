import Mdsort.Bytes

/-!
# Captured texts (specification for C12, `C12_captures_exact`)

mdsort.conf(5): a pattern may be followed by the flags `l` ("lowercase the matched string from a
subexpression before interpolation") and `u` (uppercase).  `regexec` reports each group as a pair
of byte offsets `[so, eo)` into the subject, or as unset.  The text a back-reference stands for is
read off the subject byte by byte; nothing here refers to the model.
-/

namespace Mdsort.Spec
open Mdsort

/-- What the pattern flags `l` / `u` do to one captured byte.  The configuration parser rejects a
pattern carrying both flags (parse.y: "`l' and `u' flags cannot be combined"); the implementation
would lowercase and then uppercase, which is the same as uppercasing (`Proofs.toupper_tolower`). -/
def caseFold (lcase ucase : Bool) (c : UInt8) : UInt8 :=
  if ucase then toupper c else if lcase then tolower c else c

/-- The text of a group with offsets `[so, eo)`: the bytes `subject[so]`, ..., `subject[eo - 1]`
in order, each case-folded; offsets beyond the subject contribute nothing. -/
def capText (lcase ucase : Bool) (subject : Bytes) (so eo : Nat) : Bytes :=
  (List.range (eo - so)).filterMap fun j => (subject[so + j]?).map (caseFold lcase ucase)

/-- An unset group (`rm_so == -1`) stands for the empty string. -/
def capture (lcase ucase : Bool) (subject : Bytes) : Option (Nat × Nat) → Bytes
  | none => []
  | some (so, eo) => capText lcase ucase subject so eo

end Mdsort.Spec
