import Mdsort.Spec.Message
import Mdsort.Model.Eval

/-!
# The header condition as documented (specification for C10)

mdsort.conf(5): `header { name ... } /pattern/` - "a header condition matches iff some
occurrence of some listed name matches; the first one in (names order, file order)
supplies the captures".  What a pattern does on a value is the regex library's business:
everything here is parametrised by an arbitrary `rx : Bytes → RxRes`.  Only the result
types (`RxRes`, `Match`, `Sub` via `matchCopy`) are shared with the model.
-/

namespace Mdsort.Spec
open Mdsort Mdsort.Model

/-- The values a header condition looks at, each with the *configured* name it was found
under: names in the order they are listed, for each name its occurrences in file order
(decoded logical values, `Spec.headerValues`). -/
def headerCands (fs : List (Bytes × Bytes)) (names : List Bytes) : List (Bytes × Bytes) :=
  names.flatMap fun k => (headerValues fs k).map fun v => (k, v)

/-- The first candidate on which the regex engine says anything but "no match". -/
def firstNonNomatch (rx : Bytes → RxRes) (cands : List (Bytes × Bytes)) : Option (Bytes × Bytes) :=
  cands.find? fun c => rx c.2 != .nomatch

/-- The entry a matching header condition leaves in the match list: type, line, part, the
captured texts (after the `l`/`u` flags) and the pattern; name and value only in a dry run. -/
def headerEntry (dryrun : Bool) (lno part : Nat) (p : Pat) (k v : Bytes)
    (groups : List (Option (Nat × Nat))) : Match :=
  { ty := .header, lno := lno, part := part, subs := matchCopy p v groups, pat := some p,
    key := if dryrun then some k else none,
    val := if dryrun then some v else none }

/-- The entry for the date condition (`date` / `date header`): pattern `.*` on the date text. -/
def dateEntry (dryrun : Bool) (lno part : Nat) (date : Bytes) (groups : List (Option (Nat × Nat))) : Match :=
  { ty := .date, lno := lno, part := part, subs := matchCopy { src := [46, 42] } date groups,
    pat := some { src := [46, 42] },
    key := if dryrun then some (ofString "Date") else none,
    val := if dryrun then some date else none }

end Mdsort.Spec
