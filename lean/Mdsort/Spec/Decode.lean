import Mdsort.Bytes

/-!
# Reference decoders (specification for C16)

Written from RFC 4648 §4, RFC 2045 §6.7 and RFC 2047 and from the property
text, not from the loops of decode.c.  Arithmetic is on `Nat`; no shifts, masks
or state machines.  Nothing here imports the model or the generated tables.
-/

namespace Mdsort.Spec
open Mdsort

/-! ## Base64 (RFC 4648 §4, white space ignored) -/

/-- Value of a base64 alphabet character (Table 1 of RFC 4648). -/
def b64val (c : UInt8) : Option Nat :=
  if 65 ≤ c && c ≤ 90 then some (c.toNat - 65)            -- A-Z  0..25
  else if 97 ≤ c && c ≤ 122 then some (c.toNat - 97 + 26)  -- a-z 26..51
  else if 48 ≤ c && c ≤ 57 then some (c.toNat - 48 + 52)   -- 0-9 52..61
  else if c == 43 then some 62                             -- +
  else if c == 47 then some 63                             -- /
  else none

def byte (n : Nat) : UInt8 := UInt8.ofNat n

/-- Complete 24-bit groups, then the one- or two-byte final quantum.  The final
quantum is only valid if the bits that do not belong to a full byte are zero. -/
def b64groups : List Nat → Option Bytes
  | [] => some []
  | [_] => none
  | [a, b] => if b % 16 = 0 then some [byte (a * 4 + b / 16)] else none
  | [a, b, c] =>
    if c % 4 = 0 then some [byte (a * 4 + b / 16), byte (b % 16 * 16 + c / 4)] else none
  | a :: b :: c :: d :: rest =>
    (b64groups rest).map fun t =>
      byte (a * 4 + b / 16) :: byte (b % 16 * 16 + c / 4) :: byte (c % 4 * 64 + d) :: t

/-- Expected padding after `k` data characters (`k mod 4`). -/
def b64padOk (k : Nat) (pad : Bytes) : Bool :=
  match k % 4 with
  | 0 => pad == []
  | 2 => pad == [61, 61]
  | 3 => pad == [61]
  | _ => false

/-- Reference base64 decoder: white space is ignored anywhere; the remaining
characters are data characters followed by exactly the padding their number
requires, and nothing else. -/
def b64 (s : Bytes) : Option Bytes :=
  let t := s.filter (fun c => !isspace c)
  let data := t.takeWhile (fun c => c != 61)
  let pad := t.dropWhile (fun c => c != 61)
  match data.mapM b64val with
  | none => none
  | some vs => if b64padOk vs.length pad then b64groups vs else none

/-! ## Quoted-printable (LF convention, upper-case hex only) -/

def hexval (c : UInt8) : Option Nat :=
  if 48 ≤ c && c ≤ 57 then some (c.toNat - 48)
  else if 65 ≤ c && c ≤ 70 then some (c.toNat - 65 + 10)
  else none

/-- `=\n` is removed, `=XY` decoded, everything else copied; in header mode
(`us = true`) `_` stands for a space. -/
def qp (us : Bool) : Bytes → Bytes
  | [] => []
  | 61 :: 10 :: r => qp us r
  | 61 :: x :: y :: r =>
    match hexval x, hexval y with
    | some h, some l => byte (h * 16 + l) :: qp us r
    | _, _ => 61 :: qp us (x :: y :: r)
  | c :: r => (if us && c == 95 then 32 else c) :: qp us r

/-! ## RFC 2047 encoded words -/

inductive Enc | B | Q
deriving Repr, DecidableEq

inductive Tok where
  | lit (c : UInt8)
  | word (e : Enc) (text : Bytes)
deriving Repr, DecidableEq

/-- Split `t` at the first occurrence of `?=`. -/
def splitAtQE : Bytes → Option (Bytes × Bytes)
  | [] => none
  | [_] => none
  | 63 :: 61 :: r => some ([], r)
  | c :: r => (splitAtQE r).map fun (a, b) => (c :: a, b)

theorem splitAtQE_lt {t a b : Bytes} (h : splitAtQE t = some (a, b)) : b.length < t.length := by
  induction t using splitAtQE.induct generalizing a with
  | case1 => simp [splitAtQE] at h
  | case2 => simp [splitAtQE] at h
  | case3 r => simp [splitAtQE] at h; obtain ⟨_, rfl⟩ := h; simp; omega
  | case4 c r h1 h2 ih =>
    rw [splitAtQE] at h
    · simp only [Option.map_eq_some_iff] at h
      obtain ⟨⟨a', b'⟩, hab, heq⟩ := h
      cases heq
      have := ih hab
      simp at this ⊢; omega
    · exact h1
    · intro r' hr; exact h2 r' hr

/-- `=?charset?e?text?=` right after the leading `=?` was seen: charset is
everything up to the next `?` (no `?` inside), `e` one of `BbQq`, text up to the
first `?=`. -/
def encodedWord (s : Bytes) : Option (Enc × Bytes × Bytes) :=
  match s.dropWhile (fun c => c != 63) with
  | 63 :: e :: 63 :: t =>
    match splitAtQE t with
    | none => none
    | some (text, rest) =>
      if e == 66 || e == 98 then some (.B, text, rest)
      else if e == 81 || e == 113 then some (.Q, text, rest)
      else none
  | _ => none

theorem dropWhile_length_le {α} (p : α → Bool) (l : List α) : (l.dropWhile p).length ≤ l.length := by
  induction l with
  | nil => simp
  | cons x r ih => simp only [List.dropWhile_cons]; split <;> simp <;> omega

theorem encodedWord_lt {s : Bytes} {e t r} (h : encodedWord s = some (e, t, r)) :
    r.length < s.length := by
  unfold encodedWord at h
  split at h
  · rename_i e' t' heq
    have hl := dropWhile_length_le (fun c => c != 63) s
    rw [heq] at hl
    split at h
    · contradiction
    · rename_i text rest hs
      have := splitAtQE_lt hs
      simp at hl
      split at h
      · cases h; omega
      · split at h
        · cases h; omega
        · contradiction
  · contradiction

/-- Tokenise: every `=?` must start a well-formed encoded word, otherwise the
whole string is not decodable (`none`). -/
def tokens (s : Bytes) : Option (List Tok) :=
  match s with
  | [] => some []
  | 61 :: 63 :: r =>
    match h : encodedWord r with
    | none => none
    | some (e, text, rest) =>
      have := encodedWord_lt h
      (tokens rest).map (Tok.word e text :: ·)
  | c :: r => (tokens r).map (Tok.lit c :: ·)
termination_by s.length
decreasing_by all_goals (simp_wf; try omega)

/-- Decoded content of one token; `none` if a B word is not valid base64.
Decoded text is inserted as a C string (up to its first NUL) for B. -/
def tokBytes : Tok → Option Bytes
  | .lit c => some [c]
  | .word .B t => (b64 t).map cstr
  | .word .Q t => some (qp true t)

def isWord : Tok → Bool
  | .word .. => true
  | _ => false

def isSpaceTok : Tok → Bool
  | .lit c => isspace c
  | _ => false

/-- White space between an encoded word and a following `=?` is dropped. -/
def dropInterWordSpace : List Tok → List Tok
  | [] => []
  | t :: ts =>
    if isWord t then
      let after := ts.dropWhile isSpaceTok
      match after with
      | a :: _ => if isWord a then t :: dropInterWordSpace after else t :: dropInterWordSpace ts
      | [] => t :: dropInterWordSpace ts
    else t :: dropInterWordSpace ts
termination_by l => l.length
decreasing_by
  all_goals simp_wf
  all_goals (have := dropWhile_length_le isSpaceTok ts; omega)

/-- Reference RFC 2047 decoder: if the string tokenises and every word decodes,
the concatenation of the decoded tokens (inter-word white space dropped);
otherwise the input unchanged. -/
def rfc2047 (s : Bytes) : Bytes :=
  match tokens s with
  | none => s
  | some ts =>
    match (dropInterWordSpace ts).mapM tokBytes with
    | none => s
    | some parts => parts.flatten

end Mdsort.Spec
