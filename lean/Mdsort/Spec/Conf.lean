import Mdsort.Model.Conf
import Mdsort.Model.Main

/-!
# What an accepted configuration looks like (mdsort.conf(5)) and how it is written

`wfK rx k t`: the tree `t` is a well-formed piece of configuration of kind `k` - the shape the
grammar of the manual describes, together with the documented side conditions:

* a rule has a condition and either a non-empty nested block or a non-empty list of actions;
* `discard` and `reject` stand alone in a list of actions;
* the rules of an `attachment { }` action only `exec`;
* `exec body` needs `stdin`; an age is below 2^32 seconds; a pattern compiles (`rx`).
-/

namespace Mdsort.Spec
open Mdsort Mdsort.Model

/-- Conditions without sub-conditions. -/
def isCondLeaf : Expr → Bool
  | .all _ | .body .. | .date .. | .header .. | .new _ | .old _ | .stat .. | .command .. => true
  | _ => false

/-- Side conditions of a leaf. -/
def leafOK (rx : Pat → Bool) : Expr → Bool
  | .date _ _ _ age => decide (age < 2 ^ 32)
  | .exec _ si bo _ => !bo || si
  | .body _ p => rx p
  | .header _ _ p => rx p
  | _ => true

/-- `discard` / `reject` only alone (expr_validate). -/
def aloneOK (t : CTree) : Bool :=
  decide (t.countActions ≤ 1) || (t.countLeaf Expr.isDiscard == 0 && t.countLeaf Expr.isReject == 0)

inductive Kind | cond | rule | rules | block | act | acts
deriving DecidableEq, Repr

def wfK (rx : Pat → Bool) : Kind → CTree → Bool
  | .cond, .leaf e => isCondLeaf e && leafOK rx e
  | .cond, .and _ l r => wfK rx .cond l && wfK rx .cond r
  | .cond, .or _ l r => wfK rx .cond l && wfK rx .cond r
  | .cond, .neg _ e => wfK rx .cond e
  | .cond, .attachment _ e => wfK rx .cond e
  | .rule, .mtch _ c r =>
    wfK rx .cond c && ((wfK rx .block r && decide (r.countActions > 0)) || (wfK rx .acts r && aloneOK r))
  | .rules, .mtch _ c r =>
    wfK rx .cond c && ((wfK rx .block r && decide (r.countActions > 0)) || (wfK rx .acts r && aloneOK r))
  | .rules, .or _ l r => wfK rx .rules l && wfK rx .rule r
  | .block, .block _ b => wfK rx .rules b
  | .block, .emptyBlock _ => true
  | .act, .leaf e => e.leafAction && leafOK rx e
  | .act, .attBlock _ b => wfK rx .block b && decide (0 < b.countActions) && decide (b.countActions ≤ b.countLeaf Expr.isExec)
  | .acts, .leaf e => e.leafAction && leafOK rx e
  | .acts, .attBlock _ b => wfK rx .block b && decide (0 < b.countActions) && decide (b.countActions ≤ b.countLeaf Expr.isExec)
  | .acts, .and _ l r => wfK rx .acts l && wfK rx .act r
  | _, _ => false

/-- Every node of a tree (the tree itself first). -/
def nodes : CTree → List CTree
  | .leaf e => [.leaf e]
  | .block l b => .block l b :: nodes b
  | .emptyBlock l => [.emptyBlock l]
  | .and l a b => .and l a b :: (nodes a ++ nodes b)
  | .or l a b => .or l a b :: (nodes a ++ nodes b)
  | .neg l e => .neg l e :: nodes e
  | .mtch l c r => .mtch l c r :: (nodes c ++ nodes r)
  | .attachment l e => .attachment l e :: nodes e
  | .attBlock l b => .attBlock l b :: nodes b

def isBlock : CTree → Bool
  | .block .. | .emptyBlock _ => true
  | _ => false

/-- One `maildir` / `stdin` block of an accepted configuration. -/
def blockOK (rx : Pat → Bool) (b : PBlock) : Bool :=
  wfK rx .block b.tree && decide (b.tree.countActions > 0) &&
    (!(b.paths.any fun p => !isStdinStr p) || b.tree.countLeaf Expr.isReject == 0)

/-! ## Writing a configuration

`printBlocks` writes a list of blocks in the syntax of mdsort.conf(5): on one line, every token
preceded by one blank, every binary condition in parentheses, every list of strings in braces, ages
in seconds, patterns between slashes, `"` in strings as `\"`.  `ConfOK` is the set of configurations
it is meant for: well-formed trees (`blockOK`) whose strings and patterns can be written that way and
mean themselves (no macro reference, no `~` expansion). -/

/-- How a string is written between double quotes. -/
def quote (b : Bytes) : Bytes := b.flatMap fun c => if c == 34 then [92, 34] else [c]

def kwText : Kw → String
  | .access => "access" | .addheader => "add-header" | .all => "all" | .and => "and"
  | .attachment => "attachment" | .body => "body" | .brk => "break" | .command => "command"
  | .created => "created" | .date => "date" | .discard => "discard" | .exec => "exec" | .flag => "flag"
  | .flags => "flags" | .header => "header" | .isdirectory => "isdirectory" | .label => "label"
  | .maildir => "maildir" | .mtch => "match" | .modified => "modified" | .move => "move" | .new => "new"
  | .old => "old" | .or => "or" | .pass => "pass" | .reject => "reject" | .stdin => "stdin"

/-- The tokens of the written form. -/
inductive PTok where
  | kw (k : Kw)
  | str (b : Bytes)
  | int (n : Nat)
  | seconds
  | pat (p : Pat)
  | bang | lbrace | rbrace | lparen | rparen | lt | gt
deriving Repr, DecidableEq

def PTok.bytes : PTok → Bytes
  | .kw k => (kwText k).toUTF8.toList
  | .str b => [34] ++ quote b ++ [34]
  | .int n => (toString n).toUTF8.toList
  | .seconds => [115, 101, 99, 111, 110, 100, 115]
  | .pat p => [47] ++ p.src ++ [47] ++ (if p.icase then [105] else []) ++ (if p.lcase then [108] else []) ++
      (if p.ucase then [117] else [])
  | .bang => [33] | .lbrace => [123] | .rbrace => [125] | .lparen => [40] | .rparen => [41]
  | .lt => [60] | .gt => [62]

def render (ts : List PTok) : Bytes := ts.flatMap fun t => 32 :: t.bytes

def strsToks (l : List Bytes) : List PTok := [.lbrace] ++ l.map .str ++ [.rbrace]

def curStr : Bytes := [99, 117, 114]
def newStr : Bytes := [110, 101, 119]

def condLeafToks : Expr → List PTok
  | .all _ => [.kw .all]
  | .new _ => [.kw .new]
  | .old _ => [.kw .old]
  | .body _ p => [.kw .body, .pat p]
  | .header _ ns p => [.kw .header] ++ strsToks ns ++ [.pat p]
  | .date _ f c age =>
    [.kw .date] ++
      (match f with | .header => [] | .access => [.kw .access] | .modified => [.kw .modified] | .created => [.kw .created]) ++
      [(match c with | .lt => PTok.lt | .gt => PTok.gt), .int age, .seconds]
  | .stat _ p => [.kw .isdirectory, .str p]
  | .command _ a => [.kw .command] ++ strsToks a
  | _ => []

def actLeafToks : Expr → List PTok
  | .move _ p => [.kw .move, .str p]
  | .flag _ sub => [.kw .flag] ++ (if sub == curStr then [.bang] else []) ++ [.kw .new]
  | .flags _ f => [.kw .flags, .str f]
  | .discard _ => [.kw .discard]
  | .brk _ => [.kw .brk]
  | .pass _ => [.kw .pass]
  | .reject _ => [.kw .reject]
  | .label _ ls => [.kw .label] ++ strsToks ls
  | .exec _ si bo a =>
    [.kw .exec] ++ (if si then [.kw .stdin] else []) ++ (if bo then [.kw .body] else []) ++ strsToks a
  | .addHeader _ k v => [.kw .addheader, .str k, .str v]
  | _ => []

/-- The tokens of a well-formed tree of kind `k`. -/
def toks : Kind → CTree → List PTok
  | .cond, .leaf e => condLeafToks e
  | .cond, .and _ l r => [.lparen] ++ toks .cond l ++ [.kw .and] ++ toks .cond r ++ [.rparen]
  | .cond, .or _ l r => [.lparen] ++ toks .cond l ++ [.kw .or] ++ toks .cond r ++ [.rparen]
  | .cond, .neg _ e => .bang :: toks .cond e
  | .cond, .attachment _ e => .kw .attachment :: toks .cond e
  | .rule, .mtch _ c r => .kw .mtch :: (toks .cond c ++ (if isBlock r then toks .block r else toks .acts r))
  | .rules, .mtch _ c r => .kw .mtch :: (toks .cond c ++ (if isBlock r then toks .block r else toks .acts r))
  | .rules, .or _ l r => toks .rules l ++ toks .rule r
  | .block, .block _ b => [.lbrace] ++ toks .rules b ++ [.rbrace]
  | .block, .emptyBlock _ => [.lbrace, .rbrace]
  | .act, .leaf e => actLeafToks e
  | .act, .attBlock _ b => .kw .attachment :: toks .block b
  | .acts, .leaf e => actLeafToks e
  | .acts, .attBlock _ b => .kw .attachment :: toks .block b
  | .acts, .and _ l r => toks .acts l ++ toks .act r
  | _, _ => []

/-- A block reading from stdin is written `stdin { }`, every other one `maildir { "path" ... } { }`. -/
def blockToks (b : PBlock) : List PTok :=
  (if b.paths = [stdinStr] then [.kw .stdin] else [.kw .maildir] ++ strsToks b.paths) ++ toks .block b.tree

def printBlocks (bs : List PBlock) : Bytes := render (bs.flatMap blockToks)

/-- Strings that can be written between quotes and mean themselves: not empty, no NUL, no newline, no
`$`, no leading `~`, no trailing backslash, shorter than the lexeme buffer. -/
def strOK (b : Bytes) : Bool :=
  !b.isEmpty && b.all (fun c => c != 0 && c != 10 && c != 36) && b.head? != some 126 && b.getLast? != some 92 &&
    decide (b.length < 8191)

/-- Patterns that can be written between slashes: no NUL, newline, slash or backslash; not both `l` and `u`. -/
def patOK (p : Pat) : Bool :=
  p.src.all (fun c => c != 0 && c != 10 && c != 47 && c != 92) && decide (p.src.length < 8191) && !(p.lcase && p.ucase)

def leafPOK : Expr → Bool
  | .body _ p => patOK p
  | .header _ ns p => ns.all strOK && patOK p
  | .stat _ p => strOK p
  | .command _ a => a.all strOK
  | .move _ p => strOK p
  | .flag _ sub => sub == curStr || sub == newStr
  | .flags _ f => strOK f
  | .label _ ls => ls.all strOK
  | .exec _ _ _ a => a.all strOK
  | .addHeader _ k v => strOK k && strOK v
  | _ => true

/-- Every leaf of the tree can be written. -/
def treePOK (t : CTree) : Bool := (nodes t).all fun n => match n with | .leaf e => leafPOK e | _ => true

/-- `stdin { }` is written at most once and after no other block that reads from stdin. -/
def stdinOK : List PBlock → List PBlock → Bool
  | _, [] => true
  | seen, b :: r =>
    (!(b.paths = [stdinStr]) || !(seen.any fun x => x.paths.any isStdinStr)) && stdinOK (seen ++ [b]) r

def ConfOK (rx : Pat → Bool) (bs : List PBlock) : Bool :=
  bs.all (fun b => blockOK rx b && treePOK b.tree && b.paths.all strOK) && stdinOK [] bs

/-- All line numbers set to 1 (what is written is on one line). -/
def Expr.withLno (l : Nat) : Expr → Expr
  | .all _ => .all l
  | .body _ p => .body l p
  | .date _ f c a => .date l f c a
  | .header _ ns p => .header l ns p
  | .new _ => .new l
  | .old _ => .old l
  | .stat _ p => .stat l p
  | .command _ a => .command l a
  | .move _ p => .move l p
  | .flag _ p => .flag l p
  | .flags _ p => .flags l p
  | .discard _ => .discard l
  | .brk _ => .brk l
  | .label _ a => .label l a
  | .pass _ => .pass l
  | .reject _ => .reject l
  | .exec _ si bo a => .exec l si bo a
  | .addHeader _ k v => .addHeader l k v
  | e => e

def relabel : CTree → CTree
  | .leaf e => .leaf (Expr.withLno 1 e)
  | .block _ b => .block 1 (relabel b)
  | .emptyBlock _ => .emptyBlock 1
  | .and _ a b => .and 1 (relabel a) (relabel b)
  | .or _ a b => .or 1 (relabel a) (relabel b)
  | .neg _ e => .neg 1 (relabel e)
  | .mtch _ c r => .mtch 1 (relabel c) (relabel r)
  | .attachment _ e => .attachment 1 (relabel e)
  | .attBlock _ b => .attBlock 1 (relabel b)

def relabelBlock (b : PBlock) : PBlock := { paths := b.paths, tree := relabel b.tree }

/-- The written form of a configuration given as the evaluator's trees (`Model.ConfBlock`). -/
def printConf (c : List ConfBlock) : Bytes :=
  printBlocks (c.map fun b => { paths := b.paths, tree := CTree.ofExpr b.expr })

end Mdsort.Spec
