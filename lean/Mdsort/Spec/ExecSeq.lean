import Mdsort.Model.Plan
import Mdsort.Spec.ExecStdin

/-!
# Vocabulary for "what an exec child reads on stdin across action sequences" (C13 / C11)

`matches_exec` runs the action list of a message one entry after the other.  The statements of
`C13_exec_stdin_sees_current` and `C11_exec_stdin_body_after_rewrite` are about the moment of the
`fork` of ONE exec entry of the list: which file, in the abstract file system `World`, the
descriptor handed to the child refers to, and what that file contains.

* `Possible w c r` - result `r` can happen for call `c` in world `w`: the abstract file system
  has an effect for it (`applyOk`), and a call that creates a descriptor returns the next handle
  (handles are numbered in order of creation; the trace canonicaliser of tools/world.py numbers
  the descriptors of a real run the same way).  Every failure (`.err e`, any errno, at any call),
  every short `write`, every wait status is possible.  These are exactly the runs the call-by-call
  conformance accepts (`Model.conform` answers `impossible` when `applyOk` is `none`).
* `runW orc p w i` - the program `p` run against the results `orc i c` of an ARBITRARY oracle,
  threading the abstract file system; `PossibleRun orc p w i` - every result the oracle gave on
  the way was possible.
* `execList` - the loop of `matches_exec` over a PREFIX of the list (no end-of-list cleanup);
  `uptoFork env pre mh st` - `matches_exec` on `pre ++ mh :: post` up to, and not including, the
  `fork` of the exec entry `mh`: the actions of `pre`, then `message_get_fd` for `mh`
  (`C13_exec_stdin_fork_point`: `matches_exec` IS this program followed by a continuation whose
  first call, after `AtFork.fork st' fd`, is that fork with `fd` as the child's standard input).
* `rewrittenBefore pre msg orig` - the content produced by the rewriting actions (label,
  add-header) of `pre`: `message_write` of the in-memory message if there is one, else the
  original bytes.
-/

namespace Mdsort.Spec
open Mdsort Mdsort.Model

/-- Calls whose successful result is a new descriptor. -/
def createsHandle : Call → Bool
  | .opendir _ | .openRd .. | .openExcl .. | .openPath _ | .fopen _ | .dupfd _ | .mkostemp _ => true
  | _ => false

/-- `r` is a result call `c` can have in world `w`. -/
def Possible (w : World) (c : Call) (r : Res) : Prop :=
  (applyOk w c r).isSome = true ∧
  match r with
  | .ok v => createsHandle c = true → v = w.handles.length
  | _ => True

instance (w : World) (c : Call) (r : Res) : Decidable (Possible w c r) := by
  unfold Possible
  cases r <;> exact inferInstance

/-- Run a program against arbitrary results, threading the abstract file system
(`stepWorld`: the effect of the call, and the call appended to `World.trace`). -/
def runW {α} (orc : Nat → Call → Res) : Prog α → World → Nat → α × World
  | .ret a, w, _ => (a, w)
  | .call c k, w, i => runW orc (k (orc i c)) (stepWorld w c (orc i c)) (i + 1)

/-- Every result the oracle gives along the run is possible in the world it is given in. -/
def PossibleRun {α} (orc : Nat → Call → Res) : Prog α → World → Nat → Prop
  | .ret _, _, _ => True
  | .call c k, w, i => Possible w c (orc i c) ∧ PossibleRun orc (k (orc i c)) (stepWorld w c (orc i c)) (i + 1)

instance {α} (orc : Nat → Call → Res) : (p : Prog α) → (w : World) → (i : Nat) → Decidable (PossibleRun orc p w i)
  | .ret _, _, _ => isTrue trivial
  | .call c k, w, i =>
    have := instDecidablePossibleRun orc (k (orc i c)) (stepWorld w c (orc i c)) (i + 1)
    (inferInstance : Decidable (Possible w c (orc i c) ∧ PossibleRun orc (k (orc i c)) (stepWorld w c (orc i c)) (i + 1)))

/-- label and add-header: the actions that write the message again (`maildir_write`). -/
def isRewrite (m : Match) : Bool := m.ty == .label || m.ty == .addHeader

/-- The content produced by the rewriting actions of `pre`. -/
def rewrittenBefore (pre : MatchList) (msg : Msg) (orig : Bytes) : Bytes :=
  if pre.any isRewrite then (messageWrite msg).1 else orig

/-- The loop of `matches_exec` over a prefix of the list: stops at the first error, no cleanup. -/
def execList (env : PEnv) : MatchList → ExecSt → Prog (ExecSt × Bool)
  | [], st => .ret (st, false)
  | mh :: rest, st => (execOne env mh st).bind fun x => if x.2 = true then .ret (x.1, true) else execList env rest x.1

/-- The part an exec entry is about (`mh_msg` of an entry collected inside an attachment block). -/
def execPart (mh : Match) (ms : MsgSt) : Option Msg := if mh.part == 0 then none else ms.parts[mh.part - 1]?

/-- Where `matches_exec` stands when it has dealt with everything before the `fork` of one exec entry. -/
inductive AtFork where
  | abandoned (st : ExecSt)            -- an action before the entry failed: the list is abandoned
  | nofd (st : ExecSt)                 -- `message_get_fd` failed: the entry fails, there is no fork
  | fork (st : ExecSt) (fd : Handle)   -- the next call is the fork, `fd` is the child's standard input

/-- `matches_exec` on `pre ++ mh :: post` (`mh` an exec entry with `stdin`) up to the `fork` of `mh`:
the actions of `pre`, then `message_get_fd` for `mh`. -/
def uptoFork (env : PEnv) (pre : MatchList) (mh : Match) (st : ExecSt) : Prog AtFork :=
  (execList env pre st).bind fun x =>
    if x.2 = true then .ret (.abandoned x.1)
    else (messageGetFd env x.1.ms (execPart mh x.1.ms) mh.execBody).bind fun f =>
      .ret (match f with
        | none => .nofd x.1
        | some fd => .fork x.1 fd)

/-- What `matches_exec` does after `uptoFork`: the cleanup of an abandoned list, or `exec()` (whose first
call is the `fork`), the close of the descriptor, and the rest of the list. -/
def afterFork (env : PEnv) (argv : List Bytes) (post : MatchList) : AtFork → Prog (ExecSt × Bool)
  | .abandoned st' => (if st'.chsrc = true then maildirClose st'.src else .ret ()).bind fun _ => .ret (st', true)
  | .nofd st' => (if st'.chsrc = true then maildirClose st'.src else .ret ()).bind fun _ => .ret (st', true)
  | .fork st' fd =>
    (execP argv (some fd)).bind fun rc =>
      .call (.close fd) fun _ =>
        if (rc != 0) = true then (if st'.chsrc = true then maildirClose st'.src else .ret ()).bind fun _ => .ret (st', true)
        else matchesExec env post st'

/-- The message is open: its descriptor is a read-only handle on a file of the abstract file system
whose content is `c` (file ids in use are below the next free one), and the directory stream of
the maildir being processed is another, existing handle. -/
def MsgOpen (w : World) (st : ExecSt) (c : Bytes) : Prop :=
  ∃ h fid off f, st.ms.fd = some h ∧ w.obj h = .file fid off false ∧ fid < w.nextFid ∧ w.file fid = some f ∧ f.data = c ∧
    ∀ d, st.src.dirH = some d → d ≠ h ∧ d < w.handles.length

/-- The last call issued was a successful `lseek fd` (`Call.lseek` IS `lseek(fd, 0, SEEK_SET)`:
tools/world.py refuses any other offset or whence). -/
def Rewound (w : World) (fd : Handle) : Prop :=
  ∃ r, w.trace.getLast? = some (.lseek fd, r) ∧ r.isErr = false

/-- `exec stdin`: descriptor `fd` is a read-only handle on a file whose data is `c`, rewound. -/
def RewoundOn (w : World) (fd : Handle) (c : Bytes) : Prop :=
  (∃ fid off f, w.obj fd = .file fid off false ∧ w.file fid = some f ∧ f.data = c) ∧ Rewound w fd

/-- `exec stdin body`: descriptor `fd` is a handle on a temporary file of its own - not the file the
message's descriptor refers to - whose data is `body` (as a C string), rewound. -/
def BodyOn (w : World) (st : ExecSt) (fd : Handle) (body : Bytes) : Prop :=
  (∃ fid off f, w.obj fd = .file fid off true ∧ w.file fid = some f ∧ f.data = cstr body ∧
    ∀ h fid' off' wr, st.ms.fd = some h → w.obj h = .file fid' off' wr → fid' ≠ fid) ∧ Rewound w fd

end Mdsort.Spec
