import Mdsort.Model.Plan
import Mdsort.Spec.ExecStdin

/-!
# Vocabulary for "what an exec child reads on stdin across action sequences" (C13 / C11)

`matches_exec` runs the action list of a message one entry after the other.  The statements of
`C13_exec_stdin_sees_current` and `C11_exec_stdin_body_after_rewrite` are about the moment of the
`fork` of ONE exec entry of the list: which file, in the abstract file system `World`, the
descriptor handed to the child refers to, and what that file contains.

* `Possible w c r` - result `r` can happen for call `c` in world `w`: the abstract file system
  has an effect for it (`applyOk`), and a call that creates a descriptor returns the next handle
  (handles are numbered in order of creation; the trace canonicaliser of tools/world.py numbers
  the descriptors of a real run the same way).  Every failure (`.err e`, any errno, at any call),
  every short `write`, every wait status is possible.  These are exactly the runs the call-by-call
  conformance accepts (`Model.conform` answers `impossible` when `applyOk` is `none`).
* `runW orc p w i` - the program `p` run against the results `orc i c` of an ARBITRARY oracle,
  threading the abstract file system; `PossibleRun orc p w i` - every result the oracle gave on
  the way was possible.
* `execList` - the loop of `matches_exec` over a PREFIX of the list (no end-of-list cleanup);
  `uptoFork env pre mh st` - `matches_exec` on `pre ++ mh :: post` up to, and not including, the
  `fork` of the exec entry `mh`: the actions of `pre`, then `message_get_fd` for `mh`
  (`Proofs.ExecSeq.matchesExec_factor`: the next call after it is that fork, with the returned
  descriptor as the child's standard input).
* `rewrittenBefore pre msg orig` - the content produced by the rewriting actions (label,
  add-header) of `pre`: `message_write` of the in-memory message if there is one, else the
  original bytes.
-/

namespace Mdsort.Spec
open Mdsort Mdsort.Model

/-- Calls whose successful result is a new descriptor. -/
def createsHandle : Call → Bool
  | .opendir _ | .openRd .. | .openExcl .. | .openPath _ | .fopen _ | .dupfd _ | .mkostemp _ => true
  | _ => false

/-- `r` is a result call `c` can have in world `w`. -/
def Possible (w : World) (c : Call) (r : Res) : Prop :=
  (applyOk w c r).isSome = true ∧ (createsHandle c = true → ∀ v, r = .ok v → v = w.handles.length)

/-- Run a program against arbitrary results, threading the abstract file system
(`stepWorld`: the effect of the call, and the call appended to `World.trace`). -/
def runW {α} (orc : Nat → Call → Res) : Prog α → World → Nat → α × World
  | .ret a, w, _ => (a, w)
  | .call c k, w, i => runW orc (k (orc i c)) (stepWorld w c (orc i c)) (i + 1)

/-- Every result the oracle gives along the run is possible in the world it is given in. -/
def PossibleRun {α} (orc : Nat → Call → Res) : Prog α → World → Nat → Prop
  | .ret _, _, _ => True
  | .call c k, w, i => Possible w c (orc i c) ∧ PossibleRun orc (k (orc i c)) (stepWorld w c (orc i c)) (i + 1)

/-- label and add-header: the actions that write the message again (`maildir_write`). -/
def isRewrite (m : Match) : Bool := m.ty == .label || m.ty == .addHeader

/-- The content produced by the rewriting actions of `pre`. -/
def rewrittenBefore (pre : MatchList) (msg : Msg) (orig : Bytes) : Bytes :=
  if pre.any isRewrite then (messageWrite msg).1 else orig

/-- The loop of `matches_exec` over a prefix of the list: stops at the first error, no cleanup. -/
def execList (env : PEnv) : MatchList → ExecSt → Prog (ExecSt × Bool)
  | [], st => .ret (st, false)
  | mh :: rest, st => (execOne env mh st).bind fun x => if x.2 = true then .ret (x.1, true) else execList env rest x.1

/-- The part an exec entry is about (`mh_msg` of an entry collected inside an attachment block). -/
def execPart (mh : Match) (ms : MsgSt) : Option Msg := if mh.part == 0 then none else ms.parts[mh.part - 1]?

/-- `matches_exec` on `pre ++ mh :: post` (`mh` an exec entry with `stdin`) up to the `fork` of `mh`:
`none` - an action of `pre` failed (the list is abandoned); `some (st', none)` - `message_get_fd`
failed (the entry fails, no fork); `some (st', some fd)` - the next call is the fork and `fd` is
the child's standard input. -/
def uptoFork (env : PEnv) (pre : MatchList) (mh : Match) (st : ExecSt) : Prog (Option (ExecSt × Option Handle)) :=
  (execList env pre st).bind fun x =>
    if x.2 = true then .ret none
    else (messageGetFd env x.1.ms (execPart mh x.1.ms) mh.execBody).bind fun f => .ret (some (x.1, f))

/-- The message is open: its descriptor is a read-only handle on a file of the abstract file system
whose content is `c` (file ids in use are below the next free one), and the directory stream of
the maildir being processed is another, existing handle. -/
def MsgOpen (w : World) (st : ExecSt) (c : Bytes) : Prop :=
  ∃ h fid off f, st.ms.fd = some h ∧ w.obj h = .file fid off false ∧ fid < w.nextFid ∧ w.file fid = some f ∧ f.data = c ∧
    ∀ d, st.src.dirH = some d → d ≠ h ∧ d < w.handles.length

/-- What the statements say about the descriptor `fd` in the world `w` at the fork: it refers to a
file whose data is `c`, and the last call issued was a successful `lseek fd`
(`Call.lseek` IS `lseek(fd, 0, SEEK_SET)`: tools/world.py refuses any other offset or whence). -/
def RewoundOn (w : World) (fd : Handle) (c : Bytes) (writable : Bool) : Prop :=
  (∃ fid off f, w.obj fd = .file fid off writable ∧ w.file fid = some f ∧ f.data = c) ∧
  ∃ r, w.trace.getLast? = some (.lseek fd, r) ∧ r.isErr = false

end Mdsort.Spec
