import Mdsort.Model.Eval

/-!
# How `attachment c` and `attachment { ... }` quantify over the parts (specification for C11)

mdsort.conf(5): `attachment c` holds if `c` holds for *some* attachment; an attachment block
runs its rules *for each* attachment.  Conditions are three-valued and evaluation has effects
(the match list and the pending maildir flags are threaded through), so the reading is stated
on the *trace* of a for-each run: the list of results obtained by evaluating the
sub-expression on every part in order, each evaluation starting in the state the previous one
left.  The condition and the block are then ordinary list notions on that trace (`find?`,
`any`).  The evaluation of the sub-expression on one part is a parameter `f index part state`;
only the result type `Tri` is shared with the model.
-/

namespace Mdsort.Spec
open Mdsort Mdsort.Model

/-- The index the sub-evaluation is given for the `i`-th part (0-based position in the table
`message_get_attachments` returns): parts of the message itself (`part = 0`) are numbered
`i + 1`; inside a part (`part > 0`) the index stays that of the enclosing part. -/
def partIndex (part i : Nat) : Nat := if part = 0 then i + 1 else part

/-- For-each run: the result of the sub-evaluation on every part in order, the state threaded. -/
def partTrace {σ α : Type} (f : Nat → α → σ → Tri × σ) : Nat → List α → σ → List (Tri × σ)
  | _, [], _ => []
  | i, p :: ps, s => f i p s :: partTrace f (i + 1) ps (f i p s).2

/-- The state after the whole trace (the initial state if there is no part). -/
def lastState {σ : Type} (t : List (Tri × σ)) (s : σ) : σ :=
  match t.getLast? with
  | some r => r.2
  | none => s

/-- `attachment c`: the first part whose result is decided (match or error) decides, with the
state it left; if no part is decided the condition does not hold and every part was looked at. -/
def attachmentCond {σ α : Type} (f : Nat → α → σ → Tri × σ) (parts : List α) (s : σ) : Tri × σ :=
  let t := partTrace f 0 parts s
  match t.find? (fun r => r.1 != .nomatch) with
  | some r => r
  | none => (.nomatch, lastState t s)

/-- `attachment { ... }`: the first part on which the block fails makes the whole an error (with
the state it left); otherwise the block ran on every part and the result is a match iff it
matched on at least one of them. -/
def attachmentBlock {σ α : Type} (f : Nat → α → σ → Tri × σ) (parts : List α) (s : σ) : Tri × σ :=
  let t := partTrace f 0 parts s
  match t.find? (fun r => r.1 == .error) with
  | some r => r
  | none => (if t.any (fun r => r.1 == .match) then .match else .nomatch, lastState t s)

end Mdsort.Spec
