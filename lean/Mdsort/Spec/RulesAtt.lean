import Mdsort.Spec.Rules
import Mdsort.Spec.Attachment

/-!
# Documented rule semantics with attachment conditions and attachment blocks (C03)

Extension of `Spec/Rules.lean`.  mdsort.conf(5):

* `attachment condition` - "Evaluates to true if any attachment in the message matches condition":
  the parts are tried in order, the first part on which the condition is decided (true or an
  evaluation error) decides; a malformed multipart message is an error.
* `attachment { rule ... }` - "Evaluate the nested block of rules on each attachment in message.
  The only available action in rule is exec": an action of the enclosing rule.  The block is
  evaluated on EVERY part (each part is a message of its own for the conditions inside); the
  actions it collects on the parts on which it matched are added, in part order and tagged with the
  part, to the actions of the enclosing rule; the enclosing rule matches iff the block matched on
  at least one part (an error on a part is an error).  A rule that does not match contributes no
  action.

The messages are an abstract type `α`; the context gives the parts of a message
(`message_get_attachments`: `none` = malformed) and the truth value of every matcher on every
(part index, message).  The part index follows `Spec.partIndex`: the parts of the message itself
are numbered `i + 1`, inside a part the index stays that of the part.  Nothing here refers to
`Model.eval`; only the AST type and `Tri` are shared with the model.
-/

namespace Mdsort.Spec
open Mdsort Mdsort.Model

mutual
/-- One action of a rule: a plain action, or an attachment block with its rules. -/
inductive ActA where
  | plain (a : Expr)
  | att (lno : Nat) (rules : List RuleA)
/-- `Spec.Rule` with attachment blocks among the actions. -/
inductive RuleA where
  | acts (lno : Nat) (cond : Expr) (acts : List ActA) (ctl : Ctl)
  | blk (lno : Nat) (cond : Expr) (rules : List RuleA)
end

/-! ## the shape the grammar builds -/

mutual
/-- One `expraction`: `attachment { ... }` or a plain action. -/
def parseActA : Expr → Option ActA
  | .attBlock l (.block _ e) => (parseRulesA e).map fun rs => ActA.att l rs
  | a => if isActionExpr a then some (ActA.plain a) else Option.none

/-- The left-nested AND chain of `expractions` (without pass/break). -/
def parseChainA : Expr → Option (List ActA)
  | .and _ l r =>
    match parseChainA l, parseActA r with
    | some ls, some x => some (ls ++ [x])
    | _, _ => Option.none
  | e => (parseActA e).map fun x => [x]

/-- One `match cond rhs`; `pass` / `break` must be the last action. -/
def parseRuleA : Expr → Option RuleA
  | .mtch lno c rhs =>
    if !isCond c then Option.none
    else
      match rhs with
      | .block _ e => (parseRulesA e).map fun rs => RuleA.blk lno c rs
      | .and _ l r =>
        match isCtlExpr r with
        | some ctl => (parseChainA l).map fun as => RuleA.acts lno c as ctl
        | Option.none =>
          match parseChainA l, parseActA r with
          | some ls, some x => some (RuleA.acts lno c (ls ++ [x]) .none)
          | _, _ => Option.none
      | e =>
        match isCtlExpr e with
        | some ctl => some (RuleA.acts lno c [] ctl)
        | Option.none => (parseActA e).map fun x => RuleA.acts lno c [x] .none
  | _ => Option.none

/-- The left-nested OR chain of rules of a block. -/
def parseRulesA : Expr → Option (List RuleA)
  | .or _ l r =>
    match parseRulesA l, parseRuleA r with
    | some ls, some x => some (ls ++ [x])
    | _, _ => Option.none
  | e => (parseRuleA e).map fun x => [x]
end

def parseBlockA : Expr → Option (List RuleA)
  | .block _ e => parseRulesA e
  | _ => Option.none

/-! ### `pass` / `break` anywhere in the action list

The reading of `Spec/Rules.lean` ("`pass` / `break` anywhere in the action list"): the actions of
a rule are all the listed actions and attachment blocks that are not `pass` / `break`, in the order
listed; its control is `pass` / `break` iff that word occurs in the list; a list with both has no
documented meaning (`none`).  Inside an attachment block the parser admits neither
(`expr_validate_attachment_block`). -/

mutual
/-- One `expraction` other than `pass` / `break`. -/
def parseActAW : Expr → Option ActA
  | .attBlock l (.block _ e) => (parseRulesAW e).map fun rs => ActA.att l rs
  | a => if isActionExpr a then some (ActA.plain a) else Option.none

/-- The left-nested AND chain of `expractions`: its actions in order, `pass` / `break` skipped. -/
def parseChainAW : Expr → Option (List ActA)
  | .and _ l r =>
    match parseChainAW l with
    | Option.none => Option.none
    | some ls =>
      if (isCtlExpr r).isSome then some ls
      else match parseActAW r with
        | some x => some (ls ++ [x])
        | Option.none => Option.none
  | e => if (isCtlExpr e).isSome then some [] else (parseActAW e).map fun x => [x]

/-- One `match cond rhs`, `pass` / `break` anywhere among the actions. -/
def parseRuleAW : Expr → Option RuleA
  | .mtch lno c rhs =>
    if !isCond c then Option.none
    else
      match rhs with
      | .block _ e => (parseRulesAW e).map fun rs => RuleA.blk lno c rs
      | e =>
        match ctlOfList (andChain e), parseChainAW e with
        | some ctl, some as => some (RuleA.acts lno c as ctl)
        | _, _ => Option.none
  | _ => Option.none

def parseRulesAW : Expr → Option (List RuleA)
  | .or _ l r =>
    match parseRulesAW l, parseRuleAW r with
    | some ls, some x => some (ls ++ [x])
    | _, _ => Option.none
  | e => (parseRuleAW e).map fun x => [x]
end

def parseBlockAW : Expr → Option (List RuleA)
  | .block _ e => parseRulesAW e
  | _ => Option.none

/-! ## conditions over the parts -/

/-- What the specification is told about the message: the parts of every message (`none`: a
malformed multipart) and the value of every matcher on a message regarded as part `k`. -/
structure PartCtx (α : Type) where
  parts : α → Option (List α)
  v : Nat → α → Expr → Tri

/-- `∃ part`, three-valued and in order: the first part that is not *no match* decides. -/
def anyPart {α : Type} (f : Nat → α → Tri) : Nat → List α → Tri
  | _, [] => .nomatch
  | i, q :: qs =>
    match f i q with
    | .nomatch => anyPart f (i + 1) qs
    | t => t

/-- Three-valued condition with left-to-right short-circuit, on message `m` regarded as part `k`;
`attachment c` quantifies over the parts of `m`. -/
def condValA {α : Type} (cx : PartCtx α) : Expr → Nat → α → Tri
  | .and _ l r, k, m => match condValA cx l k m with
    | .match => condValA cx r k m
    | x => x
  | .or _ l r, k, m => match condValA cx l k m with
    | .nomatch => condValA cx r k m
    | x => x
  | .neg _ e, k, m => match condValA cx e k m with
    | .error => .error
    | .match => .nomatch
    | .nomatch => .match
  | .attachment _ c, k, m =>
    match cx.parts m with
    | Option.none => .error
    | some ps => anyPart (fun i q => condValA cx c (partIndex k i) q) 0 ps
  | e, k, m => cx.v k m e

/-! ## rules -/

/-- State of the specification run: pending actions, each with the index of the part it was
collected on, and the two classes of evaluations on which the evaluator is known to depart from
the documented reading:

* `crosses` - the pinned finding F11 (`passCrossesBlock`), extended to attachment blocks: the block
  of an attachment block is evaluated on a part while a `pass` (of the enclosing block or of one
  further out) is pending;
* `leaks` - a rule stopped at an attachment block that matched on no part after the same rule had
  already collected actions (those stay in the evaluator's list although the rule did not match). -/
structure RunA where
  pend : List (Nat × Expr)
  crosses : Bool
  leaks : Bool
deriving Repr

/-- For each part in order: `some any` = the block matched on at least one part, `none` = error. -/
def forParts {α : Type} (f : Nat → α → RunA → BRes × RunA) : Nat → List α → Bool → RunA → Option Bool × RunA
  | _, [], any, run => (some any, run)
  | i, q :: qs, any, run =>
    match f i q run with
    | (.err, run1) => (Option.none, run1)
    | (.matched, run1) => forParts f (i + 1) qs true run1
    | (_, run1) => forParts f (i + 1) qs any run1

mutual
/-- The rules of a block on message `m` regarded as part `k`. -/
def evalRulesA {α : Type} (cx : PartCtx α) (aerr : Expr → Bool) (nested outerPass : Bool) (start : Nat)
    (k : Nat) (m : α) : List RuleA → Bool → RunA → BRes × RunA
  | [], passSeen, run =>
    let own := run.pend.length - start
    let crosses := run.crosses ||
      (nested && (outerPass || (passSeen && own == 0 && start > 0)))
    (if passSeen && own > 0 then .matched else .nomatch, { run with crosses := crosses })
  | r :: rest, passSeen, run =>
    match r with
    | .acts _ c as ctl =>
      match condValA cx c k m with
      | .error => (.err, run)
      | .nomatch => evalRulesA cx aerr nested outerPass start k m rest passSeen run
      | .match =>
        match evalActsA cx aerr (outerPass || passSeen) k m as run with
        | (Option.none, run1) => (.err, run1)
        | (some false, run1) =>
          -- an attachment block of the rule matched on no part: the rule does not match
          evalRulesA cx aerr nested outerPass start k m rest passSeen
            { run1 with pend := run.pend, leaks := run1.leaks || decide (run1.pend.length > run.pend.length) }
        | (some true, run1) =>
          match ctl with
          | .pass => evalRulesA cx aerr nested outerPass start k m rest true run1
          | .brk => (.broke, { run1 with crosses := run1.crosses || (nested && passSeen) })
          | .none => (.matched, run1)
    | .blk _ c rs =>
      match condValA cx c k m with
      | .error => (.err, run)
      | .nomatch => evalRulesA cx aerr nested outerPass start k m rest passSeen run
      | .match =>
        match evalRulesA cx aerr true (outerPass || passSeen) run.pend.length k m rs false run with
        | (.err, run1) => (.err, run1)
        | (.matched, run1) => (.matched, run1)
        | (_, run1) => evalRulesA cx aerr nested outerPass start k m rest passSeen run1

/-- The actions of a rule in order: `some true` = all evaluated, `some false` = an attachment
block matched on no part (the actions after it are not looked at), `none` = error (an action that
cannot be evaluated, a malformed multipart, an error inside an attachment block). -/
def evalActsA {α : Type} (cx : PartCtx α) (aerr : Expr → Bool) (hasPass : Bool) (k : Nat) (m : α) :
    List ActA → RunA → Option Bool × RunA
  | [], run => (some true, run)
  | a :: rest, run =>
    match a with
    | .plain x =>
      if aerr x then (Option.none, run)
      else evalActsA cx aerr hasPass k m rest { run with pend := run.pend ++ [(k, x)] }
    | .att _ rs =>
      match cx.parts m with
      | Option.none => (Option.none, run)
      | some ps =>
        match forParts (fun i q r => evalRulesA cx aerr true hasPass r.pend.length (partIndex k i) q rs false r)
            0 ps false { run with crosses := run.crosses || (hasPass && !ps.isEmpty) } with
        | (some true, run1) => evalActsA cx aerr hasPass k m rest run1
        | other => other
end

/-- Result of the root block. -/
structure OutcomeA where
  res : Tri
  actions : List (Nat × Expr)
  crosses : Bool
  leaks : Bool
deriving Repr

def evalBlockA {α : Type} (cx : PartCtx α) (aerr : Expr → Bool) (root : α) (rules : List RuleA) : OutcomeA :=
  match evalRulesA cx aerr false false 0 0 root rules false { pend := [], crosses := false, leaks := false } with
  | (.err, run) => { res := .error, actions := [], crosses := run.crosses, leaks := run.leaks }
  | (.matched, run) => { res := .match, actions := run.pend, crosses := run.crosses, leaks := run.leaks }
  | (_, run) => { res := .nomatch, actions := [], crosses := run.crosses, leaks := run.leaks }

/-- (type, line, part) of a collected action. -/
def actKeyP (a : Nat × Expr) : Option (MType × Nat × Nat) :=
  (actKey a.2).map fun k => (k.1, k.2, a.1)

def isMoveFlagP (k : MType × Nat × Nat) : Bool := k.1 == .move || k.1 == .flag

/-- `planOf` with the part index: the actions other than move/flag in order, and the last
move-or-flag. -/
def planP (keys : List (MType × Nat × Nat)) : List (MType × Nat × Nat) × Option (MType × Nat × Nat) :=
  (keys.filter (fun k => !isMoveFlagP k), (keys.filter isMoveFlagP).getLast?)

end Mdsort.Spec
