import Mdsort.Spec.Decode

/-!
# RFC readings of the quoted-printable and encoded-word decoders (second specification for C16)

`Spec/Decode.lean` holds the reference decoders the model is proved EQUAL to (`C16_qp`, `C16_rfc2047`); an audit
found that two of them follow the code where the code is narrower / more lenient than the RFCs.  This file writes the
RFC readings down separately, from RFC 2045 section 6.7 and RFC 2047 sections 2, 4, 5, 6 and from the property text
of C16 / C10 - not from decode.c.  It imports neither the model nor the generated tables (only `Spec.b64`, `hexval`,
`byte`, `Enc` of `Spec/Decode.lean` and the byte vocabulary).  How the model relates to these definitions is stated in
`Props/C16.lean` (`C16_qp_vs_rfc`, `C16_rfc2047_vs_rfc` and the evaluated deviations).
-/

namespace Mdsort.Spec
open Mdsort

/-! ## Quoted-printable, RFC 2045 section 6.7 -/

/-- The text `r` that follows a `=`: a SOFT LINE BREAK (rule 5) is `=` followed by the line end; rule 3 allows
transport padding - blanks (SPACE, TAB) added by a transport agent - between the `=` and the line end.  The line end
is CRLF (the canonical form of RFC 2045) or a bare LF (the local convention mdsort works with).  Returns the text
after the line end. -/
def softBreak (r : Bytes) : Option Bytes :=
  match r.dropWhile isblank with
  | 10 :: t => some t
  | 13 :: 10 :: t => some t
  | _ => none

theorem softBreak_le {r t : Bytes} (h : softBreak r = some t) : t.length < r.length := by
  unfold softBreak at h
  have hl := dropWhile_length_le isblank r
  split at h
  · rename_i t' heq; cases h; rw [heq] at hl; simp at hl; omega
  · rename_i t' heq; cases h; rw [heq] at hl; simp at hl; omega
  · contradiction

/-- `=XY` (rule 1): two UPPER-case hexadecimal digits at the head of `r` (the text after a `=`) are the byte
`16*X+Y`; returns it and the text after the digits. -/
def hexPair : Bytes → Option (UInt8 × Bytes)
  | x :: y :: r' =>
    match hexval x, hexval y with
    | some hi, some lo => some (byte (hi * 16 + lo), r')
    | _, _ => none
  | _ => none

theorem hexPair_lt {r r' : Bytes} {b : UInt8} (h : hexPair r = some (b, r')) : r'.length < r.length := by
  unfold hexPair at h
  split at h
  · split at h
    · cases h; simp; omega
    · contradiction
  · contradiction

/-- RFC 2045 quoted-printable decoding as the PROPERTY words it ("removes soft line breaks, decodes =XX (upper-case
hex) and copies everything else"), with the soft line break of the RFC: `=` blanks* (LF | CRLF) is removed; `=XY` with
two UPPER-case hexadecimal digits (rule 1: "uppercase letters must be used") is the byte `16*X+Y`; every other byte is
literal (a `=` that starts neither of the two included).  In header mode (`us = true`, the Q encoding of RFC 2047
section 4.2) `_` stands for a space.

Not included, on purpose: RFC 2045 rule 3 also lets a decoder delete trailing blanks of a line that does NOT end in
`=`; the property says "copies everything else", so they are copied here. -/
def qpRFC (us : Bool) (s : Bytes) : Bytes :=
  match s with
  | [] => []
  | 61 :: r =>
    match h : softBreak r with
    | some t =>
      have := softBreak_le h
      qpRFC us t
    | none =>
      match h2 : hexPair r with
      | some (b, r') =>
        have := hexPair_lt h2
        b :: qpRFC us r'
      | none => 61 :: qpRFC us r
  | c :: r => (if us && c == 95 then 32 else c) :: qpRFC us r
termination_by s.length
decreasing_by all_goals (simp_wf; try omega)

/-- On which inputs the LF-only reading `Spec.qp` (= the model, `C16_qp`) and `qpRFC` agree: every `=` of `s` is
followed either by no soft line break at all or by the bare `=LF` form.  (Every `=` of the input is visited by both
decoders, since `=` is neither a hexadecimal digit nor a blank; `C16_qp_vs_rfc_iff` shows this is exact.) -/
def QpLFOnly : Bytes → Bool
  | [] => true
  | 61 :: r => ((softBreak r).isNone || r.head? == some 10) && QpLFOnly r
  | _ :: r => QpLFOnly r

/-- A simpler sufficient condition: no CR anywhere and no `=` directly followed by a blank. -/
def QpNoCRNoPad : Bytes → Bool
  | [] => true
  | 61 :: c :: r => !isblank c && QpNoCRNoPad (c :: r)
  | c :: r => c != 13 && QpNoCRNoPad r

/-! ## Encoded words, RFC 2047 -/

/-- Linear white space (RFC 822 section 3.3: `1*([CRLF] LWSP-char)`, LWSP-char = SPACE / HTAB) as a set of bytes:
SPACE, HTAB and the CR, LF of a folded line.  (Simplification: a CR or LF is counted as white space also when no blank
follows; mdsort unfolds a header value before decoding it.)  VT and FF are NOT linear white space. -/
def isLWS (c : UInt8) : Bool := c == 32 || c == 9 || c == 13 || c == 10

/-- `especials` of RFC 2047 section 2. -/
def especials : Bytes := ofString "()<>@,;:\\\"/[]?.="

/-- `token = 1*<Any CHAR except SPACE, CTLs, and especials>` (RFC 2047 section 2), taken literally:
US-ASCII 33..126 without the especials. -/
def isTokenChar (c : UInt8) : Bool := 33 ≤ c && c ≤ 126 && !especials.contains c

/-- `encoded-text = 1*<Any printable ASCII character other than "?" or SPACE>`. -/
def isEncTextChar (c : UInt8) : Bool := 33 ≤ c && c ≤ 126 && c != 63

/-- `encoding`: "B" or "Q", "case-independent" (sections 2 and 4). -/
def encodingOf : Bytes → Option Enc
  | [c] => if c == 66 || c == 98 then some .B else if c == 81 || c == 113 then some .Q else none
  | _ => none

/-- The octets an encoded-text stands for: B is base64 of RFC 4648 (section 4.1), Q is quoted-printable with `_`
for SPACE (section 4.2).  `none`: not valid base64. -/
def payload : Enc → Bytes → Option Bytes
  | .B, t => b64 t
  | .Q, t => some (qpRFC true t)

structure Word where
  charset : Bytes
  enc : Enc
  text : Bytes
  decoded : Bytes
deriving Repr, DecidableEq

/-- An encoded word must END at linear white space or at the end of the value (section 5 (1): "MUST be separated
from any adjacent encoded-word or text by linear-white-space"; section 6.1). -/
def delimited : Bytes → Bool
  | [] => true
  | c :: _ => isLWS c

/-- `encoded-word = "=?" charset "?" encoding "?" encoded-text "?="` at the head of `s`, with charset and encoding
non-empty tokens, a non-empty encoded-text, encoding B or Q in either case, a payload that decodes, and linear white
space or the end of the value behind it.  Returns the word and what follows it.  (`takeWhile` is the grammar here:
neither a token nor an encoded-text can contain `?`.)  The 75-character limit of section 2 is a rule for composers
and is not enforced; the charset is recorded but the octets are not converted (mdsort matches bytes). -/
def wordAt (s : Bytes) : Option (Word × Bytes) :=
  match s with
  | 61 :: 63 :: r1 =>
    match r1.dropWhile isTokenChar with
    | 63 :: r2 =>
      match r2.dropWhile isTokenChar with
      | 63 :: r3 =>
        match r3.dropWhile isEncTextChar with
        | 63 :: 61 :: rest =>
          let cs := r1.takeWhile isTokenChar
          let tx := r3.takeWhile isEncTextChar
          if cs ≠ [] ∧ tx ≠ [] ∧ delimited rest then
            (encodingOf (r2.takeWhile isTokenChar)).bind fun e =>
              (payload e tx).map fun d => (⟨cs, e, tx, d⟩, rest)
          else none
        | _ => none
      | _ => none
    | _ => none
  | _ => none

theorem wordAt_lt {s rest : Bytes} {w : Word} (h : wordAt s = some (w, rest)) : rest.length < s.length := by
  unfold wordAt at h
  split at h
  · rename_i r1
    split at h
    · rename_i r2 h1
      split at h
      · rename_i r3 h2
        split at h
        · rename_i rest' h3
          have l1 := dropWhile_length_le isTokenChar r1
          have l2 := dropWhile_length_le isTokenChar r2
          have l3 := dropWhile_length_le isEncTextChar r3
          rw [h1] at l1; rw [h2] at l2; rw [h3] at l3
          simp at l1 l2 l3
          dsimp only at h
          split at h
          · cases he : encodingOf (List.takeWhile isTokenChar r2) with
            | none => simp [he] at h
            | some e =>
              simp only [he, Option.bind_some, Option.map_eq_some_iff] at h
              obtain ⟨d, _, hd⟩ := h
              cases hd
              simp; omega
          · contradiction
        · contradiction
      · contradiction
    · contradiction
  · contradiction

inductive Item where
  | text (c : UInt8)
  | word (w : Word)
deriving Repr, DecidableEq

/-- Scan a header value.  An encoded word is recognised where it BEGINS at the beginning of the value or right after
linear white space (`atStart`) and is well formed and delimited (`wordAt`); every other byte is text.

`strict = true` is the PROPERTY reading of a malformed word (C10: "a value containing a malformed encoded word is
matched in its raw form"; C16: "malformed sequences are passed through unchanged"): a `=?` that does not begin a
recognised encoded word makes the whole value undecodable (`none`).  `strict = false` is the reading of RFC 2047
itself (section 6.3: a word that cannot be decoded is left as it is, word by word): the `=?` is ordinary text. -/
def scanWords (strict : Bool) (atStart : Bool) (s : Bytes) : Option (List Item) :=
  match s with
  | [] => some []
  | c :: r =>
    match h : (if atStart then wordAt (c :: r) else none) with
    | some (w, rest) =>
      have : rest.length < (c :: r).length := by
        split at h
        · exact wordAt_lt h
        · contradiction
      (scanWords strict false rest).map (Item.word w :: ·)
    | none =>
      if strict && c == 61 && r.head? == some 63 then none
      else (scanWords strict (isLWS c) r).map (Item.text c :: ·)
termination_by s.length
decreasing_by all_goals (simp_wf; try (simp at this); try omega)

def isLWSItem : Item → Bool
  | .text c => isLWS c
  | _ => false

def isWordItem : Item → Bool
  | .word _ => true
  | _ => false

/-- Section 6.2: "any linear-white-space that separates a pair of adjacent encoded-words is ignored". -/
def joinWords : List Item → List Item
  | [] => []
  | t :: ts =>
    if isWordItem t then
      let after := ts.dropWhile isLWSItem
      match after with
      | a :: _ => if isWordItem a then t :: joinWords after else t :: joinWords ts
      | [] => t :: joinWords ts
    else t :: joinWords ts
termination_by l => l.length
decreasing_by
  all_goals simp_wf
  all_goals (have := dropWhile_length_le isLWSItem ts; omega)

def Item.bytes : Item → Bytes
  | .text c => [c]
  | .word w => w.decoded

/-- Encoded-word decoding, PROPERTY reading: every well-formed, delimited encoded word is replaced by its octets,
linear white space between two adjacent encoded words is dropped, all other text is kept; if the value contains a
`=?` that does not begin such a word, the whole value is returned as it is. -/
def rfc2047RFC (s : Bytes) : Bytes :=
  match scanWords true true s with
  | none => s
  | some items => (joinWords items).flatMap Item.bytes

/-- Encoded-word decoding, RFC 2047 reading word by word: as `rfc2047RFC`, but a malformed or undecodable word is
left as it is and the well-formed words around it are still decoded. -/
def rfc2047PerWord (s : Bytes) : Bytes :=
  match scanWords false true s with
  | none => s
  | some items => (joinWords items).flatMap Item.bytes

/-! ### The inputs on which `rfc2047_decode` is the RFC decoder -/

/-- No B word decodes to octets containing NUL (`rfc2047_decode` appends a decoded B word with `"%s"`). -/
def nulFree : List Item → Bool
  | [] => true
  | .word w :: ts => (w.enc != .B || w.decoded.all (· != 0)) && nulFree ts
  | _ :: ts => nulFree ts

def isSpaceItem : Item → Bool
  | .text c => isspace c
  | _ => false

/-- The `isspace` run between two encoded words (SP, HT, LF, VT, FF, CR) is linear white space, i.e. holds no VT/FF. -/
def joinOK : List Item → Bool
  | [] => true
  | t :: ts =>
    (if isWordItem t then
      match ts.dropWhile isSpaceItem with
      | a :: _ => !isWordItem a || (ts.takeWhile isSpaceItem).all isLWSItem
      | [] => true
    else true) && joinOK ts

/-- `WellFormed2047 s`: (1) every `=?` of `s` begins an RFC 2047 encoded word (tokens, non-empty encoded-text without
blanks or `?`, B/Q, payload decodes, delimited by linear white space on both sides); (2) no B word decodes to a NUL;
(3) encoded words are separated by linear white space only (not VT/FF). -/
def WellFormed2047 (s : Bytes) : Bool :=
  match scanWords true true s with
  | none => false
  | some items => nulFree items && joinOK items

end Mdsort.Spec
