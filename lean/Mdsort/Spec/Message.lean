import Mdsort.Bytes
import Mdsort.Spec.Decode

/-!
# Reference reading of a mail message (specification for C08, C10)

An RFC 5322 message in LF convention, read *line by line*: an optional mbox
`From ` line, a header block of field-start lines (`name ":" text`, no white
space in the name) each followed by continuation lines (first byte SP or TAB),
one empty line, the body.  Nothing here looks at the scanner of message.c.
-/

namespace Mdsort.Spec
open Mdsort

/-- Split at the first empty line: the lines before it (without their newline)
and the text after it; `none` for the body if there is no empty line.  An
unterminated last line counts as a line. -/
def splitHB : Bytes → Bytes → List Bytes × Option Bytes
  | [], cur => (if cur.isEmpty then [] else [cur], none)
  | c :: r, cur =>
    if c == 10 then
      if cur.isEmpty then ([], some r)
      else
        let (ls, b) := splitHB r []
        (cur :: ls, b)
    else splitHB r (cur ++ [c])

/-- `name ":" text` with no white space before the colon: name and the text after
the colon with its leading blanks removed. -/
def startLine (l : Bytes) : Option (Bytes × Bytes) :=
  let name := l.takeWhile (fun c => c != 58)
  if name.length == l.length then none             -- no colon
  else if name.any isspace then none
  else some (name, (l.drop (name.length + 1)).dropWhile isblank)

def isCont : Bytes → Bool
  | c :: _ => isblank c
  | [] => false

/-- Group header lines into fields `(name, raw value)`; the raw value keeps its
folding (`"\n"` followed by the continuation line, verbatim).  `none` if a line
is neither a field start nor a continuation of one. -/
def groupFields : Nat → List Bytes → Option (List (Bytes × Bytes))
  | 0, _ => none
  | _ + 1, [] => some []
  | fuel + 1, l :: ls =>
    match startLine l with
    | none => none
    | some (n, v0) =>
      let conts := ls.takeWhile isCont
      let rest := ls.dropWhile isCont
      (groupFields fuel rest).map fun fs => (n, v0 ++ conts.flatMap (fun c => 10 :: c)) :: fs

/-- Drop an mbox separator line. -/
def dropFromLine (m : Bytes) : Bytes :=
  if [70, 114, 111, 109, 32].isPrefixOf m then
    match m.dropWhile (fun c => c != 10) with
    | [] => m
    | _ :: r => r
  else m

/-- The well-formed reading: fields in file order and the body.  `none` unless
the message has no NUL, a header block made of fields only, an empty line, and a
body that does not begin with a newline (the domain C08 quantifies over). -/
def read (m : Bytes) : Option (List (Bytes × Bytes) × Bytes) :=
  if m.contains 0 then none
  else
    match splitHB (dropFromLine m) [] with
    | (_, none) => none
    | (ls, some body) =>
      match body with
      | 10 :: _ => none
      | _ =>
        match groupFields (ls.length + 1) ls with
        | none => none
        | some fs => some (fs, body)

def fields (m : Bytes) : List (Bytes × Bytes) := match read m with | some (fs, _) => fs | none => []
def body (m : Bytes) : Bytes := match read m with | some (_, b) => b | none => []
def WF (m : Bytes) : Prop := (read m).isSome

/-- ASCII case-insensitive equality of field names. -/
def lower (c : UInt8) : UInt8 := if 65 ≤ c && c ≤ 90 then c + 32 else c
def nameEq (a b : Bytes) : Bool := a.map lower == b.map lower

/-- Lines of a value (split at every newline). -/
def valueLines : Bytes → Bytes → List Bytes
  | [], cur => [cur]
  | c :: r, cur => if c == 10 then cur :: valueLines r [] else valueLines r (cur ++ [c])

/-- The logical line of a folded value: the lines joined, newlines dropped and the TABs
that start a line dropped (a leading SPACE is kept); then encoded words decoded (C-string
view).  (audit au2) mdsort.conf(5) says nothing about folding: this is the behaviour of
`unfoldheader` written line-wise, NOT RFC 5322 unfolding, which removes only the line break -
`a\n\tb` is `ab` here and `a\tb` for a mail reader (example beside `C10_unfold`). -/
def unfold (v : Bytes) : Bytes :=
  if v.contains 10 then ((valueLines v []).map fun l => l.dropWhile (fun c => c == 9)).flatten else v

def logical (v : Bytes) : Bytes := cstr (rfc2047 (unfold v))

/-- The decoded values of all occurrences of `name`, in file order. -/
def headerValues (fs : List (Bytes × Bytes)) (name : Bytes) : List Bytes :=
  (fs.filter fun f => nameEq f.1 name).map fun f => logical f.2

/-! ## Rewriting (C08) -/

/-- The fields whose name is none of `ks`, in order. -/
def others (fs : List (Bytes × Bytes)) (ks : List Bytes) : List (Bytes × Bytes) :=
  fs.filter fun f => !ks.any (fun k => nameEq f.1 k)

/-- Last value set for `k`. -/
def lastSet (kvs : List (Bytes × Bytes)) (k : Bytes) : Option Bytes :=
  ((kvs.filter fun kv => nameEq kv.1 k).getLast?).map (·.2)

def firstIdx (fs : List (Bytes × Bytes)) (k : Bytes) : Option Nat := fs.findIdx? (fun f => nameEq f.1 k)

/-- The decidable statement of C08 for one rewrite: original message `m` (well
formed), settings `kvs`, rewritten bytes `out`. -/
def rewriteOk (m : Bytes) (kvs : List (Bytes × Bytes)) (out : Bytes) : Bool :=
  match read m, read out with
  | some (fs, b), some (fs', b') =>
    let ks := kvs.map (·.1)
    b' == b &&
    others fs' ks == others fs ks &&
    ks.all (fun k =>
      -- exactly once, with the last value set
      ((fs'.filter fun f => nameEq f.1 k).map (·.2)) == [(lastSet kvs k).getD []] &&
      -- if it was present: at the position of its first occurrence among the untouched fields
      (match firstIdx fs k, firstIdx fs' k with
       | some i, some j => others (fs.take i) ks == others (fs'.take j) ks
       | none, some _ => true
       | _, none => false))
  | _, _ => false

end Mdsort.Spec
