import Mdsort.Model.Conf

/-!
# Parse-time macro expansion as mdsort.conf(5) describes it

A string is read once, left to right, into tokens: a macro reference `${name}` (the name ends at the
first `}`), an unterminated `${`, or a single byte.  Every token is replaced on its own and the
results are concatenated - so nothing that was substituted is read again:

* a byte stands for itself;
* `${path}` is left in place in an action context (it is replaced when the action runs) and is an error
  elsewhere;
* `${name}` is the value the macro table holds for `name` (an error if it holds none);
* an unterminated `${` is an error.
-/

namespace Mdsort.Spec
open Mdsort Mdsort.Model

/-- The value `${name}` stands for: the first entry of that name. -/
def macroValue (ms : List Macro) (name : Bytes) : Option Bytes :=
  (ms.find? fun m => m.name == name).map (·.value)

inductive MTok where
  | lit (c : UInt8)
  | ref (name : Bytes)
  | unterminated
deriving Repr, DecidableEq

/-- A reference at the head of the string: `some (some (name, rest))` for `${name}rest`, `some none` for
`${` without `}`. -/
def refAt : Bytes → Option (Option (Bytes × Bytes))
  | 36 :: 123 :: r =>
    if r.contains 125 then some (some (r.takeWhile (fun c => c != 125), (r.dropWhile (fun c => c != 125)).drop 1))
    else some none
  | _ => none

/-- The tokens of a string (`fuel`: its length). -/
def mtokensAux : Nat → Bytes → List MTok
  | 0, _ => []
  | _ + 1, [] => []
  | fuel + 1, c :: r =>
    match refAt (c :: r) with
    | none => .lit c :: mtokensAux fuel r
    | some none => [.unterminated]
    | some (some (name, rest)) => .ref name :: mtokensAux fuel rest

def mtokens (s : Bytes) : List MTok := mtokensAux s.length s

def pathName : Bytes := [112, 97, 116, 104]
def pathRef : Bytes := [36, 123, 112, 97, 116, 104, 125]

/-- What one token is replaced by. -/
def msubst (action : Bool) (value : Bytes → Option Bytes) : MTok → Option Bytes
  | .lit c => some [c]
  | .ref name => if name = pathName then (if action then some pathRef else none) else value name
  | .unterminated => none

/-- The substitutions of all tokens, concatenated. -/
def msubstAll (action : Bool) (value : Bytes → Option Bytes) : List MTok → Option Bytes
  | [] => some []
  | t :: r =>
    match msubst action value t, msubstAll action value r with
    | some a, some b => some (a ++ b)
    | _, _ => none

/-- The expansion of a string in a context (`action`: the string belongs to `move`, `label` or `exec`). -/
def mexpand (action : Bool) (value : Bytes → Option Bytes) (s : Bytes) : Option Bytes :=
  msubstAll action value (mtokens s)

end Mdsort.Spec
