import Mdsort.Model.Opts

/-!
# The command line as mdsort(1) documents it

`mdsort [-dnv] [-D macro=value] [-f file] [-]`: any number of option words, then optionally `-`.
An option word (`CmdItem`) is `-` followed by letters of `d`, `n`, `v` and, optionally last, `f` or `D`
with its argument either joined to the word or as the next word.  `cmdline` is what the manual says
such a command line means; `Props.C05_options_select_mode` proves that `Model.parseArgs` - the
transcription of the `getopt` loop - computes exactly this for every such command line.
-/

namespace Mdsort.Spec
open Mdsort Mdsort.Model

/-- An option with an argument. -/
inductive ArgOpt where
  | conf (file : Bytes)                  -- `-f file`
  | define (name value : Bytes)          -- `-D name=value`
deriving Repr, DecidableEq

def ArgOpt.letter : ArgOpt → UInt8
  | .conf _ => 102
  | .define _ _ => 68

/-- The argument as typed. -/
def ArgOpt.payload : ArgOpt → Bytes
  | .conf f => f
  | .define n v => n ++ 61 :: v

/-- One option word (two argv elements when the argument is given separately). -/
structure CmdItem where
  letters : List UInt8                   -- letters of `d`, `n`, `v`
  tail : Option (ArgOpt × Bool) := none  -- `true`: the argument is joined to the word
deriving Repr, DecidableEq

def isFlagLetter (c : UInt8) : Bool := c == 100 || c == 110 || c == 118

/-- Well-formed: only flag letters; a word without `-f`/`-D` has at least one letter; a joined argument
is not empty (`-f` followed by nothing takes the next word); a macro name contains no `=`. -/
def CmdItem.wf (it : CmdItem) : Bool :=
  it.letters.all isFlagLetter &&
  match it.tail with
  | none => !it.letters.isEmpty
  | some (a, joined) =>
    (!joined || !a.payload.isEmpty) &&
    match a with
    | .define n _ => !n.contains 61
    | .conf _ => true

def CmdItem.render (it : CmdItem) : List Bytes :=
  match it.tail with
  | none => [45 :: it.letters]
  | some (a, true) => [45 :: (it.letters ++ a.letter :: a.payload)]
  | some (a, false) => [45 :: (it.letters ++ [a.letter]), a.payload]

def renderCmd (items : List CmdItem) : List Bytes := items.flatMap CmdItem.render

/-- `-d`: dry run; `-n`: syntax check only; `-v`: one level more verbose. -/
def letterStep (o : Opts) (c : UInt8) : Opts :=
  if c == 100 then { o with dryrun := true }
  else if c == 110 then { o with syntaxOnly := true }
  else { o with verbosity := o.verbosity + 1 }

/-- The meaning of one option word: its letters, then its `-f` (the last one given counts) or `-D` (a name may
be given once and may not be `path`). -/
def CmdItem.apply (it : CmdItem) (o : Opts) : Except ArgsErr Opts :=
  let o1 := it.letters.foldl letterStep o
  match it.tail with
  | none => .ok o1
  | some (.conf f, _) => .ok { o1 with confpath := some f }
  | some (.define n v, _) =>
    if isPathMacro n || (o1.defs.map (·.1)).contains n then .error (.macroInvalid n)
    else .ok { o1 with defs := o1.defs ++ [(n, v)] }

/-- The macro an option word defines, if it is a `-D` word. -/
def CmdItem.defineOf (it : CmdItem) : Option (Bytes × Bytes) :=
  match it.tail with
  | some (.define n v, _) => some (n, v)
  | _ => none

def cmdMeaning : List CmdItem → Opts → Except ArgsErr Opts
  | [], o => .ok o
  | it :: r, o =>
    match it.apply o with
    | .ok o' => cmdMeaning r o'
    | .error e => .error e

/-- The documented meaning of `items` followed by `-` (`stdin = true`) or nothing; a dry run is verbose. -/
def cmdline (items : List CmdItem) (stdin : Bool) : Except ArgsErr Opts :=
  match cmdMeaning items {} with
  | .error e => .error e
  | .ok o => .ok (dryVerbosity (if stdin then { o with stdinMode := true } else o))

end Mdsort.Spec
