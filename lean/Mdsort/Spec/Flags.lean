import Mdsort.Bytes

/-!
# Maildir flags (specification for C09, pure part)

A flag set is a set of ASCII letters.  Flags are taken only from the file name's `:2,`
suffix (after the LAST colon); written back as `:2,` followed by the upper-case letters in
ascending order and then the lower-case letters in ascending order, each once.  Taking a
message from new to cur adds `S`, from cur to new removes it; nothing else changes.
-/

namespace Mdsort.Spec
open Mdsort

/-- The flag letters of a file name: `none` if the suffix after the last colon is not `2,` + letters. -/
def nameFlags (name : Bytes) : Option (List UInt8) :=
  if !name.contains 58 then some []
  else
    let suffix := (name.reverse.takeWhile (fun c => c != 58)).reverse     -- after the last ':'
    match suffix with
    | 50 :: 44 :: letters => if letters.all isalpha then some letters else none
    | _ => none

def letterRange (lo : Nat) : List UInt8 := (List.range 26).map fun i => UInt8.ofNat (lo + i)

/-- Canonical suffix of a set of letters. -/
def flagSuffix (letters : List UInt8) : Bytes :=
  [58, 50, 44] ++ (letterRange 65).filter (letters.contains ·) ++ (letterRange 97).filter (letters.contains ·)

/-- new -> cur gains S, cur -> new loses S, otherwise unchanged. -/
def adjustSeen (srcNew dstNew : Bool) (letters : List UInt8) : List UInt8 :=
  if srcNew && !dstNew then 83 :: letters
  else if !srcNew && dstNew then letters.filter (fun c => c != 83)
  else letters

end Mdsort.Spec
