import Mdsort.Bytes
import Mdsort.Spec.Decode

/-!
# Reference MIME reading (specification for C11)

The RFC 2046 subset mdsort documents: a multipart entity announces
`multipart/<sub>; boundary="<b>"`; its body is cut at *lines* that are exactly
`--<b>` (separator) or `--<b>--` (terminator) and are terminated by a newline;
parts are the texts between consecutive delimiter lines up to the first
terminator, which must exist.  Parts are listed in pre-order; nesting deeper
than the limit is an error.  The reader of one entity (header access, body) is a
parameter, so this file depends on no model.
-/

namespace Mdsort.Spec
open Mdsort

/-- How an entity is accessed: its decoded Content-Type, Content-Transfer-Encoding and raw body. -/
structure Entity (α : Type) where
  read : Bytes → α
  contentType : α → Option Bytes
  cte : α → Option Bytes
  body : α → Bytes

inductive BoundaryParam where
  | none            -- not a multipart entity in mdsort's sense
  | bad             -- announced, but the parameter is unterminated or empty
  | some (b : Bytes)
deriving Repr, DecidableEq

/-- `multipart/<sub>;<blanks>boundary="<b>"...` -/
def boundaryParam (ct : Bytes) : BoundaryParam :=
  let mp : Bytes := [109, 117, 108, 116, 105, 112, 97, 114, 116, 47]        -- "multipart/"
  let bq : Bytes := [98, 111, 117, 110, 100, 97, 114, 121, 61, 34]           -- boundary="
  if !mp.isPrefixOf ct then .none
  else
    match (ct.drop mp.length).dropWhile (fun c => c != 59) with
    | [] => .none
    | _ :: afterSemi =>
      let p := afterSemi.dropWhile isblank
      if !bq.isPrefixOf p then .none
      else
        let v := p.drop bq.length
        let b := v.takeWhile (fun c => c != 34)
        if b.length == v.length then .bad          -- no closing quote
        else if b.isEmpty then .bad
        else .some b

/-- Terminated lines of a text (each without its newline) and the unterminated rest. -/
def termLines : Bytes → Bytes → List Bytes × Bytes
  | [], cur => ([], cur)
  | c :: r, cur =>
    if c == 10 then
      let (ls, rest) := termLines r []
      (cur :: ls, rest)
    else termLines r (cur ++ [c])

def unlines (ls : List Bytes) : Bytes := ls.flatMap fun l => l ++ [10]

/-- Cut the terminated lines at delimiter lines: skip the preamble, then collect
part texts; `none` if the terminator is missing.  `some []` if the first
delimiter is already the terminator. -/
def cutParts (b : Bytes) (ls : List Bytes) : Option (List Bytes) :=
  let sep : Bytes := [45, 45] ++ b
  let fin : Bytes := sep ++ [45, 45]
  -- preamble
  match ls.dropWhile (fun l => l != sep && l != fin) with
  | [] => none
  | d :: rest =>
    if d == fin then some []
    else
      let rec go : List Bytes → List Bytes → Option (List Bytes)
        | [], _ => none
        | l :: ls, cur =>
          if l == fin then some [unlines cur]
          else if l == sep then (go ls []).map fun ps => unlines cur :: ps
          else go ls (cur ++ [l])
      go rest []

/-- Parts of an entity in pre-order; `fuel` is the number of nesting levels still allowed. -/
def parts {α} (E : Entity α) : Nat → α → Option (List α)
  | 0, _ => none
  | fuel + 1, e =>
    match E.contentType e with
    | none => some []
    | some ct =>
      match boundaryParam ct with
      | .none => some []
      | .bad => none
      | .some b =>
        match cutParts b (termLines (E.body e) []).1 with
        | none => none
        | some texts =>
          (texts.mapM fun t =>
            let p := E.read t
            (parts E fuel p).map fun sub => p :: sub).map List.flatten

/-- Is `ct` the media type `ty` (exactly, or followed by parameters)? -/
def isType (ct : Option Bytes) (ty : Bytes) : Bool :=
  match ct with
  | none => false
  | some t => ty.isPrefixOf t && (match t.drop ty.length with | [] => true | c :: _ => c == 59)

/-- Body of one entity decoded by its own Content-Transfer-Encoding (C-string view);
`none` if it is announced as base64 and is not valid base64. -/
def decoded {α} (E : Entity α) (e : α) : Option Bytes :=
  let b64name : Bytes := [98, 97, 115, 101, 54, 52]
  let qpname : Bytes := [113, 117, 111, 116, 101, 100, 45, 112, 114, 105, 110, 116, 97, 98, 108, 101]
  match E.cte e with
  | some enc =>
    if enc == b64name then (b64 (E.body e)).map cstr
    else if enc == qpname then some (cstr (qp false (E.body e)))
    else some (E.body e)
  | none => some (E.body e)

/-- The body a `body` condition sees: for multipart/alternative the first text/plain
part, else the first text/html part, else the raw body; otherwise the decoded body. -/
def decodedBody {α} (E : Entity α) (limit : Nat) (e : α) : Option Bytes :=
  let alt : Bytes := [109, 117, 108, 116, 105, 112, 97, 114, 116, 47, 97, 108, 116, 101, 114, 110, 97, 116, 105, 118, 101]
  let plain : Bytes := [116, 101, 120, 116, 47, 112, 108, 97, 105, 110]
  let html : Bytes := [116, 101, 120, 116, 47, 104, 116, 109, 108]
  if !isType (E.contentType e) alt then decoded E e
  else
    match parts E (limit + 1) e with
    | none => none
    | some ps =>
      match ps.find? (fun p => isType (E.contentType p) plain) with
      | some p =>
        -- an earlier text/html does not win over a later text/plain
        decoded E p
      | none =>
        match ps.find? (fun p => isType (E.contentType p) html) with
        | some p => decoded E p
        | none => some (E.body e)

end Mdsort.Spec
