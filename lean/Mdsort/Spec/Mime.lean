import Mdsort.Bytes
import Mdsort.Spec.Decode

/-!
# Reference MIME reading (specification for C11)

RFC 2045 / 2046.  What is independent of the model, and how it is written:

* **media type, encoding name** (RFC 2045 5.1, 6.1): `type "/" subtype` is the text of the Content-Type value before the
  first `;`; it and the Content-Transfer-Encoding mechanism are TOKENS compared without regard to ASCII letter case
  (`tokenEq`).  `isType`, `decoded`.
* **cutting into parts** (RFC 2046 5.1.1): the body is cut at *lines* that are exactly `--<b>` (separator) or `--<b>--`
  (terminator) and are terminated by a newline; parts are the texts between consecutive delimiter lines up to the first
  terminator, which must exist.  Parts are listed in pre-order; nesting deeper than the limit is an error.  `cutParts`,
  `parts`.
* **the boundary parameter, RFC reading** (`boundaryParamRFC`): a parameter scanner over `*(";" attribute "=" value)` with
  `value := token / quoted-string`, attribute names case-insensitive, the `boundary` parameter in ANY position.
* **the boundary parameter, mdsort's reading** (`boundaryParam`, used by `parts`): `multipart/` (any case), the text after
  the FIRST `;` and blanks must be `boundary="` (any case) - first parameter, quoted.  This one follows `parseboundary`
  on purpose: it is the subset of the RFC form the implementation recognises; `C11_boundary_param_partial` proves it
  equal to the RFC reading on that subset, and the difference is the listed finding F30 (witnesses in Props/C11.lean).

Not modelled: RFC 822 comments in structured fields, `\`-escapes inside a quoted-string (RFC 2046 `bchars` contain
neither `"` nor `\`), white space around `=`.  The reader of one entity (header access, body) is a parameter, so this file
depends on no model.
-/

namespace Mdsort.Spec
open Mdsort

/-- How an entity is accessed: its decoded Content-Type, Content-Transfer-Encoding and raw body. -/
structure Entity (α : Type) where
  read : Bytes → α
  contentType : α → Option Bytes
  cte : α → Option Bytes
  body : α → Bytes

inductive BoundaryParam where
  | none            -- not a multipart entity in mdsort's sense
  | bad             -- announced, but the parameter is unterminated or empty
  | some (b : Bytes)
deriving Repr, DecidableEq

/-- ASCII lower case. -/
def lowerAscii (c : UInt8) : UInt8 := if 65 ≤ c && c ≤ 90 then c + 32 else c

/-- Tokens of RFC 2045 (media type, parameter names, encoding mechanisms) are matched case-insensitively. -/
def tokenEq (a b : Bytes) : Bool := a.map lowerAscii == b.map lowerAscii

/-- mdsort's reading (see the file header): `multipart/<sub>;<blanks>boundary="<b>"...`, keywords in any letter case. -/
def boundaryParam (ct : Bytes) : BoundaryParam :=
  let mp : Bytes := [109, 117, 108, 116, 105, 112, 97, 114, 116, 47]        -- "multipart/"
  let bq : Bytes := [98, 111, 117, 110, 100, 97, 114, 121, 61, 34]           -- boundary="
  if !tokenEq (ct.take mp.length) mp then .none
  else
    match (ct.drop mp.length).dropWhile (fun c => c != 59) with
    | [] => .none
    | _ :: afterSemi =>
      let p := afterSemi.dropWhile isblank
      if !tokenEq (p.take bq.length) bq then .none
      else
        let v := p.drop bq.length
        let b := v.takeWhile (fun c => c != 34)
        if b.length == v.length then .bad          -- no closing quote
        else if b.isEmpty then .bad
        else .some b

/-! ## The boundary parameter as RFC 2045 5.1 states it

```
content := "Content-Type" ":" type "/" subtype *(";" parameter)
parameter := attribute "=" value          ; attribute matched case-insensitively
value := token / quoted-string
token := 1*<any (US-ASCII) CHAR except SPACE, CTLs, or tspecials>
tspecials := "(" / ")" / "<" / ">" / "@" / "," / ";" / ":" / "\" / <"> / "/" / "[" / "]" / "?" / "="
```
Blanks are allowed before and after a `;`. -/

def tspecials : Bytes := [40, 41, 60, 62, 64, 44, 59, 58, 92, 34, 47, 91, 93, 63, 61]

def tokenChar (c : UInt8) : Bool := 32 < c && c < 127 && !tspecials.contains c

/-- One `attribute "=" value` at the head of `s`: the attribute, the value (`none`: no token where one must be, or an
unterminated quoted-string) and what follows it; `none` if `s` does not begin with `attribute "="`. -/
def param1 (s : Bytes) : Option (Bytes × Option Bytes × Bytes) :=
  let name := s.takeWhile tokenChar
  match s.drop name.length with
  | 61 :: 34 :: r =>
    let v := r.takeWhile (fun c => c != 34)
    match r.drop v.length with
    | 34 :: rest => some (name, some v, rest)
    | _ => some (name, none, [])
  | 61 :: r =>
    let v := r.takeWhile tokenChar
    some (name, if v.isEmpty then none else some v, r.drop v.length)
  | _ => none

/-- The parameters `*(";" parameter)` at the head of `s`, in order (`fuel`: at most that many). -/
def params : Nat → Bytes → List (Bytes × Option Bytes)
  | 0, _ => []
  | fuel + 1, s =>
    match s.dropWhile isblank with
    | 59 :: r =>
      match param1 (r.dropWhile isblank) with
      | none => []
      | some (n, v, rest) => (n, v) :: params fuel rest
    | _ => []

/-- RFC reading of a Content-Type value: not `multipart/...` - `.none`; otherwise the value of the parameter named
`boundary` (any letter case, any position, token or quoted-string); an empty or malformed value is `.bad`; a multipart
type without that parameter is `.none` (nothing to cut at). -/
def boundaryParamRFC (ct : Bytes) : BoundaryParam :=
  let ty := ct.takeWhile tokenChar
  match ct.drop ty.length with
  | 47 :: r =>
    if !tokenEq ty [109, 117, 108, 116, 105, 112, 97, 114, 116] then .none
    else
      let sub := r.takeWhile tokenChar
      match (params ct.length (r.drop sub.length)).find? (fun p => tokenEq p.1 [98, 111, 117, 110, 100, 97, 114, 121]) with
      | none => .none
      | some (_, none) => .bad
      | some (_, some b) => if b.isEmpty then .bad else .some b
  | _ => .none

/-- Terminated lines of a text (each without its newline) and the unterminated rest. -/
def termLines : Bytes → Bytes → List Bytes × Bytes
  | [], cur => ([], cur)
  | c :: r, cur =>
    if c == 10 then
      let (ls, rest) := termLines r []
      (cur :: ls, rest)
    else termLines r (cur ++ [c])

def unlines (ls : List Bytes) : Bytes := ls.flatMap fun l => l ++ [10]

/-- Cut the terminated lines at delimiter lines: skip the preamble, then collect
part texts; `none` if the terminator is missing.  `some []` if the first
delimiter is already the terminator. -/
def cutParts (b : Bytes) (ls : List Bytes) : Option (List Bytes) :=
  let sep : Bytes := [45, 45] ++ b
  let fin : Bytes := sep ++ [45, 45]
  -- preamble
  match ls.dropWhile (fun l => l != sep && l != fin) with
  | [] => none
  | d :: rest =>
    if d == fin then some []
    else
      let rec go : List Bytes → List Bytes → Option (List Bytes)
        | [], _ => none
        | l :: ls, cur =>
          if l == fin then some [unlines cur]
          else if l == sep then (go ls []).map fun ps => unlines cur :: ps
          else go ls (cur ++ [l])
      go rest []

/-- Parts of an entity in pre-order; `fuel` is the number of nesting levels still allowed. -/
def parts {α} (E : Entity α) : Nat → α → Option (List α)
  | 0, _ => none
  | fuel + 1, e =>
    match E.contentType e with
    | none => some []
    | some ct =>
      match boundaryParam ct with
      | .none => some []
      | .bad => none
      | .some b =>
        match cutParts b (termLines (E.body e) []).1 with
        | none => none
        | some texts =>
          (texts.mapM fun t =>
            let p := E.read t
            (parts E fuel p).map fun sub => p :: sub).map List.flatten

/-- `parts` with the RFC reading of the boundary parameter (what a mail reader sees).  Used by the check to judge the
implementation; no theorem equates it with the model - finding F30 is the difference. -/
def partsRFC {α} (E : Entity α) : Nat → α → Option (List α)
  | 0, _ => none
  | fuel + 1, e =>
    match E.contentType e with
    | none => some []
    | some ct =>
      match boundaryParamRFC ct with
      | .none => some []
      | .bad => none
      | .some b =>
        match cutParts b (termLines (E.body e) []).1 with
        | none => none
        | some texts =>
          (texts.mapM fun t =>
            let p := E.read t
            (partsRFC E fuel p).map fun sub => p :: sub).map List.flatten

/-- The media type of a Content-Type value: the text before the first `;` (RFC 2045 5.1: `type "/" subtype`). -/
def mediaType (ct : Bytes) : Bytes := ct.takeWhile (fun c => c != 59)

/-- Is `ct` the media type `ty`?  Type and subtype are matched case-insensitively (RFC 2045 5.1). -/
def isType (ct : Option Bytes) (ty : Bytes) : Bool :=
  match ct with
  | none => false
  | some t => tokenEq (mediaType t) ty

/-- Body of one entity decoded by its own Content-Transfer-Encoding (C-string view); the mechanism name is matched
case-insensitively (RFC 2045 6.1); `none` if it is announced as base64 and is not valid base64. -/
def decoded {α} (E : Entity α) (e : α) : Option Bytes :=
  let b64name : Bytes := [98, 97, 115, 101, 54, 52]
  let qpname : Bytes := [113, 117, 111, 116, 101, 100, 45, 112, 114, 105, 110, 116, 97, 98, 108, 101]
  match E.cte e with
  | some enc =>
    if tokenEq enc b64name then (b64 (E.body e)).map cstr
    else if tokenEq enc qpname then some (cstr (qp false (E.body e)))
    else some (E.body e)
  | none => some (E.body e)

/-- The body a `body` condition sees: for multipart/alternative the first text/plain
part, else the first text/html part, else the raw body; otherwise the decoded body. -/
def decodedBody {α} (E : Entity α) (limit : Nat) (e : α) : Option Bytes :=
  let alt : Bytes := [109, 117, 108, 116, 105, 112, 97, 114, 116, 47, 97, 108, 116, 101, 114, 110, 97, 116, 105, 118, 101]
  let plain : Bytes := [116, 101, 120, 116, 47, 112, 108, 97, 105, 110]
  let html : Bytes := [116, 101, 120, 116, 47, 104, 116, 109, 108]
  if !isType (E.contentType e) alt then decoded E e
  else
    match parts E (limit + 1) e with
    | none => none
    | some ps =>
      match ps.find? (fun p => isType (E.contentType p) plain) with
      | some p =>
        -- an earlier text/html does not win over a later text/plain
        decoded E p
      | none =>
        match ps.find? (fun p => isType (E.contentType p) html) with
        | some p => decoded E p
        | none => some (E.body e)

end Mdsort.Spec
