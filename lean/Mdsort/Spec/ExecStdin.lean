import Mdsort.Model.Scripts

/-!
# What a run hands to a descriptor (specification for C11_exec_stdin)

A run of a program is observed as its trace: the libc calls it issued, each with the result it
got.  The content a descriptor receives is read off the trace alone (`written`, `printed`); the
three documented sources of an exec action's standard input are then statements about the trace
of `message_get_fd`:

* `stdin body`: a fresh unlinked temporary file that received the DECODED body (C11_body);
* `stdin` inside an attachment block: a fresh unlinked temporary file that received the part
  re-serialised by `message_write`;
* `stdin` otherwise: a duplicate of the message's own descriptor.
-/

namespace Mdsort.Spec
open Mdsort Mdsort.Model

/-- The bytes descriptor `fd` accepted through `write`: of every `write(fd, data) = n`, the
first `n` bytes of `data`. -/
def written (fd : Handle) (tr : List (Call × Res)) : Bytes :=
  tr.flatMap fun
    | (.write h data, .ok n) => if h = fd then data.take n else []
    | _ => []

/-- The bytes handed to the stdio stream `fd` by the `fprintf`s that did not fail. -/
def printed (fd : Handle) (tr : List (Call × Res)) : Bytes :=
  tr.flatMap fun
    | (.fprintf h data, r) => if h = fd ∧ r.isErr = false then data else []
    | _ => []

/-- A call that did not do what was asked: an error result; no descriptor from `mkostemp` or
`fcntl(F_DUPFD_CLOEXEC)`; a `write` that accepted nothing. -/
def failed : Call × Res → Bool
  | (_, .err _) => true
  | (.mkostemp _, .ok _) => false
  | (.mkostemp _, _) => true
  | (.dupfd _, .ok _) => false
  | (.dupfd _, _) => true
  | (.write _ _, .ok n) => n == 0
  | (.write _ _, _) => true
  | _ => false

/-- The template `writefd` hands to `mkostemp`. -/
def tmpTemplate (tmpdir : Bytes) : Option Bytes := pathjoin PATH_MAX tmpdir (ofString "mdsort-XXXXXXXX")

/-- (a) `stdin body`: the calls before the final `lseek` create and unlink a temporary file and
then only `write` to it, each write accepting at least one byte; what the descriptor accepted is
exactly the decoded body (as a C string). -/
def BodyHandedOver (tmpdir : Bytes) (target : Msg) (fd : Handle) (L : List (Call × Res)) : Prop :=
  ∃ body tmpl r2 W,
    getBody target = some body ∧ tmpTemplate tmpdir = some tmpl ∧
    L = (.mkostemp tmpl, .ok fd) :: (.unlink tmpl, r2) :: W ∧
    (∀ x ∈ W, ∃ d n, x = (.write fd d, .ok n) ∧ 0 < n) ∧
    written fd L = cstr body

/-- (b) a part without `body`: the temporary file is duplicated, opened as a stream, receives
only `fprintf`s, is flushed, synced and closed; what the stream was handed is exactly the
re-serialised part. -/
def PartHandedOver (tmpdir : Bytes) (p : Msg) (fd : Handle) (L : List (Call × Res)) : Prop :=
  ∃ tmpl r2 newfd r3 P r4 r5 r6,
    tmpTemplate tmpdir = some tmpl ∧
    L = (.mkostemp tmpl, .ok fd) :: (.unlink tmpl, r2) :: (.dupfd fd, .ok newfd) :: (.fdopen newfd, r3) ::
          (P ++ [(.fflush newfd, r4), (.fsync newfd, r5), (.fclose newfd, r6)]) ∧
    (∀ x ∈ P, ∃ d r, x = (.fprintf newfd d, r)) ∧
    printed newfd L = (messageWrite p).1

/-- (c) the message itself: the only call before the `lseek` duplicates the message's descriptor. -/
def MessageHandedOver (msgfd : Option Handle) (fd : Handle) (L : List (Call × Res)) : Prop :=
  ∃ mfd, msgfd = some mfd ∧ L = [(.dupfd mfd, .ok fd)]

/-- What `message_get_fd(msg, env, dobody)` must have done before it returns descriptor `fd`. -/
def HandedOver (env : PEnv) (ms : MsgSt) (part : Option Msg) (dobody : Bool) (fd : Handle)
    (L : List (Call × Res)) : Prop :=
  if dobody then BodyHandedOver env.tmpdir (part.getD ms.msg) fd L
  else
    match part with
    | some p => PartHandedOver env.tmpdir p fd L
    | none => MessageHandedOver ms.fd fd L

/-- What is needed besides successful calls: the body is decodable and the template fits
`PATH_MAX` (`stdin body`), the template fits (a part), the message has a descriptor. -/
def Obtainable (env : PEnv) (ms : MsgSt) (part : Option Msg) (dobody : Bool) : Bool :=
  if dobody then (getBody (part.getD ms.msg)).isSome && (tmpTemplate env.tmpdir).isSome
  else if part.isSome then (tmpTemplate env.tmpdir).isSome
  else ms.fd.isSome

/-- The descriptor a run of `message_get_fd` obtained for its caller, if any: the result of its
first call (`mkostemp` in `writefd`, or the duplicate of the message's descriptor). -/
def obtainedFd (L : List (Call × Res)) : Option Handle :=
  match L.head? with
  | some (.mkostemp _, .ok fd) => some fd
  | some (.dupfd _, .ok fd) => some fd
  | _ => none

/-- The run ended by closing `fd`. -/
def ClosedLast (fd : Handle) (L : List (Call × Res)) : Prop := ∃ r, L.getLast? = some (.close fd, r)

end Mdsort.Spec
