import Mdsort.Gen.Grammar
import Mdsort.Spec.Conf

/-!
# The context-free grammar of parse.y as data, and parse trees over it

`Gen.productions` (Gen/Grammar.lean) is regenerated from the working tree's parse.y on every run
(tools/gen_grammar.py: bison's XML report).  This file has what is needed to STATE that a token
sequence is a sentence of that grammar:

* parse trees (`Tree`, `Forest`), their root, their `yield` (the leaves from left to right) and the
  Boolean checker `Tree.ok P`: every inner node is an instance of a production of the table `P`, every
  leaf is a terminal (a symbol that is the left-hand side of no production);
* the grammar symbol of a token of the lexer model (`tokenKind`) and the token kinds of a whole text
  (`Lexes`): the lexer model run to the end of the text without a diagnostic, in pattern mode exactly
  where it returns a PATTERN and in unit mode exactly where it returns a SCALAR (the two modes the
  mid-rule actions `$@2` and `$@1` of the grammar switch on, in front of exactly these two tokens);
* `treeOfConf`: for a configuration given as trees (the domain of `Spec.printBlocks`), the parse tree
  of its written form.
-/

namespace Mdsort.Spec.Cfg
open Mdsort Mdsort.Model

abbrev Sym := String
abbrev Prod := Sym × List Sym

mutual
  inductive Tree where
    | leaf (a : Sym)
    | node (x : Sym) (kids : Forest)
  inductive Forest where
    | nil
    | cons (t : Tree) (f : Forest)
end

def Tree.root : Tree → Sym
  | .leaf a => a
  | .node x _ => x

def Forest.roots : Forest → List Sym
  | .nil => []
  | .cons t f => t.root :: f.roots

mutual
  /-- The leaves from left to right. -/
  def Tree.yield : Tree → List Sym
    | .leaf a => [a]
    | .node _ ks => ks.yield
  def Forest.yield : Forest → List Sym
    | .nil => []
    | .cons t f => t.yield ++ f.yield
end

/-- A terminal of the table: no production has it on the left. -/
def isTerminal (P : List Prod) (a : Sym) : Bool := P.all fun p => p.1 != a

mutual
  /-- Every inner node is an instance of a production of `P`, every leaf a terminal. -/
  def Tree.ok (P : List Prod) : Tree → Bool
    | .leaf a => isTerminal P a
    | .node x ks => P.contains (x, ks.roots) && ks.ok P
  def Forest.ok (P : List Prod) : Forest → Bool
    | .nil => true
    | .cons t f => t.ok P && f.ok P
end

def Forest.ofList : List Tree → Forest
  | [] => .nil
  | t :: r => .cons t (Forest.ofList r)

/-- Inner node with its children as a list. -/
def N (x : Sym) (kids : List Tree) : Tree := .node x (Forest.ofList kids)
/-- Leaf. -/
def T (a : Sym) : Tree := .leaf a

/-- `w` is derived from `x`: the yield of a checked tree with root `x`. -/
def Derives (P : List Prod) (x : Sym) (w : List Sym) : Prop :=
  ∃ t : Tree, t.ok P = true ∧ t.root = x ∧ t.yield = w

/-! ## Tokens as grammar symbols -/

/-- A character token as bison names it: `'{'`. -/
def charSym (c : UInt8) : Sym := "'" ++ String.singleton (Char.ofNat c.toNat) ++ "'"

/-- The terminal a token of the lexer model is (`yylex` returns the token number of this name; a
keyword token carries the name from the second column of the keyword table). -/
def tokenKind : Token → Sym
  | .eof => "$end"
  | .neg => "NEG"
  | .str _ => "STRING"
  | .pattern .. => "PATTERN"
  | .int _ => "INT"
  | .keyword name => name
  | .scalar _ => "SCALAR"
  | .macro _ => "MACRO"
  | .char c => charSym c

def isMacroTok : Token → Bool
  | .macro _ => true
  | _ => false

/-- `Lexes afterMacro text ks`: the lexer model, called again and again on `text` until it returns the
end-of-input token, reports no diagnostic and returns tokens of the kinds `ks`; each call is made in
pattern mode (`pflag`) iff it returns a PATTERN and in unit mode (`sflag`) iff it returns a SCALAR.
`afterMacro`: the previous token was a MACRO. -/
inductive Lexes : Bool → Bytes → List Sym → Prop
  | done (am : Bool) (s : Bytes) :
      (lex1 false false am s).tok = .eof → (lex1 false false am s).errors = 0 → Lexes am s []
  | tok (am pf sf : Bool) (s : Bytes) (ks : List Sym) :
      (lex1 pf sf am s).errors = 0 → (lex1 pf sf am s).tok ≠ .eof →
      pf = (tokenKind (lex1 pf sf am s).tok == "PATTERN") → sf = (tokenKind (lex1 pf sf am s).tok == "SCALAR") →
      Lexes (isMacroTok (lex1 pf sf am s).tok) (lex1 pf sf am s).rest ks →
      Lexes am s (tokenKind (lex1 pf sf am s).tok :: ks)

/-! ## The parse tree of a written configuration -/

def kwSym : Kw → Sym
  | .access => "ACCESS" | .addheader => "ADDHEADER" | .all => "ALL" | .and => "AND"
  | .attachment => "ATTACHMENT" | .body => "BODY" | .brk => "BREAK" | .command => "COMMAND"
  | .created => "CREATED" | .date => "DATE" | .discard => "DISCARD" | .exec => "EXEC" | .flag => "FLAG"
  | .flags => "FLAGS" | .header => "HEADER" | .isdirectory => "ISDIRECTORY" | .label => "LABEL"
  | .maildir => "MAILDIR" | .mtch => "MATCH" | .modified => "MODIFIED" | .move => "MOVE" | .new => "NEW"
  | .old => "OLD" | .or => "OR" | .pass => "PASS" | .reject => "REJECT" | .stdin => "STDIN"

/-- The terminal a written token (`Spec.PTok`) is. -/
def ptokKind : PTok → Sym
  | .kw k => kwSym k
  | .str _ => "STRING"
  | .int _ => "INT"
  | .seconds => "SCALAR"
  | .pat _ => "PATTERN"
  | .bang => "NEG"
  | .lbrace => "'{'" | .rbrace => "'}'" | .lparen => "'('" | .rparen => "')'" | .lt => "'<'" | .gt => "'>'"

/-- `stringblock` deriving `n` strings (the rule is left recursive). -/
def stringBlockTree (l : List Bytes) : Tree :=
  l.foldl (fun t _ => N "stringblock" [t, T "STRING"]) (N "stringblock" [])

/-- `strings` written with braces. -/
def stringsTree (l : List Bytes) : Tree := N "strings" [T "'{'", stringBlockTree l, T "'}'"]

def patternTree : Tree := N "pattern" [N "$@2" [], T "PATTERN"]
def scalarTree : Tree := N "scalar" [N "$@1" [], T "SCALAR"]

/-- `expr3` for a condition without sub-conditions. -/
def condLeafTree : Expr → Tree
  | .all _ => N "expr3" [T "ALL"]
  | .new _ => N "expr3" [T "NEW"]
  | .old _ => N "expr3" [T "OLD"]
  | .body _ _ => N "expr3" [T "BODY", patternTree]
  | .header _ ns _ => N "expr3" [T "HEADER", stringsTree ns, patternTree]
  | .date _ f c _ =>
    N "expr3" [T "DATE",
      N "date_field" (match f with | .header => [] | .access => [T "ACCESS"] | .modified => [T "MODIFIED"] | .created => [T "CREATED"]),
      N "date_cmp" [T (match c with | .lt => "'<'" | .gt => "'>'")],
      N "date_age" [T "INT", scalarTree]]
  | .stat _ _ => N "expr3" [T "ISDIRECTORY", T "STRING"]
  | .command _ a => N "expr3" [T "COMMAND", stringsTree a]
  | _ => T "?"

/-- `exec_flags` (left recursive). -/
def execFlagsTree (si bo : Bool) : Tree :=
  let t0 := N "exec_flags" []
  let t1 := if si then N "exec_flags" [t0, N "exec_flag" [T "STDIN"]] else t0
  if bo then N "exec_flags" [t1, N "exec_flag" [T "BODY"]] else t1

/-- `expraction` for an action without a block. -/
def actLeafTree : Expr → Tree
  | .move _ _ => N "expraction" [T "MOVE", T "STRING"]
  | .flag _ sub => N "expraction" [T "FLAG", N "flag" [N "optneg" (if sub == curStr then [T "NEG"] else []), T "NEW"]]
  | .flags _ _ => N "expraction" [T "FLAGS", T "STRING"]
  | .discard _ => N "expraction" [T "DISCARD"]
  | .brk _ => N "expraction" [T "BREAK"]
  | .pass _ => N "expraction" [T "PASS"]
  | .reject _ => N "expraction" [T "REJECT"]
  | .label _ ls => N "expraction" [T "LABEL", stringsTree ls]
  | .exec _ si bo a => N "expraction" [T "EXEC", execFlagsTree si bo, stringsTree a]
  | .addHeader _ _ _ => N "expraction" [T "ADDHEADER", T "STRING", T "STRING"]
  | _ => T "?"

/-- The parse tree of `Spec.toks k t`: root `expr1` for a condition, `expr` for a rule, `exprs` for the
rules of a block, `exprblock`, `expraction`, `expractions`.  (Binary conditions are written in
parentheses: `expr1 -> expr3 -> '(' expr1 ')'`.) -/
def tree : Kind → CTree → Tree
  | .cond, .leaf e => N "expr1" [condLeafTree e]
  | .cond, .and _ l r => N "expr1" [N "expr3" [T "'('", N "expr1" [tree .cond l, T "AND", tree .cond r], T "')'"]]
  | .cond, .or _ l r => N "expr1" [N "expr3" [T "'('", N "expr1" [tree .cond l, T "OR", tree .cond r], T "')'"]]
  | .cond, .neg _ e => N "expr1" [T "NEG", tree .cond e]
  | .cond, .attachment _ e => N "expr1" [T "ATTACHMENT", tree .cond e]
  | .rule, .mtch _ c r => N "expr" [T "MATCH", tree .cond c, N "expr2" [if isBlock r then tree .block r else tree .acts r]]
  | .rules, .mtch _ c r =>
    N "exprs" [N "exprs" [], N "expr" [T "MATCH", tree .cond c, N "expr2" [if isBlock r then tree .block r else tree .acts r]]]
  | .rules, .or _ l r => N "exprs" [tree .rules l, tree .rule r]
  | .block, .block _ b => N "exprblock" [T "'{'", tree .rules b, T "'}'"]
  | .block, .emptyBlock _ => N "exprblock" [T "'{'", N "exprs" [], T "'}'"]
  | .act, .leaf e => actLeafTree e
  | .act, .attBlock _ b => N "expraction" [T "ATTACHMENT", tree .block b]
  | .acts, .leaf e => N "expractions" [N "expractions" [], actLeafTree e]
  | .acts, .attBlock _ b => N "expractions" [N "expractions" [], N "expraction" [T "ATTACHMENT", tree .block b]]
  | .acts, .and _ l r => N "expractions" [tree .acts l, tree .act r]
  | _, _ => T "?"

/-- `maildir`: one block of the configuration. -/
def blockTree (b : PBlock) : Tree :=
  N "maildir" [
    (if b.paths = [stdinStr] then N "maildir_paths" [T "STDIN"] else N "maildir_paths" [T "MAILDIR", stringsTree b.paths]),
    tree .block b.tree]

/-- The parse tree of `Spec.printBlocks bs` (`grammar` is left recursive). -/
def treeOfConf (bs : List PBlock) : Tree :=
  bs.foldl (fun t b => N "grammar" [t, blockTree b]) (N "grammar" [])

end Mdsort.Spec.Cfg
