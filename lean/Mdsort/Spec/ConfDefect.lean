import Mdsort.Spec.Conf

/-!
# Where a defect can sit in a written configuration (for `C14_error_anywhere_rejects_file`)
-/

namespace Mdsort.Spec
open Mdsort Mdsort.Model

/-- Strings that can be written between quotes and are read back as one STRING token, whatever they mean: as `strOK`,
but `$` is allowed (so the string may hold macro references). -/
def strLexOK (b : Bytes) : Bool :=
  !b.isEmpty && b.all (fun c => c != 0 && c != 10) && b.head? != some 126 && b.getLast? != some 92 &&
    decide (b.length < 8191)

end Mdsort.Spec
