import Mdsort.Spec.Conf

/-!
# Where a defect can sit in a written configuration (for `C14_error_anywhere_rejects_file`)

`printBlocks` writes a configuration as a sequence of tokens.  The definitions below describe what it has
written of a well-formed configuration (`ConfOK`) when it arrives at a place where

* a rule can start (`RulePos`): complete blocks, the head of a block and its `{`, then complete rules of that
  block and - descending, to any depth - `match cond {` of a rule with a nested block or
  `match cond action ... attachment {` of a rule with an attachment block;
* an action can start (`ActPos`): a rule position, `match cond`, complete actions;
* an operand of a condition can start (`CondPos`): a rule position, `match`, then any sequence of `!`,
  `attachment`, `(` and `( cond and` / `( cond or`.

A defect is written at such a place instead of what `printBlocks` would write; what follows it is arbitrary.
-/

namespace Mdsort.Spec
open Mdsort Mdsort.Model

/-- Strings that can be written between quotes and are read back as one STRING token, whatever they mean: as `strOK`,
but `$` is allowed (so the string may hold macro references). -/
def strLexOK (b : Bytes) : Bool :=
  !b.isEmpty && b.all (fun c => c != 0 && c != 10) && b.head? != some 126 && b.getLast? != some 92 &&
    decide (b.length < 8191)

def fieldToks : DateField → List PTok
  | .header => [] | .access => [.kw .access] | .modified => [.kw .modified] | .created => [.kw .created]
def cmpTok : DateCmp → PTok
  | .lt => .lt | .gt => .gt

/-! ## Positions -/

/-- What is written, inside a condition, before one of its operands. -/
inductive CondStep where
  | bang                      -- `!`
  | att                       -- `attachment`
  | lpar                      -- `(`: the operand is the left operand of `and` / `or`
  | andR (a : CTree)          -- `( a and`: the operand is the right operand
  | orR (a : CTree)           -- `( a or`
deriving Repr

def CondStep.toks : CondStep → List PTok
  | .bang => [.bang]
  | .att => [.kw .attachment]
  | .lpar => [.lparen]
  | .andR a => .lparen :: (Spec.toks .cond a ++ [.kw .and])
  | .orR a => .lparen :: (Spec.toks .cond a ++ [.kw .or])

def CondStep.ok (rx : Pat → Bool) : CondStep → Bool
  | .andR a | .orR a => wfK rx .cond a && treePOK a
  | _ => true

/-- What is written between the `{` of a block and a place of that block - or of a block nested in it -
where a rule can start. -/
inductive RuleStep where
  | rule (r : CTree)                        -- a complete rule
  | nested (c : CTree)                      -- `match c {`: on into the nested block of a further rule
  | attach (c : CTree) (acts : List CTree)  -- `match c a1 ... an attachment {`: on into the block of an attachment action
deriving Repr

def RuleStep.toks : RuleStep → List PTok
  | .rule r => Spec.toks .rule r
  | .nested c => .kw .mtch :: (Spec.toks .cond c ++ [.lbrace])
  | .attach c acts => .kw .mtch :: (Spec.toks .cond c ++ (acts.flatMap (Spec.toks .act) ++ [.kw .attachment, .lbrace]))

def RuleStep.ok (rx : Pat → Bool) : RuleStep → Bool
  | .rule r => wfK rx .rule r && treePOK r
  | .nested c => wfK rx .cond c && treePOK c
  | .attach c acts => wfK rx .cond c && treePOK c && acts.all fun a => wfK rx .act a && treePOK a

/-- The head of a block: `stdin`, or `maildir { "path" ... }`. -/
def headToks (paths : List Bytes) : List PTok :=
  if paths = [stdinStr] then [.kw .stdin] else [.kw .maildir] ++ strsToks paths

/-- A place in a written configuration where a rule can start: after the complete blocks `pre`, in the block with the
paths `paths`, after `steps`. -/
structure RulePos where
  pre : List PBlock
  paths : List Bytes
  steps : List RuleStep
deriving Repr

def RulePos.toks (p : RulePos) : List PTok :=
  p.pre.flatMap blockToks ++ (headToks p.paths ++ (.lbrace :: p.steps.flatMap RuleStep.toks))

/-- Everything written before the position is well formed (the blocks `pre` with the head of the next block are a
configuration of `ConfOK`, as far as it goes). -/
def RulePos.ok (rx : Pat → Bool) (p : RulePos) : Bool :=
  ConfOK rx p.pre && p.paths.all strOK &&
    (!decide (p.paths = [stdinStr]) || !(p.pre.any fun x => x.paths.any isStdinStr)) &&
    p.steps.all (RuleStep.ok rx)

/-- A place where an action can start: in a rule at `rp`, after `match cond` and the complete actions `acts`. -/
structure ActPos where
  rp : RulePos
  cond : CTree
  acts : List CTree
deriving Repr

def ActPos.toks (p : ActPos) : List PTok :=
  p.rp.toks ++ (.kw .mtch :: (Spec.toks .cond p.cond ++ p.acts.flatMap (Spec.toks .act)))

def ActPos.ok (rx : Pat → Bool) (p : ActPos) : Bool :=
  p.rp.ok rx && wfK rx .cond p.cond && treePOK p.cond && p.acts.all fun a => wfK rx .act a && treePOK a

/-- A place where an operand of a condition can start: in the condition of a rule at `rp`, after `steps`. -/
structure CondPos where
  rp : RulePos
  steps : List CondStep
deriving Repr

def CondPos.toks (p : CondPos) : List PTok :=
  p.rp.toks ++ (.kw .mtch :: p.steps.flatMap CondStep.toks)

def CondPos.ok (rx : Pat → Bool) (p : CondPos) : Bool :=
  p.rp.ok rx && p.steps.all (CondStep.ok rx)

/-! ## Defects -/

/-- `pre ${name} post`. -/
def macroRef (pre name post : Bytes) : Bytes := pre ++ 36 :: 123 :: (name ++ 125 :: post)

/-- A string with a reference to a macro that cannot be expanded where no macro is defined - the written
configuration has no macro definition -: the first `$` of the string starts `${name}`, and `name` is not `path`,
or the string stands where `${path}` is not allowed (`action = false`).  The string itself can be written and
read back (`strLexOK`). -/
def BadRef (action : Bool) (b : Bytes) : Prop :=
  strLexOK b = true ∧ ∃ pre name post, b = macroRef pre name post ∧ (36 : UInt8) ∉ pre ∧ (125 : UInt8) ∉ name ∧
    (isPathMacro name = true → action = false)

/-- An action in which a string is written, with the strings around it: `l1` before (they mean themselves), `l2`
behind (any strings that can be written). -/
inductive ActSite where
  | move
  | flags
  | label (l1 l2 : List Bytes)
  | exec (si bo : Bool) (l1 l2 : List Bytes)
  | addHeaderKey (value : Bytes)
  | addHeaderValue (key : Bytes)
deriving Repr

/-- The action with the string `b` at the site. -/
def ActSite.toks (b : Bytes) : ActSite → List PTok
  | .move => [.kw .move, .str b]
  | .flags => [.kw .flags, .str b]
  | .label l1 l2 => .kw .label :: strsToks (l1 ++ b :: l2)
  | .exec si bo l1 l2 =>
    .kw .exec :: ((if si then [.kw .stdin] else []) ++ ((if bo then [.kw .body] else []) ++ strsToks (l1 ++ b :: l2)))
  | .addHeaderKey v => [.kw .addheader, .str b, .str v]
  | .addHeaderValue k => [.kw .addheader, .str k, .str b]

def ActSite.ok : ActSite → Bool
  | .move | .flags => true
  | .label l1 l2 => l1.all strOK && l2.all strLexOK
  | .exec _ _ l1 l2 => l1.all strOK && l2.all strLexOK
  | .addHeaderKey v => strLexOK v
  | .addHeaderValue k => strOK k

/-- Whether the string is expanded as part of an action (`${path}` allowed): the strings of `flags` and the name
of `add-header` are not. -/
def ActSite.action : ActSite → Bool
  | .flags | .addHeaderKey _ => false
  | _ => true

/-- A condition in which a string is written. -/
inductive CondSite where
  | header (l1 l2 : List Bytes) (p : Pat)
  | isdirectory
  | command (l1 l2 : List Bytes)
deriving Repr

def CondSite.toks (b : Bytes) : CondSite → List PTok
  | .header l1 l2 p => .kw .header :: (strsToks (l1 ++ b :: l2) ++ [.pat p])
  | .isdirectory => [.kw .isdirectory, .str b]
  | .command l1 l2 => .kw .command :: strsToks (l1 ++ b :: l2)

def CondSite.ok : CondSite → Bool
  | .header l1 l2 p => l1.all strOK && l2.all strLexOK && patOK p
  | .isdirectory => true
  | .command l1 l2 => l1.all strOK && l2.all strLexOK

/-- The units a word is a prefix of (`yylex1`, `sflag`). -/
def unitMatches (w : Bytes) : List (String × Nat) :=
  Gen.scalars.filter fun (name, _) => (w.map fun b => Char.ofNat b.toNat).isPrefixOf name.toList

/-- A word (lower-case letters and `-`, starting with a letter) that is no time unit: a keyword, or a prefix of no
unit, or of several. -/
def badUnitWord (w : Bytes) : Bool :=
  (match w with | c :: _ => islower c | [] => false) && w.all isKwChar &&
    ((Gen.keywords.any fun kv => kv.1 == String.ofList (w.map fun b => Char.ofNat b.toNat)) || (unitMatches w).length != 1)

/-- The options written behind `exec` (`stdin` / `body`) hold one twice: `si` / `bo` - the option was given already. -/
def optsRepeatFrom (si bo : Bool) : List Kw → Bool
  | [] => false
  | .stdin :: r => si || optsRepeatFrom true bo r
  | .body :: r => bo || optsRepeatFrom si true r
  | _ :: _ => false

def optsRepeat (opts : List Kw) : Bool := optsRepeatFrom false false opts

/-- The text that may follow a defect: nothing, or a blank and anything. -/
def tailOK (tl : Bytes) : Bool := match tl with | [] => true | c :: _ => c == 32

/-! ## The same as trees: a configuration of `ConfOK` in which one string of one action is replaced -/

/-- The rules `r, rs...` of a block as the tree the parser builds (OR nodes, nested to the left); likewise the actions of
a rule (AND nodes). -/
def rulesTree (r : CTree) (rs : List CTree) : CTree := rs.foldl (fun acc x => .or 1 acc x) r
def actsTree (a : CTree) (as : List CTree) : CTree := as.foldl (fun acc x => .and 1 acc x) a

/-- The block with the rules `rs`. -/
def blockOfRules : List CTree → CTree
  | [] => .emptyBlock 1
  | r :: rs => .block 1 (rulesTree r rs)

/-- The rule `match c a1 a2 ...`. -/
def ruleOfActs (c : CTree) : List CTree → CTree
  | [] => .mtch 1 c (.emptyBlock 1)
  | a :: as => .mtch 1 c (actsTree a as)

/-- The action of a site as a leaf of the tree. -/
def ActSite.expr (b : Bytes) : ActSite → Expr
  | .move => .move 1 b
  | .flags => .flags 1 b
  | .label l1 l2 => .label 1 (l1 ++ b :: l2)
  | .exec si bo l1 l2 => .exec 1 si bo (l1 ++ b :: l2)
  | .addHeaderKey v => .addHeader 1 b v
  | .addHeaderValue k => .addHeader 1 k b

end Mdsort.Spec
