import Mdsort.Bytes

/-!
# Where a sequence of move / flag / flags actions sends the message (specification for C09)

mdsort.conf(5): `move` moves the message to another maildir, `flag new` / `flag !new` moves it to
the `new` resp. `cur` subdirectory, `flags` changes the flags in its name.  After the actions of a
rule the message therefore is in

  (maildir of the LAST `move`, else its own maildir) / (subdirectory of the LAST `flag`, else its own).

`dest` is that place.  `destOK` is the decidable set of action sequences on which the pinned
code agrees with it for every choice of the names (finding F12 is its complement).
-/

namespace Mdsort.Spec
open Mdsort

/-- The actions that carry a destination. -/
inductive PathAction where
  | move (maildir : Bytes)
  | flag (subdir : Bytes)
  | flags (letters : Bytes)
deriving Repr, DecidableEq

/-- Maildir of the last `move`, if any. -/
def lastMove : List PathAction → Option Bytes
  | [] => none
  | .move m :: r => (lastMove r).or (some m)
  | _ :: r => lastMove r

/-- Subdirectory of the last `flag`, if any. -/
def lastFlag : List PathAction → Option Bytes
  | [] => none
  | .flag s :: r => (lastFlag r).or (some s)
  | _ :: r => lastFlag r

/-- The documented destination `(maildir, subdir)` of a message that is in `orig`. -/
def dest (orig : Bytes × Bytes) (actions : List PathAction) : Bytes × Bytes :=
  ((lastMove actions).getD orig.1, (lastFlag actions).getD orig.2)

/-- ... as a path. -/
def destPath (orig : Bytes × Bytes) (actions : List PathAction) : Bytes :=
  (dest orig actions).1 ++ [47] ++ (dest orig actions).2

/-! ## Well-formed actions

The grammar only produces `move` with a non-empty path and `flag` with `new` or `cur`; and
everything has to fit the fixed-size buffers (`PATH_MAX` for a joined path). -/

def moveNames : List PathAction → List Bytes
  | [] => []
  | .move m :: r => m :: moveNames r
  | _ :: r => moveNames r

def flagNames : List PathAction → List Bytes
  | [] => []
  | .flag s :: r => s :: flagNames r
  | _ :: r => flagNames r

/-- No `move ""`, no `flag ""` (an empty name means "not set" in `struct match`). -/
def actionsWF (actions : List PathAction) : Bool :=
  (moveNames actions).all (!·.isEmpty) && (flagNames actions).all (!·.isEmpty)

/-- Every maildir that occurs (the message's or a `move`'s) joined with every subdirectory that
occurs (the message's or a `flag`'s) fits a buffer of `pathMax` bytes. -/
def destFits (pathMax : Nat) (orig : Bytes × Bytes) (actions : List PathAction) : Bool :=
  (orig.1 :: moveNames actions).all fun md =>
    (orig.2 :: flagNames actions).all fun sd => decide (md.length + 1 + sd.length < pathMax)

/-! ## The sequences on which the pinned code is right

`matches_merge` keeps the move and the flag entries of the match list as two first-in first-out
queues: a `move` replaces the entry before it when that is a `move`, otherwise it takes the
subdirectory of the OLDEST `flag` entry and removes that entry (and the other way round for `flag`);
whatever it does not get that way is taken from the message's original path.  What the last action
inherits therefore only depends on the type of the entry before it and on how many entries of the
other type are in the list. -/

/-- Kind of the entry an action leaves at the end of the match list. -/
inductive PathKind | move | flag | flags
deriving Repr, DecidableEq

def PathAction.kind : PathAction → PathKind
  | .move _ => .move
  | .flag _ => .flag
  | .flags _ => .flags

/-- What `destOK` tracks: the kind of the last entry (`none`: no move/flag/flags entry yet), the number
of `move` and of `flag` entries in the list, and whether a `move` / a `flag` action occurred at all. -/
structure DestSt where
  last : Option PathKind := none
  nMove : Nat := 0
  nFlag : Nat := 0
  hasMove : Bool := false
  hasFlag : Bool := false
deriving Repr, DecidableEq

def DestSt.step (st : DestSt) : PathAction → DestSt
  | .move _ =>
    if st.last = some .move then st
    else { st with last := some .move, nMove := st.nMove + 1, nFlag := st.nFlag - 1, hasMove := true }
  | .flag _ =>
    if st.last = some .flag then st
    else { st with last := some .flag, nFlag := st.nFlag + 1, nMove := st.nMove - 1, hasFlag := true }
  | .flags _ => { st with last := some .flags }

/-- Does the entry of the LAST action get the half it does not set itself from the right place? -/
def DestSt.okLast (st : DestSt) : PathAction → Bool
  | .move _ => !st.hasFlag || (st.last != some .move && st.nFlag == 1)
  | .flag _ => !st.hasMove || (st.last != some .flag && st.nMove == 1)
  | .flags _ => !st.hasMove && !st.hasFlag

def destOKFrom (st : DestSt) : List PathAction → Bool
  | [] => true
  | [a] => st.okLast a
  | a :: b :: rest => destOKFrom (st.step a) (b :: rest)

/-- The action sequences on which the pinned code moves the message to `dest`, whatever the names. -/
def destOK (actions : List PathAction) : Bool := destOKFrom {} actions

/-- A simple sufficient condition: all `flags` actions come first, and the last two actions are a
`move` and a `flag` (in either order) unless only one of the two kinds occurs at all. -/
def destSimple (actions : List PathAction) : Bool :=
  let w := actions.dropWhile (·.kind == .flags)
  w.all (·.kind != .flags) &&
    (w.all (·.kind == .move) || w.all (·.kind == .flag) ||
      match w.reverse with
      | a :: b :: _ => a.kind != b.kind
      | _ => true)

end Mdsort.Spec
