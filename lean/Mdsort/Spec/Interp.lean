import Mdsort.Bytes

/-!
# Interpolation (specification for C12)

mdsort.conf(5): `\#` is replaced by the #th subexpression of the first matching pattern of the
rule, `\#.#` by the subexpression of a specific pattern, `${macro}` by the macro's value.  A
template is read ONCE, left to right, into itokens; each token is replaced; the results are
concatenated - so nothing that was substituted is ever scanned again.

`\#\.` is the documented way to write a back-reference followed by a literal dot.  A
`\#.` that is not followed by a digit is outside this specification (`undefined`): the
implementation hands the rest to `strtoul` there.
-/

namespace Mdsort.Spec
open Mdsort

inductive ITok where
  | lit (c : UInt8)
  | ref (pat grp : Nat)
  | macro (name : Bytes)
deriving Repr, DecidableEq

/-- Outcome of reading a template. -/
inductive IToks where
  | ok (ts : List ITok)
  | invalid                -- a reported error: inumber out of range, unterminated `${`
  | undefined              -- outside the documented syntax (`\#.` not followed by a digit)
deriving Repr, DecidableEq

def IToks.cons (t : ITok) : IToks → IToks
  | .ok ts => .ok (t :: ts)
  | x => x

/-- Value of a maximal run of decimal digits and what follows it. -/
def inumber : Bytes → Nat → Nat × Bytes
  | c :: r, acc => if isdigit c then inumber r (acc * 10 + (c.toNat - 48)) else (acc, c :: r)
  | [], acc => (acc, [])

theorem inumber_length_le (s : Bytes) (acc : Nat) : (inumber s acc).2.length ≤ s.length := by
  induction s generalizing acc with
  | nil => simp [inumber]
  | cons c r ih =>
    unfold inumber
    split
    · have := ih (acc * 10 + (c.toNat - 48)); simp; omega
    · simp

def intMax : Nat := 2147483647

def itokens : Bytes → IToks
  | [] => .ok []
  | 92 :: d :: r1 =>
    if isdigit d then
      let nr := inumber (d :: r1) 0
      have h1 : nr.2.length ≤ (d :: r1).length := inumber_length_le _ _
      if nr.1 > intMax then .invalid
      else
        match h : nr.2 with
        | 46 :: d2 :: r2 =>
          if isdigit d2 then
            let kr := inumber (d2 :: r2) 0
            have h2 : kr.2.length ≤ (d2 :: r2).length := inumber_length_le _ _
            if kr.1 > intMax then .invalid
            else
              have : kr.2.length < (92 :: d :: r1).length := by
                rw [h] at h1; simp only [List.length_cons] at h1 h2 ⊢; omega
              (itokens kr.2).cons (.ref nr.1 kr.1)
          else .undefined
        | [46] => .undefined
        | 92 :: 46 :: r2 =>
          have : (46 :: r2).length < (92 :: d :: r1).length := by
            rw [h] at h1; simp only [List.length_cons] at h1 ⊢; omega
          (itokens (46 :: r2)).cons (.ref 0 nr.1)
        | rest =>
          have : rest.length < (92 :: d :: r1).length := by
            rw [h] at h1; simp only [List.length_cons] at h1 ⊢; omega
          (itokens rest).cons (.ref 0 nr.1)
    else (itokens (d :: r1)).cons (.lit 92)
  | 36 :: 123 :: r1 =>
    let name := r1.takeWhile (fun x => x != 125)
    if name.length = r1.length then .invalid           -- unterminated
    else
      have : (r1.drop (name.length + 1)).length < (36 :: 123 :: r1).length := by
        simp only [List.length_drop, List.length_cons]; omega
      (itokens (r1.drop (name.length + 1))).cons (.macro name)
  | c :: r => (itokens r).cons (.lit c)
termination_by s => s.length
decreasing_by
  all_goals simp_wf
  all_goals (try simp only [List.length_cons] at *)
  all_goals omega

/-- What each token stands for: `caps` are the capture lists of the rule's patterns in order
(an unset group is the empty string), `macros` the macro table (`none` where no macro context
exists: isdirectory and command). -/
def isubst (caps : List (List Bytes)) (macros : Option (List (Bytes × Bytes))) : ITok → Option Bytes
  | .lit c => some [c]
  | .ref p g => (caps[p]?).bind fun gs => gs[g]?
  | .macro n => macros.bind fun ms => (ms.find? (fun kv => kv.1 == n)).map (·.2)

/-- `some (some out)`: the result; `some none`: a reported error (message left untouched);
`none`: template outside the documented syntax. -/
def interp (caps : List (List Bytes)) (macros : Option (List (Bytes × Bytes))) (t : Bytes) : Option (Option Bytes) :=
  match itokens t with
  | .undefined => none
  | .invalid => some none
  | .ok ts => some ((ts.mapM (isubst caps macros)).map List.flatten)

end Mdsort.Spec
