import Mdsort.Model.Eval

/-!
# Documented rule semantics (specification for C03)

mdsort.conf(5): the rules of a block are tried in order; a rule whose condition is
false is skipped; a rule with actions that matches collects its actions and then
*stops with a match*, or with `pass` continues with the following rules, or with
`break` leaves the block (no match, what was collected is kept pending); a rule
with a nested block enters it iff its condition holds, a match in it stops, no match
continues.  At the end of a block: match iff a `pass` occurred in this block and the
block (with its sub-blocks) collected an action.  Conditions are three-valued
(match / no match / error), evaluated left to right with short-circuit.

The specification works on the *shape* the grammar builds (`parseBlock`); the truth
value of each matcher is a parameter `v` (and `aerr` says which actions cannot be
evaluated at all: an invalid flag letter, an over-long destination), so statements hold for every behaviour of
regex, date, stat and command.  Only the AST type is shared with the model.
-/

namespace Mdsort.Spec
open Mdsort Mdsort.Model

inductive Ctl | none | pass | brk
deriving Repr, DecidableEq

inductive Rule where
  | acts (lno : Nat) (cond : Expr) (acts : List Expr) (ctl : Ctl)
  | blk (lno : Nat) (cond : Expr) (rules : List Rule)
deriving Repr

def isActionExpr : Expr → Bool
  | .move .. | .flag .. | .flags .. | .discard .. | .label .. | .reject .. | .exec .. | .addHeader .. => true
  | _ => false

def isCtlExpr : Expr → Option Ctl
  | .pass _ => some .pass
  | .brk _ => some .brk
  | _ => Option.none

/-- Is this a condition built from matchers with and / or / ! ?  (No actions, blocks or
`match` inside; `attachment c` is a matcher.) -/
def isCond : Expr → Bool
  | .and _ l r => isCond l && isCond r
  | .or _ l r => isCond l && isCond r
  | .neg _ e => isCond e
  | .all _ | .body .. | .date .. | .header .. | .new _ | .old _ | .stat .. | .command .. => true
  | .attachment _ e => isCond e
  | _ => false

/-- The AND-chain of actions the grammar builds for `expractions` (left nested). -/
def andChain : Expr → List Expr
  | .and _ l r => andChain l ++ [r]
  | e => [e]

/-- Split an action list into the plain actions and the control action, which must be last. -/
def splitActs (as : List Expr) : Option (List Expr × Ctl) :=
  match as.getLast? with
  | Option.none => Option.none
  | some last =>
    match isCtlExpr last with
    | some c => if as.dropLast.all isActionExpr then some (as.dropLast, c) else Option.none
    | Option.none => if as.all isActionExpr then some (as, .none) else Option.none

mutual
/-- One `match cond rhs`. -/
def parseRule : Expr → Option Rule
  | .mtch lno c rhs =>
    if !isCond c then Option.none
    else
      match rhs with
      | .block _ e => (parseRules e).map fun rs => Rule.blk lno c rs
      | _ => (splitActs (andChain rhs)).map fun (as, ctl) => Rule.acts lno c as ctl
  | _ => Option.none

/-- The left-nested OR chain of rules of a block. -/
def parseRules : Expr → Option (List Rule)
  | .or _ l r =>
    match parseRules l, parseRule r with
    | some ls, some x => some (ls ++ [x])
    | _, _ => Option.none
  | e => (parseRule e).map fun x => [x]
end

def parseBlock : Expr → Option (List Rule)
  | .block _ e => parseRules e
  | _ => Option.none

/-! ## `pass` / `break` anywhere in the action list

The grammar (`expractions`) accepts `pass` and `break` at any position of an action list, any number
of times (`expr_validate` only rejects `discard` / `reject` next to another action).  mdsort.conf(5)
lists them among the actions of a rule - "Next comes one or many actions" - and attaches their
meaning to the rule, not to a position in the list: `pass` = "Continue evaluation of the current
block of rules up to the next matching rule", `break` = "Abort evaluation of the current block of
rules".  Documented reading of a rule `match c x1 ... xn`:

* the actions of the rule are ALL the `xi` that are not `pass` / `break`, in the order listed -
  those standing before a `pass` / `break` and those standing after it;
* the rule has the control `pass` iff some `xi` is `pass`, `break` iff some `xi` is `break`; repeating
  a control action changes nothing;
* a list that contains both `pass` and `break` asks to continue and to abort the same block: the
  manual gives it no meaning, it is outside the specification (`ctlOfList = none`, the parse
  functions return `none`).

`splitActsW` / `parseRuleW` / `parseBlockW` are `splitActs` / `parseRule` / `parseBlock` with
this reading; on a list whose only control action is its last element they agree with them. -/

def isPassExpr (x : Expr) : Bool := isCtlExpr x == some Ctl.pass
def isBrkExpr (x : Expr) : Bool := isCtlExpr x == some Ctl.brk

/-- The control of a rule whose action list is `xs`; `none`: both `pass` and `break` occur. -/
def ctlOfList (xs : List Expr) : Option Ctl :=
  if xs.any isPassExpr && xs.any isBrkExpr then Option.none
  else some (if xs.any isPassExpr then Ctl.pass else if xs.any isBrkExpr then Ctl.brk else Ctl.none)

/-- The plain actions of the list in the order listed, and the control of the rule. -/
def splitActsW (xs : List Expr) : Option (List Expr × Ctl) :=
  match ctlOfList xs with
  | Option.none => Option.none
  | some ctl =>
    let as := xs.filter fun x => (isCtlExpr x).isNone
    if !xs.isEmpty && as.all isActionExpr then some (as, ctl) else Option.none

mutual
/-- One `match cond rhs`, control actions anywhere. -/
def parseRuleW : Expr → Option Rule
  | .mtch lno c rhs =>
    if !isCond c then Option.none
    else
      match rhs with
      | .block _ e => (parseRulesW e).map fun rs => Rule.blk lno c rs
      | _ => (splitActsW (andChain rhs)).map fun (as, ctl) => Rule.acts lno c as ctl
  | _ => Option.none

def parseRulesW : Expr → Option (List Rule)
  | .or _ l r =>
    match parseRulesW l, parseRuleW r with
    | some ls, some x => some (ls ++ [x])
    | _, _ => Option.none
  | e => (parseRuleW e).map fun x => [x]
end

def parseBlockW : Expr → Option (List Rule)
  | .block _ e => parseRulesW e
  | _ => Option.none

/-- Three-valued condition with left-to-right short-circuit. -/
def condVal (v : Expr → Tri) : Expr → Tri
  | .and _ l r => match condVal v l with
    | .match => condVal v r
    | x => x
  | .or _ l r => match condVal v l with
    | .nomatch => condVal v r
    | x => x
  | .neg _ e => match condVal v e with
    | .error => .error
    | .match => .nomatch
    | .nomatch => .match
  | e => v e

inductive BRes | err | matched | nomatch | broke
deriving Repr, DecidableEq

/-- State of the specification run: pending actions and whether the result of some nested
block was decided by a pass or action pending from outside it (the pinned finding). -/
structure Run where
  pend : List Expr
  crosses : Bool
deriving Repr

mutual
def evalRules (v : Expr → Tri) (aerr : Expr → Bool) (nested outerPass : Bool) (start : Nat) :
    List Rule → Bool → Run → BRes × Run
  | [], passSeen, run =>
    let own := run.pend.length - start
    let crosses := run.crosses ||
      (nested && (outerPass || (passSeen && own == 0 && start > 0)))
    (if passSeen && own > 0 then .matched else .nomatch, { run with crosses := crosses })
  | r :: rest, passSeen, run =>
    match r with
    | .acts _ c as ctl =>
      match condVal v c with
      | .error => (.err, run)
      | .nomatch => evalRules v aerr nested outerPass start rest passSeen run
      | .match =>
        -- an action that cannot be evaluated (invalid flag letter, over-long path) is an error
        if as.any aerr then (.err, run) else
        let run1 := { run with pend := run.pend ++ as }
        match ctl with
        | .pass => evalRules v aerr nested outerPass start rest true run1
        | .brk => (.broke, { run1 with crosses := run1.crosses || (nested && passSeen) })
        | .none => (.matched, run1)
    | .blk _ c rs =>
      match condVal v c with
      | .error => (.err, run)
      | .nomatch => evalRules v aerr nested outerPass start rest passSeen run
      | .match =>
        match evalRules v aerr true (outerPass || passSeen) run.pend.length rs false run with
        | (.err, run1) => (.err, run1)
        | (.matched, run1) => (.matched, run1)
        | (_, run1) => evalRules v aerr nested outerPass start rest passSeen run1
end

/-- Result of the root block: the documented outcome and the actions to perform. -/
structure Outcome where
  res : Tri
  actions : List Expr
  crosses : Bool
deriving Repr

def evalBlock (v : Expr → Tri) (aerr : Expr → Bool) (rules : List Rule) : Outcome :=
  match evalRules v aerr false false 0 rules false { pend := [], crosses := false } with
  | (.err, run) => { res := .error, actions := [], crosses := run.crosses }
  | (.matched, run) => { res := .match, actions := run.pend, crosses := run.crosses }
  | (_, run) => { res := .nomatch, actions := [], crosses := run.crosses }

/-- (type, line) of an action. -/
def actKey : Expr → Option (MType × Nat)
  | .move l _ => some (.move, l) | .flag l _ => some (.flag, l) | .flags l _ => some (.flags, l)
  | .discard l => some (.discard, l) | .label l _ => some (.label, l) | .reject l => some (.reject, l)
  | .exec l _ _ _ => some (.exec, l) | .addHeader l _ _ => some (.addHeader, l)
  | _ => Option.none

def isMoveFlag (k : MType × Nat) : Bool := k.1 == .move || k.1 == .flag

/-- What is compared with the executed plan: the actions other than move/flag in order, and
the last move-or-flag (consecutive and complementary move/flag actions are combined by
`matches_merge`; where the combined action leads is C09's subject). -/
def planOf (keys : List (MType × Nat)) : List (MType × Nat) × Option (MType × Nat) :=
  (keys.filter (fun k => !isMoveFlag k), (keys.filter isMoveFlag).getLast?)

end Mdsort.Spec
