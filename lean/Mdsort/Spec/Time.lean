import Mdsort.Bytes

/-!
# Dates (specification for C15)

The instant denoted by an RFC 5322 date is the civil time read as UTC minus the zone offset;
`±hhmm` denotes `±(3600·hh + 60·mm)` seconds for `hh ≤ 23`, `mm ≤ 59`.  A condition
`date > N unit` holds iff `now − instant > N·unit` (resp. `<`).  Units: the documented table.
-/

namespace Mdsort.Spec
open Mdsort

/-- Days since 1970-01-01 of a proleptic Gregorian civil date, by counting: days in the years
before `y`, in the months before `m` (1-based), plus `d - 1`. -/
def isLeap (y : Nat) : Bool := (y % 4 == 0 && y % 100 != 0) || y % 400 == 0

def daysInMonth (y m : Nat) : Nat :=
  match m with
  | 2 => if isLeap y then 29 else 28
  | 4 | 6 | 9 | 11 => 30
  | _ => 31

def daysBeforeYear (y : Nat) : Int :=
  -- days from 0001-01-01 to y-01-01, minus the same for 1970
  let f (y : Nat) : Int := (365 * (y - 1) + (y - 1) / 4 - (y - 1) / 100 + (y - 1) / 400 : Nat)
  f y - f 1970

def daysBeforeMonth (y m : Nat) : Nat := ((List.range (m - 1)).map fun i => daysInMonth y (i + 1)).sum

/-- Seconds since the epoch of a civil date-time read as UTC (years ≥ 1). -/
def epoch (y mon1 d h mi s : Nat) : Int :=
  (daysBeforeYear y + daysBeforeMonth y mon1 + (d : Int) - 1) * 86400 + h * 3600 + mi * 60 + s

/-- `±hhmm` -/
def zoneOffset (sign : Int) (hh mm : Nat) : Int := sign * (3600 * hh + 60 * mm)

/-- The documented unit table. -/
def units : List (String × Nat) :=
  [("seconds", 1), ("minutes", 60), ("hours", 3600), ("days", 86400), ("weeks", 604800),
   ("months", 2592000), ("years", 31536000)]

/-- A lexeme selects the unit it is an unambiguous prefix of. -/
def unitOf (lexeme : String) : Option Nat :=
  match units.filter (fun u => lexeme.toList.isPrefixOf u.1.toList) with
  | [u] => some u.2
  | _ => none

end Mdsort.Spec
