import Mdsort.Spec.Time

/-!
# The date-time of RFC 5322 section 3.3 (specification for C15, independent of the model)

```
date-time   = [ day-of-week "," ] date time [CFWS]
day-of-week = [FWS] day-name                      day-name = "Mon" / "Tue" / "Wed" / "Thu" / "Fri" / "Sat" / "Sun"
date        = day month year
day         = [FWS] 1*2DIGIT FWS
month       = "Jan" / "Feb" / ... / "Dec"
year        = FWS 4*DIGIT FWS
time        = time-of-day zone
time-of-day = hour ":" minute [ ":" second ]       hour = minute = second = 2DIGIT
zone        = FWS ( "+" / "-" ) 4DIGIT
```

A date-time is a structure of fields (`DateTime`); the text is produced by a printer (`renderDate`) from the fields
and the choices the grammar leaves open (`DateLayout`): the white space at each FWS / [FWS], one or two digits for a
day below 10, the letter case of the two names (ABNF literals are case-insensitive, RFC 5234 2.3) and the trailing
[CFWS] (white space and nested comments).  `WellFormed` is the grammar plus the semantic rules of 3.3 (year 1900 or
later, day within the month, 00:00:00..23:59:60, zone minutes 00..59, a written day of week is the day implied by the
date).  `instant` is the instant the RFC defines: the civil time read as UTC (`Spec.epoch`, day counting) minus the
zone offset (`Spec.zoneOffset`); a missing `second` is 0.

FWS is taken AFTER unfolding: one or more SP / HTAB (the `[*WSP CRLF]` of the folding is removed before a header is
interpreted, RFC 5322 2.2.3).  Out of scope: the obsolete forms of section 4.3 (`obs-day-of-week`, `obs-day`,
two-digit `obs-year`, `obs-hour` .. with CFWS between the elements of the time, the alphabetic `obs-zone`: `GMT`, `EST`,
military zones), and CFWS anywhere but at the end.
-/

namespace Mdsort.Spec
open Mdsort

/-- `day-name`, in the order of the grammar. -/
def dayNames : List String := ["Mon", "Tue", "Wed", "Thu", "Fri", "Sat", "Sun"]

/-- `month`, in the order of the grammar; month `m` (1..12) is entry `m - 1`. -/
def monthNames : List String := ["Jan", "Feb", "Mar", "Apr", "May", "Jun", "Jul", "Aug", "Sep", "Oct", "Nov", "Dec"]

def nameBytes (t : List String) (i : Nat) : Bytes := ofString (t.getD i "")

/-- The fields of a date-time. -/
structure DateTime where
  dayOfWeek : Option Nat      -- index into `dayNames` when `day-of-week ","` is written
  day : Nat
  month : Nat                 -- 1..12
  year : Nat
  hour : Nat
  minute : Nat
  second : Option Nat         -- `[ ":" second ]`
  zonePlus : Bool             -- "+" / "-"
  zoneHour : Nat              -- first two digits of the zone
  zoneMinute : Nat            -- last two digits of the zone
deriving Repr, DecidableEq

/-- What the grammar leaves open. -/
structure DateLayout where
  fwsDow : Bytes := []        -- [FWS] in front of the day name
  dowCase : List Bool := []   -- letters of the day name written in the other case
  fwsDay : Bytes := [32]      -- [FWS] in front of the day
  dayOneDigit : Bool := false -- a day below 10 written with one digit
  fwsMonth : Bytes := [32]    -- FWS between day and month
  monCase : List Bool := []   -- letters of the month name written in the other case
  fwsYear : Bytes := [32]     -- FWS between month and year
  fwsTime : Bytes := [32]     -- FWS between year and hour
  fwsZone : Bytes := [32]     -- FWS in front of the zone
  trailer : Bytes := []       -- [CFWS] behind the zone
deriving Repr, DecidableEq

/-! ## the printer -/

def digit (n : Nat) : UInt8 := UInt8.ofNat (48 + n % 10)
def digits2 (n : Nat) : Bytes := [digit (n / 10), digit n]
def digits4 (n : Nat) : Bytes := [digit (n / 1000), digit (n / 100), digit (n / 10), digit n]

/-- `4*DIGIT`: four digits, more for a year above 9999. -/
def yearDigits (y : Nat) : Bytes :=
  if y < 10000 then digits4 y else (Nat.toDigits 10 y).map fun c => UInt8.ofNat c.toNat

/-- `1*2DIGIT`. -/
def dayDigits (d : Nat) (one : Bool) : Bytes := if one && decide (d < 10) then [digit d] else digits2 d

/-- A letter in the other case; every other byte unchanged. -/
def flipCase (c : UInt8) : UInt8 := if isupper c then c + 32 else if islower c then c - 32 else c

/-- The name with the marked letters in the other case. -/
def recase : List Bool → Bytes → Bytes
  | _, [] => []
  | [], s => s
  | b :: m, c :: s => (if b then flipCase c else c) :: recase m s

/-- `[ day-of-week "," ] date time [CFWS]` as text. -/
def renderDate (dt : DateTime) (l : DateLayout) : Bytes :=
  (match dt.dayOfWeek with
   | none => []
   | some i => l.fwsDow ++ (recase l.dowCase (nameBytes dayNames i) ++ [44])) ++
  (l.fwsDay ++ (dayDigits dt.day l.dayOneDigit ++ (l.fwsMonth ++
  (recase l.monCase (nameBytes monthNames (dt.month - 1)) ++
  (l.fwsYear ++ (yearDigits dt.year ++ (l.fwsTime ++
  (digits2 dt.hour ++ (58 :: (digits2 dt.minute ++
  ((match dt.second with
    | none => []
    | some s => 58 :: digits2 s) ++
  (l.fwsZone ++ ((if dt.zonePlus then 43 else 45) :: (digits2 dt.zoneHour ++ (digits2 dt.zoneMinute ++ l.trailer)))))))))))))))

/-! ## the grammar's side conditions -/

def isWsp (c : UInt8) : Bool := c == 32 || c == 9

/-- `[FWS]` after unfolding. -/
def isOptFws (w : Bytes) : Bool := w.all isWsp

/-- `FWS` after unfolding: `1*WSP`. -/
def isFws (w : Bytes) : Bool := !w.isEmpty && w.all isWsp

/-- `ctext`: printable US-ASCII except `(`, `)`, `\`. -/
def isCtext (c : UInt8) : Bool := (33 ≤ c && c ≤ 39) || (42 ≤ c && c ≤ 91) || (93 ≤ c && c ≤ 126)

/-- `[CFWS]`: white space and (nested) comments `( *([FWS] (ctext / quoted-pair / comment)) [FWS] )`; the first argument is
the nesting depth. -/
def isCfws : Nat → Bytes → Bool
  | d, [] => d == 0
  | 0, c :: r => if isWsp c then isCfws 0 r else if c == 40 then isCfws 1 r else false
  | d + 1, c :: r =>
    if c == 40 then isCfws (d + 2) r
    else if c == 41 then isCfws d r
    else if c == 92 then
      match r with
      | [] => false
      | q :: r' => ((33 ≤ q && q ≤ 126) || isWsp q) && isCfws (d + 1) r'
    else (isCtext c || isWsp c) && isCfws (d + 1) r

/-- Day of the week of a civil date as an index into `dayNames` (1970-01-01 was a Thursday). -/
def weekdayOf (y m d : Nat) : Nat :=
  ((daysBeforeYear y + daysBeforeMonth y m + (d : Int) - 1 + 3) % 7).toNat

/-- The grammar of section 3.3 (first block) and its semantic rules (second block). -/
def WellFormed (dt : DateTime) (l : DateLayout) : Prop :=
  (isOptFws l.fwsDow = true ∧ isOptFws l.fwsDay = true ∧ isFws l.fwsMonth = true ∧ isFws l.fwsYear = true ∧
   isFws l.fwsTime = true ∧ isFws l.fwsZone = true ∧ isCfws 0 l.trailer = true ∧
   (∀ i ∈ dt.dayOfWeek, i < 7) ∧ dt.zoneHour ≤ 99) ∧
  (1900 ≤ dt.year ∧ 1 ≤ dt.month ∧ dt.month ≤ 12 ∧ 1 ≤ dt.day ∧ dt.day ≤ daysInMonth dt.year dt.month ∧
   dt.hour ≤ 23 ∧ dt.minute ≤ 59 ∧ (∀ s ∈ dt.second, s ≤ 60) ∧ dt.zoneMinute ≤ 59 ∧
   (∀ i ∈ dt.dayOfWeek, i = weekdayOf dt.year dt.month dt.day))

instance (dt : DateTime) (l : DateLayout) : Decidable (WellFormed dt l) := by unfold WellFormed; exact inferInstance

/-! ## the instant -/

/-- The civil time of the text read as UTC, in seconds since the epoch. -/
def civilSeconds (dt : DateTime) : Int :=
  epoch dt.year dt.month dt.day dt.hour dt.minute (dt.second.getD 0)

/-- The instant a date-time denotes: its civil time is the local time of a zone `±hhmm` east of UTC. -/
def instant (dt : DateTime) : Int :=
  civilSeconds dt - zoneOffset (if dt.zonePlus then 1 else -1) dt.zoneHour dt.zoneMinute

end Mdsort.Spec
