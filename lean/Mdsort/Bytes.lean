/-!
# Bytes: the byte-string vocabulary shared by models and specifications

A C string is modelled as the list of its bytes *without* the terminating NUL; a
`char *` into a buffer is the remaining suffix.  `cstr` is the view a C caller
has of an arbitrary byte buffer (everything up to the first NUL).

ctype functions are the ASCII ones: mdsort calls `setlocale(LC_CTYPE, "")` and the
locales of this image (C, C.utf8, POSIX) classify bytes 0..255 exactly like this
(checked by the correspondence harness op `ctype`).
-/

abbrev Bytes := List UInt8

namespace Mdsort

/-- What a C caller sees of a buffer: bytes up to the first NUL. -/
def cstr (s : Bytes) : Bytes := s.takeWhile (fun c => !(c == 0))

/-- `isspace` in the C locale: SP, HT, LF, VT, FF, CR. -/
def isspace (c : UInt8) : Bool := c == 32 || (9 ≤ c && c ≤ 13)
def isdigit (c : UInt8) : Bool := 48 ≤ c && c ≤ 57
def isupper (c : UInt8) : Bool := 65 ≤ c && c ≤ 90
def islower (c : UInt8) : Bool := 97 ≤ c && c ≤ 122
def isalpha (c : UInt8) : Bool := isupper c || islower c
def tolower (c : UInt8) : UInt8 := if isupper c then c + 32 else c
def toupper (c : UInt8) : UInt8 := if islower c then c - 32 else c

/-- `nspaces`: `strspn(str, " \t")`. -/
def isblank (c : UInt8) : Bool := c == 32 || c == 9
def nspaces (s : Bytes) : Nat := (s.takeWhile isblank).length

/-- `strncmp(s, p, strlen p) == 0` on C strings without NUL. -/
def startsWith (s p : Bytes) : Bool := p.isPrefixOf s

/-- `strchr(s, c)`: suffix starting at the first `c`. -/
def strchr (s : Bytes) (c : UInt8) : Option Bytes :=
  match s with
  | [] => none
  | x :: r => if x == c then some (x :: r) else strchr r c

/-- `strstr(s, p)` for non-empty `p`: number of bytes before the first occurrence. -/
def findSub (p : Bytes) : Bytes → Option Nat
  | [] => if p.isEmpty then some 0 else none
  | x :: r => if p.isPrefixOf (x :: r) then some 0 else (findSub p r).map (· + 1)

/-- `strcasecmp` in the C locale, as an ordering on byte strings. -/
def strcasecmp : Bytes → Bytes → Ordering
  | [], [] => .eq
  | [], _ :: _ => .lt
  | _ :: _, [] => .gt
  | a :: as, b :: bs =>
    let la := tolower a; let lb := tolower b
    if la < lb then .lt else if la > lb then .gt else strcasecmp as bs

def caseEq (a b : Bytes) : Bool := strcasecmp a b == .eq

def ofString (s : String) : Bytes := s.toUTF8.toList

theorem cstr_no_nul (s : Bytes) : ∀ b ∈ cstr s, b ≠ 0 := by
  induction s with
  | nil => simp [cstr]
  | cons x r ih =>
    intro b hb
    unfold cstr at hb ih
    by_cases hx : x = 0
    · simp [hx] at hb
    · simp [hx] at hb
      rcases hb with rfl | hb
      · exact hx
      · exact ih b (by simpa using hb)

theorem cstr_of_no_nul {s : Bytes} (h : ∀ b ∈ s, b ≠ 0) : cstr s = s := by
  induction s with
  | nil => rfl
  | cons x r ih =>
    have hx : x ≠ 0 := h x (by simp)
    have hr : ∀ b ∈ r, b ≠ 0 := fun b hb => h b (by simp [hb])
    have := ih hr
    unfold cstr at this ⊢
    simpa [hx] using this

end Mdsort
