import Mdsort.Proofs.Header
import Mdsort.Proofs.HeaderCond

/-!
# C10 - header conditions see headers the way a mail reader does

`Model.*` transcribes message.c (`message_parse_headers`, `searchheader`,
`message_get_header`, `unfoldheader`, `decodeheader`); `Spec.*` reads the message
line by line (Spec/Message.lean).  What POSIX ERE matching does is the platform
library's business: the value handed to `regexec` is what these theorems fix, for
every message.  `C10_header_cond` is the evaluator part (the two loops of
`expr_eval_header`): which occurrence decides and supplies the captures, for every regex
engine; `C10_date_header` the same for `date header`.
-/

namespace Mdsort.Props
open Mdsort Mdsort.Model

/-- `searchheader` on any table sorted by the case-insensitive comparator returns the
first index and the length of the maximal run of equal names, or -1 iff there is none:
for all table sizes and all duplicate arrangements. -/
theorem C10_binary_search (hs : List Hdr) (key : Bytes) (hsorted : Proofs.KeySorted hs) :
    match searchHeader hs key with
    | none => hs.filter (Proofs.keyMatch key) = []
    | some (i, n) => 0 < n ∧ (hs.drop i).take n = hs.filter (Proofs.keyMatch key) ∧
        (∀ h ∈ hs.take i, Proofs.keyMatch key h = false) ∧
        (∀ h ∈ hs.drop (i + n), Proofs.keyMatch key h = false) :=
  Proofs.searchHeader_spec hs key hsorted

/-- (audit au2) Non-vacuity of `KeySorted`: a table as `message_parse_headers` leaves it - sorted by `strcasecmp`,
three occurrences of `Received` in three letter cases kept in file order (ids 1, 4, 5) - and what the search
returns on it. -/
def C10_table : List Hdr :=
  [⟨3, ofString "cc", ofString "x"⟩, ⟨1, ofString "Received", ofString "a"⟩, ⟨4, ofString "received", ofString "b"⟩,
   ⟨5, ofString "RECEIVED", ofString "c"⟩, ⟨2, ofString "To", ofString "y"⟩]

example : Proofs.KeySorted C10_table := by unfold Proofs.KeySorted; decide +kernel

example : searchHeader C10_table (ofString "received") = some (1, 3) ∧ searchHeader C10_table (ofString "TO") = some (4, 1) ∧
    searchHeader C10_table (ofString "Date") = none := by decide +kernel

/-- Unfolding yields one logical line: no newline survives, and it is the documented
unfolding (newlines and the TABs starting a continuation line dropped). -/
theorem C10_unfold (v : Bytes) : unfoldHeader v = Spec.unfold v ∧ (10 : UInt8) ∉ unfoldHeader v :=
  ⟨Proofs.unfoldHeader_eq_spec v, Proofs.unfoldHeader_no_newline v⟩

/-- (audit au2) What `Spec.unfold` is: the words of a TAB-folded value are glued together (RFC 5322 unfolding would
keep the TAB), a SPACE-folded one keeps its space, an unfolded value keeps its TABs. -/
example : Spec.unfold (ofString "foo\n\tbar") = ofString "foobar" ∧ Spec.unfold (ofString "foo\n bar") = ofString "foo bar" ∧
    Spec.unfold (ofString "foo\n\t bar") = ofString "foo bar" ∧ Spec.unfold (ofString "\tfoo\tbar") = ofString "\tfoo\tbar" := by
  decide +kernel

/-- For every well-formed message and every field name: the values a header condition is
applied to are the decoded logical values of exactly the occurrences whose name equals the
requested one case-insensitively, in file order; absent iff there is no such occurrence.
Domain: `Spec.read m = some _` is `Spec.WF m` of C08 - it also demands an empty line after the header block
and a body that does not start with an empty line, which header lookup does not depend on; messages with CRLF
line ends, header-only messages and bodies starting with an empty line are NOT covered by this theorem (nor by
`C10_header_cond*` / `C10_date_header`), see design-notes/audit-C07-C12.md. -/
theorem C10_lookup (m : Bytes) (fs : List (Bytes × Bytes)) (b : Bytes) (name : Bytes)
    (h : Spec.read m = some (fs, b)) :
    getHeader (parseMessage m) name =
      (if (Spec.headerValues fs name).isEmpty then none else some (Spec.headerValues fs name)) :=
  Proofs.getHeader_eq_spec m fs b name h

/-- The flags every pattern is compiled with (table regenerated from expr.c by tools/gen_tables.py; this is a
statement about that generated constant, closed by `decide`, not about a model function).  NOT stated anywhere:
that the pattern flag `i` adds `REG_ICASE` - `Pat.icase` is a field the oracle `env.rx` receives, and what the
oracle does with it is the platform `regcomp`'s business, compared by the correspondence run only. -/
theorem C10_regflags : Gen.regcompBaseFlags = ["REG_EXTENDED", "REG_NEWLINE"] := by decide

/-! ## The condition as a whole: `header { names } /pattern/`

`Spec.headerCands fs names` lists the values looked at, names in the order configured and
for each name its occurrences in file order; `Spec.firstNonNomatch` is the first of them on
which the regex engine answers anything but "no match".  `env.rx` is an arbitrary function. -/

/-- What is in the candidate list: `(k, v)` with `k` a configured name and `v` the decoded
logical value of a field whose name equals `k` case-insensitively. -/
theorem C10_header_cands_mem (fs : List (Bytes × Bytes)) (names : List Bytes) (k v : Bytes) :
    (k, v) ∈ Spec.headerCands fs names ↔
      k ∈ names ∧ ∃ f ∈ fs, Spec.nameEq f.1 k = true ∧ v = Spec.logical f.2 :=
  Proofs.mem_headerCands fs names k v

/-- What "first" means: everything before it is a "no match", it is not. -/
theorem C10_first_candidate (rx : Bytes → RxRes) (cands : List (Bytes × Bytes)) :
    (Spec.firstNonNomatch rx cands = none ↔ ∀ c ∈ cands, rx c.2 = .nomatch) ∧
    (∀ c, Spec.firstNonNomatch rx cands = some c →
      rx c.2 ≠ .nomatch ∧ ∃ pre post, cands = pre ++ c :: post ∧ ∀ x ∈ pre, rx x.2 = .nomatch) :=
  ⟨Proofs.firstNonNomatch_none rx cands, fun c => Proofs.firstNonNomatch_some rx cands c⟩

/-- A header condition on a well-formed message, for every regex engine, every list of names,
every part index and every state: no candidate answers → no match, state unchanged; otherwise
the first candidate that answers decides: a regex error is an error (state unchanged), a match
appends exactly one entry - type header, this line and part, the captures of that value (after
the `l`/`u` flags), the name and value in a dry run - and changes nothing else.  It never
errors on its own (`matches_append` cannot fail for a header entry). -/
theorem C10_header_cond (env : Env) (root : Msg) (m : Bytes) (fs : List (Bytes × Bytes)) (b : Bytes)
    (h : Spec.read m = some (fs, b)) (lno : Nat) (names : List Bytes) (p : Pat) (part : Nat) (st : St) :
    eval env root (.header lno names p) part (parseMessage m) st =
      match Spec.firstNonNomatch (env.rx p) (Spec.headerCands fs names) with
      | none => (.nomatch, st)
      | some (k, v) =>
        match env.rx p v with
        | .nomatch => (.nomatch, st)      -- excluded by `C10_first_candidate`
        | .error => (.error, st)
        | .ok groups =>
          (.match, { st with ml := st.ml ++ [Spec.headerEntry env.dryrun lno part p k v groups] }) :=
  Proofs.eval_header_spec env root m fs b h lno names p part st

/-- It matches iff some candidate matches and no candidate before it is a regex error. -/
theorem C10_header_cond_iff (env : Env) (root : Msg) (m : Bytes) (fs : List (Bytes × Bytes)) (b : Bytes)
    (h : Spec.read m = some (fs, b)) (lno : Nat) (names : List Bytes) (p : Pat) (part : Nat) (st : St) :
    (eval env root (.header lno names p) part (parseMessage m) st).1 = .match ↔
      ∃ pre c post g, Spec.headerCands fs names = pre ++ c :: post ∧ env.rx p c.2 = .ok g ∧
        ∀ x ∈ pre, env.rx p x.2 ≠ .error :=
  Proofs.eval_header_match_iff env root m fs b h lno names p part st

/-- No match iff no occurrence of any listed name matches; error iff the first candidate that
is not a "no match" is a regex error; the state only changes on a match. -/
theorem C10_header_cond_other (env : Env) (root : Msg) (m : Bytes) (fs : List (Bytes × Bytes)) (b : Bytes)
    (h : Spec.read m = some (fs, b)) (lno : Nat) (names : List Bytes) (p : Pat) (part : Nat) (st : St) :
    ((eval env root (.header lno names p) part (parseMessage m) st).1 = .nomatch ↔
      ∀ c ∈ Spec.headerCands fs names, env.rx p c.2 = .nomatch) ∧
    ((eval env root (.header lno names p) part (parseMessage m) st).1 = .error ↔
      ∃ pre c post, Spec.headerCands fs names = pre ++ c :: post ∧ env.rx p c.2 = .error ∧
        ∀ x ∈ pre, env.rx p x.2 = .nomatch) ∧
    ((eval env root (.header lno names p) part (parseMessage m) st).1 ≠ .match →
      (eval env root (.header lno names p) part (parseMessage m) st).2 = st) :=
  ⟨Proofs.eval_header_nomatch_iff env root m fs b h lno names p part st,
   Proofs.eval_header_error_iff env root m fs b h lno names p part st,
   Proofs.eval_header_state env root m fs b h lno names p part st⟩

/-- `matches_append` cannot fail for an entry whose type is not flagged `EXPR_FLAG_PATH` in
the table generated from `expr_alloc`; header (and date) entries are not. -/
theorem C10_append_nonpath (env : Env) (ml : MatchList) (mh : Match) (hp : mh.ty.isPath = false) :
    (matchesAppend env ml mh).2 = false :=
  Proofs.matchesAppend_nonpath env ml mh hp

/-- `date header < age` / `> age`: the decoded logical value of the FIRST `Date:` field is
parsed; no such field = no match; unparsable = error; then the age test; the `.*` pattern on
the text supplies the entry (for every `strptime`, zone table and regex engine). -/
theorem C10_date_header (env : Env) (root : Msg) (m : Bytes) (fs : List (Bytes × Bytes)) (b : Bytes)
    (h : Spec.read m = some (fs, b)) (lno : Nat) (cmp : DateCmp) (age : Nat) (part : Nat) (st : St) :
    eval env root (.date lno .header cmp age) part (parseMessage m) st =
      match (Spec.headerValues fs (ofString "Date")).head? with
      | none => (.nomatch, st)
      | some d =>
        match timeParse env.strptime env.zoneName d with
        | none => (.error, st)
        | some t =>
          if dateMatches cmp age env.now t then
            match env.rx { src := [46, 42] } d with
            | .nomatch => (.nomatch, st)
            | .error => (.error, st)
            | .ok groups => (.match, { st with ml := st.ml ++ [Spec.dateEntry env.dryrun lno part d groups] })
          else (.nomatch, st) :=
  Proofs.eval_date_header_spec env root m fs b h lno cmp age part st

/-! Non-vacuity: the message `B: b\nA: =?utf-8?Q?a?=\nb: x\n\nhi`, names `a` then `b`, a regex
engine that matches exactly the value `a` (capturing it) and errs on `x`. -/

def C10_sample : Bytes := ofString "B: b\nA: =?utf-8?Q?a?=\nb: x\n\nhi"

def C10_sampleRx : Pat → Bytes → RxRes := fun _ v =>
  if v == [97] then .ok [some (0, 1)] else if v == [120] then .error else .nomatch

example :
    Spec.read C10_sample =
      some ([(ofString "B", ofString "b"), (ofString "A", ofString "=?utf-8?Q?a?="), (ofString "b", ofString "x")],
        ofString "hi") ∧
    Spec.headerCands
      [(ofString "B", ofString "b"), (ofString "A", ofString "=?utf-8?Q?a?="), (ofString "b", ofString "x")]
      [ofString "a", ofString "b"] =
        [(ofString "a", ofString "a"), (ofString "b", ofString "b"), (ofString "b", ofString "x")] ∧
    -- names `a, b`: the `A:` field decides, although `B:` comes first in the file and `b: x` errs
    Spec.firstNonNomatch (C10_sampleRx {src := []})
      [(ofString "a", ofString "a"), (ofString "b", ofString "b"), (ofString "b", ofString "x")] =
        some (ofString "a", ofString "a") ∧
    -- names `b` only: `B: b` is no match, then `b: x` is the regex error
    Spec.firstNonNomatch (C10_sampleRx {src := []}) [(ofString "b", ofString "b"), (ofString "b", ofString "x")] =
        some (ofString "b", ofString "x") ∧
    (Spec.headerEntry true 7 0 {src := []} (ofString "a") (ofString "a") [some (0, 1)]).subs =
        [{ str := [97], off := some (0, 1) }] := by
  decide +kernel

def C10_sampleEnv (dry : Bool) : Env :=
  { rx := C10_sampleRx, command := fun _ => 0, isDir := fun _ => false, now := 0, strptime := fun _ => none,
    zoneName := fun _ => none, fileTime := fun _ => none, dryrun := dry, path := [] }

def C10_sampleFields : List (Bytes × Bytes) :=
  [(ofString "B", ofString "b"), (ofString "A", ofString "=?utf-8?Q?a?="), (ofString "b", ofString "x")]

/-- The theorem applied: in a dry run, from any state, `header { "a" "b" } /.../` on the sample
matches and appends one entry carrying the capture `a`, the name `a` and the value `a`;
`header { "b" }` is an error and leaves the state alone. -/
example (root : Msg) (st : St) :
    eval (C10_sampleEnv true) root (.header 7 [ofString "a", ofString "b"] { src := [] }) 0 (parseMessage C10_sample) st =
      (.match, { st with ml := st.ml ++ [{ ty := .header, lno := 7, part := 0, pat := some { src := [] },
                                           subs := [{ str := [97], off := some (0, 1) }],
                                           key := some [97], val := some [97] }] }) ∧
    eval (C10_sampleEnv true) root (.header 7 [ofString "b"] { src := [] }) 0 (parseMessage C10_sample) st =
      (.error, st) := by
  have h : Spec.read C10_sample = some (C10_sampleFields, ofString "hi") := by decide +kernel
  have h1 : Spec.firstNonNomatch (C10_sampleRx { src := [] }) (Spec.headerCands C10_sampleFields [ofString "a", ofString "b"])
      = some ([97], [97]) := by decide +kernel
  have h2 : Spec.firstNonNomatch (C10_sampleRx { src := [] }) (Spec.headerCands C10_sampleFields [ofString "b"])
      = some ([98], [120]) := by decide +kernel
  constructor
  · rw [C10_header_cond _ root C10_sample _ _ h]
    show (match Spec.firstNonNomatch (C10_sampleRx { src := [] }) _ with | none => _ | some (k, v) => _) = _
    rw [h1]
    rfl
  · rw [C10_header_cond _ root C10_sample _ _ h]
    show (match Spec.firstNonNomatch (C10_sampleRx { src := [] }) _ with | none => _ | some (k, v) => _) = _
    rw [h2]
    rfl

end Mdsort.Props
