import Mdsort.Proofs.Header

/-!
# C10 - header conditions see headers the way a mail reader does

`Model.*` transcribes message.c (`message_parse_headers`, `searchheader`,
`message_get_header`, `unfoldheader`, `decodeheader`); `Spec.*` reads the message
line by line (Spec/Message.lean).  What POSIX ERE matching does is the platform
library's business: the value handed to `regexec` is what these theorems fix, for
every message; the evaluator part (which occurrence supplies the captures, the
regcomp flags) is in Props/C03.lean / Model/Eval.lean.
-/

namespace Mdsort.Props
open Mdsort Mdsort.Model

/-- `searchheader` on any table sorted by the case-insensitive comparator returns the
first index and the length of the maximal run of equal names, or -1 iff there is none:
for all table sizes and all duplicate arrangements. -/
theorem C10_binary_search (hs : List Hdr) (key : Bytes) (hsorted : Proofs.KeySorted hs) :
    match searchHeader hs key with
    | none => hs.filter (Proofs.keyMatch key) = []
    | some (i, n) => 0 < n ∧ (hs.drop i).take n = hs.filter (Proofs.keyMatch key) ∧
        (∀ h ∈ hs.take i, Proofs.keyMatch key h = false) ∧
        (∀ h ∈ hs.drop (i + n), Proofs.keyMatch key h = false) :=
  Proofs.searchHeader_spec hs key hsorted

/-- Unfolding yields one logical line: no newline survives, and it is the documented
unfolding (newlines and the TABs starting a continuation line dropped). -/
theorem C10_unfold (v : Bytes) : unfoldHeader v = Spec.unfold v ∧ (10 : UInt8) ∉ unfoldHeader v :=
  ⟨Proofs.unfoldHeader_eq_spec v, Proofs.unfoldHeader_no_newline v⟩

/-- For every well-formed message and every field name: the values a header condition is
applied to are the decoded logical values of exactly the occurrences whose name equals the
requested one case-insensitively, in file order; absent iff there is no such occurrence. -/
theorem C10_lookup (m : Bytes) (fs : List (Bytes × Bytes)) (b : Bytes) (name : Bytes)
    (h : Spec.read m = some (fs, b)) :
    getHeader (parseMessage m) name =
      (if (Spec.headerValues fs name).isEmpty then none else some (Spec.headerValues fs name)) :=
  Proofs.getHeader_eq_spec m fs b name h

/-- The flags every pattern is compiled with (table regenerated from expr.c). -/
theorem C10_regflags : Gen.regcompBaseFlags = ["REG_EXTENDED", "REG_NEWLINE"] := by decide

end Mdsort.Props
