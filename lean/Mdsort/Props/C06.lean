import Mdsort.Proofs.Inspect
import Mdsort.Proofs.InspectTrue

/-!
# C06 - dry run predicts the real run and its explanations are true

A dry run and a real run call the same evaluator (`Model.eval`, `Model.matchesInterpolate`) on the
same message; the only difference is the dry-run option.  `Model.matchesInspect` transcribes
`matches_inspect`/`expr_inspect` (the text `-d` prints).
-/

namespace Mdsort.Props
open Mdsort Mdsort.Model

/-- The plan does not depend on the dry-run option: for every environment, message, rule tree and
state the evaluation under `-d` has the same result, the same entries up to the display fields, and
the same flag state as the real evaluation. -/
theorem C06_same_plan (env : Env) (root : Msg) (e : Expr) (part : Nat) (m : Msg) (st : St) :
    (eval (Proofs.flipDry env) root e part m st).1 = (eval env root e part m st).1 ∧
    Proofs.eraseKV (eval (Proofs.flipDry env) root e part m { st with ml := Proofs.eraseKV st.ml }).2.ml =
      Proofs.eraseKV (eval env root e part m st).2.ml ∧
    (eval (Proofs.flipDry env) root e part m st).2.flags = (eval env root e part m st).2.flags :=
  Proofs.eval_dryrun_same env root e part m st

/-- The `-> destination` lines are, in order, exactly the action entries `matches_exec` iterates over. -/
theorem C06_lines_are_actions (width : Bytes → Nat) (home confpath : Bytes) (stdinMode : Bool) (path : Bytes) (ml : MatchList) :
    matchesInspect width home confpath stdinMode false path ml = (Proofs.destLines stdinMode path ml).flatten :=
  Proofs.inspect_lines_are_actions width home confpath stdinMode path ml

/-- Marker columns (see `Proofs.marker_columns` for the exact statement): `^` under the first and `$`
under the last matched character of the quoted line, for every additive width function, whenever the
match does not begin inside the leading blanks of its line (the complement is known finding F15). -/
theorem C06_marker_columns (width : Bytes → Nat) (hw : Proofs.Additive width) (home confpath : Bytes) (mh : Match) (key val : Bytes)
    (beg end_ : Nat) (s : Bytes)
    (hins : mh.ty.isInspect = true) (hk : mh.key = some key) (hv : mh.val = some val)
    (hsub : mh.subs = [{ str := s, off := some (beg, end_) }])
    (hne : beg < end_) (hle : end_ ≤ val.length) (hnl : val[beg]? ≠ some 10)
    (hlead : (Proofs.lineOf val beg).2 + nspaces (Proofs.lineOf val beg).1 ≤ beg) :
    let line := (Proofs.lineOf val beg).1
    let lstart := (Proofs.lineOf val beg).2
    let shown := line.drop (nspaces line)
    let pre := inspectPrefix home confpath mh.lno ++ key ++ [58, 32]
    let w := width ((val.drop beg).take (end_ - beg))
    exprInspect width home confpath mh =
      pre ++ shown ++ [10] ++
      spaces (pre.length + width ((val.drop (lstart + nspaces line)).take (beg - (lstart + nspaces line)))) ++ [94] ++
      spaces (w - 2) ++ [36, 10] :=
  Proofs.marker_columns width hw home confpath mh key val beg end_ s hins hk hv hsub hne hle hnl hlead

/-- **The explanations printed by a dry run are true** (all definitions in `Proofs/InspectTrue.lean`).
For every match list, width function, home, configuration path and message path: the text
`matches_inspect` prints under `-d` is, for the splitting of the list at its action entries into groups
`(entries since the previous action entry, action)` plus trailing non-action entries - these are
exactly the entries `matches_inspect` walks from `lhs` to each action -, the concatenation over the
groups of the action's `path -> destination` line and the blocks of the group's entries, where
(`ExplainsEntry`) an entry whose type lacks the INSPECT flag of the generated table prints nothing, and
an INSPECT entry prints exactly one block per sub-match that is set and non-empty
(`printedSubs`: `off = some (so, eo)` with `so ≠ eo`, the test `beg == end` of `expr_inspect`), in
order, each block (`ExplainsSub`) quoting a line of the value the pattern was applied to (a maximal
newline-free segment `IsLineAt`, leading blanks dropped) - the line the sub-match begins in whenever it
begins at a byte of the value other than a newline - with `$` placed `width(match) - 2` columns after `^`. -/
theorem C06_explanations_true (width : Bytes → Nat) (home confpath : Bytes) (stdinMode : Bool) (path : Bytes)
    (ml : MatchList) :
    ∃ (groups : List Proofs.Explained) (tail : MatchList),
      ml = groups.flatMap (fun g => g.entries ++ [g.action]) ++ tail ∧
      (∀ m ∈ tail, m.ty.isAction = false) ∧
      matchesInspect width home confpath stdinMode true path ml =
        groups.flatMap (Proofs.Explained.text stdinMode path) ∧
      ∀ g ∈ groups, g.action.ty.isAction = true ∧ (∀ m ∈ g.entries, m.ty.isAction = false) ∧
        Proofs.Pointwise (Proofs.ExplainsEntry width home confpath) g.entries g.blocks :=
  Proofs.explanations_true width home confpath stdinMode path ml

/-- The INSPECT flag of the table regenerated from `expr_alloc`: header, body and date conditions. -/
theorem C06_inspect_flag (t : MType) : t.isInspect = true ↔ t = .body ∨ t = .date ∨ t = .header :=
  Proofs.isInspect_iff t

/-- The value an explanation quotes is the value the pattern was applied to: in a dry run the entry
`expr_regexec` appends for a body, date or header condition carries the name, exactly the subject
given to the regex engine and the offsets the engine returned for it; its printed sub-matches are
the set, non-empty groups of the engine's answer. -/
theorem C06_explanations_subject (env : Env) (ty : MType) (lno part : Nat) (p : Pat) (key val : Bytes) (st : St)
    (groups : List (Option (Nat × Nat)))
    (hty : ty.isInspect = true) (hd : env.dryrun = true) (hrx : env.rx p val = .ok groups) :
    exprRegexec env ty lno part p key val st =
      (.match, { st with ml := st.ml ++ [{ ty := ty, lno := lno, part := part, subs := matchCopy p val groups,
                                           pat := some p, key := some key, val := some val }] }) ∧
    Proofs.printed (matchCopy p val groups) =
      groups.filterMap (fun g => match g with
        | some (so, eo) => if so == eo then none else some (so, eo)
        | none => none) :=
  Proofs.regexec_records env ty lno part p key val st groups hty hd hrx

/-- The stronger reading of the property text - "an explanation printed under an action comes from the
rule of that action", i.e. no `match` sentinel stands between a printing entry and the action it is
printed under (`Proofs.ExplainedInActionRule`) - for every evaluation.  It is FALSE: -/
def C06_explanations_same_rule : Prop :=
  ∀ (width : Bytes → Nat) (home confpath : Bytes) (env : Env) (root : Msg) (e : Expr) (m : Msg) (f : MFlags),
    Proofs.ExplainedInActionRule width home confpath (eval env root e 0 m { ml := [], flags := f }).2.ml

/-- ... a rule whose first condition matches and whose second does not leaves the entry of the first
condition in the list, and `-d` prints it under the action of the next rule that fires
(`Proofs.InspWit`: `match date modified > 10 seconds and date created > 5000 seconds move "/d1"`,
`match date access > 10 seconds move "/d2"`; same with header and body conditions on the real binary). -/
theorem C06_explanations_same_rule_false : ¬ C06_explanations_same_rule :=
  fun h => Proofs.explainedInActionRule_false
    (h widthC [47, 104] [99, 111, 110, 102] Proofs.InspWit.env Proofs.InspWit.msg Proofs.InspWit.tree Proofs.InspWit.msg
      MFlags.empty)

/-! Non-vacuity: the groups of the witness list; a line of a three-line value; skipped sub-matches. -/
example : Proofs.InspWit.ml =
    [Proofs.InspWit.eMtch2, Proofs.InspWit.eDate2, Proofs.InspWit.eMtch3, Proofs.InspWit.eDate3] ++
      [Proofs.InspWit.eMove] ++ [] := rfl

example : Proofs.printedSubs Proofs.InspWit.eDate2 = [(0, 25)] := by decide

/-- `ab\n  cd\nef`: the line at offset 3 is `  cd`. -/
example : Proofs.IsLineAt [97, 98, 10, 32, 32, 99, 100, 10, 101, 102] 3 [32, 32, 99, 100] :=
  ⟨[97, 98, 10], [10, 101, 102], rfl, rfl, Or.inr rfl, Or.inr rfl, by decide⟩

/-- An unset group and an empty group are skipped, the others are printed in order. -/
example : Proofs.printed [{ str := [], off := none }, { str := [], off := some (3, 3) }, { str := [98], off := some (1, 2) },
    { str := [97, 98], off := some (0, 2) }] = [(1, 2), (0, 2)] := by decide

end Mdsort.Props
