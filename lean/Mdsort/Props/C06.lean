import Mdsort.Proofs.Inspect

/-!
# C06 - dry run predicts the real run and its explanations are true

A dry run and a real run call the same evaluator (`Model.eval`, `Model.matchesInterpolate`) on the
same message; the only difference is the dry-run option.  `Model.matchesInspect` transcribes
`matches_inspect`/`expr_inspect` (the text `-d` prints).
-/

namespace Mdsort.Props
open Mdsort Mdsort.Model

/-- The plan does not depend on the dry-run option: for every environment, message, rule tree and
state the evaluation under `-d` has the same result, the same entries up to the display fields, and
the same flag state as the real evaluation. -/
theorem C06_same_plan (env : Env) (root : Msg) (e : Expr) (part : Nat) (m : Msg) (st : St) :
    (eval (Proofs.flipDry env) root e part m st).1 = (eval env root e part m st).1 ∧
    Proofs.eraseKV (eval (Proofs.flipDry env) root e part m { st with ml := Proofs.eraseKV st.ml }).2.ml =
      Proofs.eraseKV (eval env root e part m st).2.ml ∧
    (eval (Proofs.flipDry env) root e part m st).2.flags = (eval env root e part m st).2.flags :=
  Proofs.eval_dryrun_same env root e part m st

/-- The `-> destination` lines are, in order, exactly the action entries `matches_exec` iterates over. -/
theorem C06_lines_are_actions (width : Bytes → Nat) (home confpath : Bytes) (stdinMode : Bool) (path : Bytes) (ml : MatchList) :
    matchesInspect width home confpath stdinMode false path ml = (Proofs.destLines stdinMode path ml).flatten :=
  Proofs.inspect_lines_are_actions width home confpath stdinMode path ml

/-- Marker columns (see `Proofs.marker_columns` for the exact statement): `^` under the first and `$`
under the last matched character of the quoted line, for every additive width function, whenever the
match does not begin inside the leading blanks of its line (the complement is known finding F15). -/
theorem C06_marker_columns (width : Bytes → Nat) (hw : Proofs.Additive width) (home confpath : Bytes) (mh : Match) (key val : Bytes)
    (beg end_ : Nat) (s : Bytes)
    (hins : mh.ty.isInspect = true) (hk : mh.key = some key) (hv : mh.val = some val)
    (hsub : mh.subs = [{ str := s, off := some (beg, end_) }])
    (hne : beg < end_) (hle : end_ ≤ val.length) (hnl : val[beg]? ≠ some 10)
    (hlead : (Proofs.lineOf val beg).2 + nspaces (Proofs.lineOf val beg).1 ≤ beg) :
    let line := (Proofs.lineOf val beg).1
    let lstart := (Proofs.lineOf val beg).2
    let shown := line.drop (nspaces line)
    let pre := inspectPrefix home confpath mh.lno ++ key ++ [58, 32]
    let w := width ((val.drop beg).take (end_ - beg))
    exprInspect width home confpath mh =
      pre ++ shown ++ [10] ++
      spaces (pre.length + width ((val.drop (lstart + nspaces line)).take (beg - (lstart + nspaces line)))) ++ [94] ++
      spaces (w - 2) ++ [36, 10] :=
  Proofs.marker_columns width hw home confpath mh key val beg end_ s hins hk hv hsub hne hle hnl hlead

end Mdsort.Props
