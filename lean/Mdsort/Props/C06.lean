import Mdsort.Proofs.Inspect
import Mdsort.Proofs.InspectTrue
import Mdsort.Proofs.WorldDryF21
import Mdsort.Proofs.WorldDryTotal

/-!
# C06 - dry run predicts the real run and its explanations are true

A dry run and a real run call the same evaluator (`Model.eval`, `Model.matchesInterpolate`) on the
same message; the only difference is the dry-run option.  `Model.matchesInspect` transcribes
`matches_inspect`/`expr_inspect` (the text `-d` prints).
-/

namespace Mdsort.Props
open Mdsort Mdsort.Model

/-- The plan does not depend on the dry-run option: for every environment, message, rule tree and
state the evaluation under `-d` has the same result, the same entries up to the display fields, and
the same flag state as the real evaluation. -/
theorem C06_same_plan (env : Env) (root : Msg) (e : Expr) (part : Nat) (m : Msg) (st : St) :
    (eval (Proofs.flipDry env) root e part m st).1 = (eval env root e part m st).1 ∧
    Proofs.eraseKV (eval (Proofs.flipDry env) root e part m { st with ml := Proofs.eraseKV st.ml }).2.ml =
      Proofs.eraseKV (eval env root e part m st).2.ml ∧
    (eval (Proofs.flipDry env) root e part m st).2.flags = (eval env root e part m st).2.flags :=
  Proofs.eval_dryrun_same env root e part m st

/-- The `-> destination` lines are, in order, exactly the action entries `matches_exec` iterates over.  (Audit au1: stated
for `matchesInspect .. false ..`, the non-dry mode of the printing loop: the loop equals filter + map; for `-d` the same lines
appear as the first line of every group of `C06_explanations_true`.) -/
theorem C06_lines_are_actions (width : Bytes → Nat → Nat) (home confpath : Bytes) (stdinMode : Bool) (path : Bytes) (ml : MatchList) :
    matchesInspect width home confpath stdinMode false path ml = (Proofs.destLines stdinMode path ml).flatten :=
  Proofs.inspect_lines_are_actions width home confpath stdinMode path ml

/-- Marker columns (see `Proofs.marker_columns` for the exact statement): `^` under the first and `$`
under the last matched character of the quoted line, for EVERY width function (`width str len` stands for
`strnwidth(str, len)`; no additivity is needed), whenever the match does not begin inside the leading blanks of
its line (the complement is known finding F15).  The blanks before `^` are `inspectHeadWidth` - the head
`conf:lno: key: ` with the configuration path and the header name measured by `width` and the punctuation in bytes
(fix 951a0f1) - plus the width of the quoted text before the match; `C06_marker_display_columns` turns that into
display columns of the printed line for `strnwidth` over any `mbtowc`/`wcwidth`. -/
theorem C06_marker_columns (width : Bytes → Nat → Nat) (home confpath : Bytes) (mh : Match) (key val : Bytes)
    (beg end_ : Nat) (s : Bytes)
    (hins : mh.ty.isInspect = true) (hk : mh.key = some key) (hv : mh.val = some val)
    (hsub : mh.subs = [{ str := s, off := some (beg, end_) }])
    (hne : beg < end_) (hle : end_ ≤ val.length) (hnl : val[beg]? ≠ some 10)
    (hlead : (Proofs.lineOf val beg).2 + nspaces (Proofs.lineOf val beg).1 ≤ beg) :
    let line := (Proofs.lineOf val beg).1
    let lstart := (Proofs.lineOf val beg).2
    let shown := line.drop (nspaces line)
    let pre := inspectPrefix home confpath mh.lno ++ key ++ [58, 32]
    let w := width (val.drop beg) (end_ - beg)
    exprInspect width home confpath mh =
      pre ++ shown ++ [10] ++
      spaces (inspectHeadWidth width home confpath mh.lno key +
        width (val.drop (lstart + nspaces line)) (beg - (lstart + nspaces line))) ++ [94] ++
      spaces (w - 2) ++ [36, 10] :=
  Proofs.marker_columns width home confpath mh key val beg end_ s hins hk hv hsub hne hle hnl hlead

/-- **Marker columns as display columns, for multibyte text everywhere on the line.**  `width = strnwidth mb wcw` is the loop
of expr.c over ANY `mbtowc`/`wcwidth` (any locale; characters of several bytes, of two columns, of no column, invalid
sequences - in the value, in the configuration path and in the header name).  Hypotheses about the text: the path (after the `~`
substitution) and the header name are texts of whole characters (`Proofs.Chars`: each character is decoded the same whatever
follows the text - true of well-formed text under `mbtowc`; a path ending inside a multibyte sequence is excluded); about
the locale: the punctuation `~`, `:lno: `, `: ` consists of one-byte one-column characters (`Proofs.OneColumn`; ASCII).
NO hypothesis that the path or the name is ASCII (before fix 951a0f1 that was needed and its absence refuted).
Then the number of blanks before `^` is the display width of everything printed on the quoted line before the first
matched byte (`strnwidth` of the first `|head| + (beg - lbeg)` bytes of the printed line in the context of the value), and
`$` follows `width(match) - 2` blanks later, i.e. in the last column of the match when the match has at least two columns. -/
theorem C06_marker_display_columns (mb : Bytes → Option (Nat × Nat)) (wcw : Nat → Int) (home confpath : Bytes) (mh : Match)
    (key val : Bytes) (beg end_ : Nat) (s : Bytes)
    (hins : mh.ty.isInspect = true) (hk : mh.key = some key) (hv : mh.val = some val)
    (hsub : mh.subs = [{ str := s, off := some (beg, end_) }])
    (hne : beg < end_) (hle : end_ ≤ val.length) (hnl : val[beg]? ≠ some 10)
    (hlead : (Proofs.lineOf val beg).2 + nspaces (Proofs.lineOf val beg).1 ≤ beg)
    (hpunct : ∀ c ∈ (inspectPath home confpath).1 ++ inspectLno mh.lno ++ [58, 32], Proofs.OneColumn mb wcw c)
    (hpath : Proofs.Chars mb (inspectPath home confpath).2) (hkey : Proofs.Chars mb key) :
    let line := (Proofs.lineOf val beg).1
    let lstart := (Proofs.lineOf val beg).2
    let shown := line.drop (nspaces line)
    let pre := inspectPrefix home confpath mh.lno ++ key ++ [58, 32]
    let w := strnwidth mb wcw (val.drop beg) (end_ - beg)
    exprInspect (strnwidth mb wcw) home confpath mh =
      pre ++ shown ++ [10] ++
      spaces (strnwidth mb wcw (pre ++ val.drop (lstart + nspaces line)) (pre.length + (beg - (lstart + nspaces line)))) ++ [94] ++
      spaces (w - 2) ++ [36, 10] :=
  Proofs.marker_display_columns mb wcw home confpath mh key val beg end_ s hins hk hv hsub hne hle hnl hlead hpunct hpath hkey

/-- Non-vacuity with a non-ASCII configuration path AND header name (`Proofs.markerWit`: U+4E2D = 3 bytes / 2 columns,
U+00E9 = 2 bytes / 1 column, U+0301 = 2 bytes / no column): HOME `/h`, configuration `/h/dé中/c`, header `Sé`, value
`中é hi` U+0301 `!`, the pattern matched `hi` U+0301 (bytes 6..10).  The head `~/dé中/c:2: Sé: ` has 19 bytes and 16
columns, `中é ` four columns: `^` after 20 blanks (the code before fix 951a0f1 printed 23), `$` directly after it (the match
has two columns). -/
example : exprInspect (strnwidth Proofs.markerWit.mb Proofs.markerWit.wcw) [47, 104]
      [47, 104, 47, 100, 0xC3, 0xA9, 0xE4, 0xB8, 0xAD, 47, 99] (Proofs.markerWit.entry [83, 0xC3, 0xA9]) =
    [126, 47, 100, 0xC3, 0xA9, 0xE4, 0xB8, 0xAD, 47, 99, 58, 50, 58, 32, 83, 0xC3, 0xA9, 58, 32] ++ Proofs.markerWit.val ++ [10] ++
      spaces 20 ++ [94, 36, 10] := by decide +kernel

/-- ... and all hypotheses of the theorem hold there. -/
example := C06_marker_display_columns Proofs.markerWit.mb Proofs.markerWit.wcw [47, 104]
    [47, 104, 47, 100, 0xC3, 0xA9, 0xE4, 0xB8, 0xAD, 47, 99] (Proofs.markerWit.entry [83, 0xC3, 0xA9])
    [83, 0xC3, 0xA9] Proofs.markerWit.val 6 10 [104, 105, 0xCC, 0x81] rfl rfl rfl rfl (by decide) (by decide) (by decide) (by decide)
    (Proofs.markerWit.oneColumn _ (by decide +kernel))
    (Proofs.markerWit.charsAscii [47, 100] (by decide) _ (Proofs.markerWit.charsE9 _ (Proofs.markerWit.chars4E2D _
      (Proofs.markerWit.charsAscii [47, 99] (by decide) [] .nil))))
    (Proofs.markerWit.charsAscii [83] (by decide) _ (Proofs.markerWit.charsE9 [] .nil))

/-- The plain case: ASCII head `~/c:2: S: ` (10 columns), `^` after 14 blanks. -/
example : exprInspect (strnwidth Proofs.markerWit.mb Proofs.markerWit.wcw) [47, 104] [47, 104, 47, 99] (Proofs.markerWit.entry [83]) =
    [126, 47, 99, 58, 50, 58, 32, 83, 58, 32] ++ Proofs.markerWit.val ++ [10] ++ spaces 14 ++ [94, 36, 10] := by decide +kernel

/-- **The explanations printed by a dry run are true** (all definitions in `Proofs/InspectTrue.lean`).
For every match list, width function, home, configuration path and message path: the text
`matches_inspect` prints under `-d` is, for the splitting of the list at its action entries into groups
`(entries since the previous action entry, action)` plus trailing non-action entries - these are
exactly the entries `matches_inspect` walks from `lhs` to each action -, the concatenation over the
groups of the action's `path -> destination` line and the blocks of the group's entries, where
(`ExplainsEntry`) an entry whose type lacks the INSPECT flag of the generated table prints nothing, and
an INSPECT entry prints exactly one block per sub-match that is set and non-empty
(`printedSubs`: `off = some (so, eo)` with `so ≠ eo`, the test `beg == end` of `expr_inspect`), in
order, each block (`ExplainsSub`) quoting a line of the value the pattern was applied to (a maximal
newline-free segment `IsLineAt`, leading blanks dropped) - the line the sub-match begins in whenever it
begins at a byte of the value other than a newline - with `$` placed `width(match) - 2` columns after `^`. -/
theorem C06_explanations_true (width : Bytes → Nat → Nat) (home confpath : Bytes) (stdinMode : Bool) (path : Bytes)
    (ml : MatchList) :
    ∃ (groups : List Proofs.Explained) (tail : MatchList),
      ml = groups.flatMap (fun g => g.entries ++ [g.action]) ++ tail ∧
      (∀ m ∈ tail, m.ty.isAction = false) ∧
      matchesInspect width home confpath stdinMode true path ml =
        groups.flatMap (Proofs.Explained.text stdinMode path) ∧
      ∀ g ∈ groups, g.action.ty.isAction = true ∧ (∀ m ∈ g.entries, m.ty.isAction = false) ∧
        Proofs.Pointwise (Proofs.ExplainsEntry width home confpath) g.entries g.blocks :=
  Proofs.explanations_true width home confpath stdinMode path ml

/-- The INSPECT flag of the table regenerated from `expr_alloc`: header, body and date conditions. -/
theorem C06_inspect_flag (t : MType) : t.isInspect = true ↔ t = .body ∨ t = .date ∨ t = .header :=
  Proofs.isInspect_iff t

/-- Non-vacuity of `C06_explanations_subject` is below the theorem (added by audit au1).
The value an explanation quotes is the value the pattern was applied to: in a dry run the entry
`expr_regexec` appends for a body, date or header condition carries the name, exactly the subject
given to the regex engine and the offsets the engine returned for it; its printed sub-matches are
the set, non-empty groups of the engine's answer. -/
theorem C06_explanations_subject (env : Env) (ty : MType) (lno part : Nat) (p : Pat) (key val : Bytes) (st : St)
    (groups : List (Option (Nat × Nat)))
    (hty : ty.isInspect = true) (hd : env.dryrun = true) (hrx : env.rx p val = .ok groups) :
    exprRegexec env ty lno part p key val st =
      (.match, { st with ml := st.ml ++ [{ ty := ty, lno := lno, part := part, subs := matchCopy p val groups,
                                           pat := some p, key := some key, val := some val }] }) ∧
    Proofs.printed (matchCopy p val groups) =
      groups.filterMap (fun g => match g with
        | some (so, eo) => if so == eo then none else some (so, eo)
        | none => none) :=
  Proofs.regexec_records env ty lno part p key val st groups hty hd hrx

/-- A dry-run environment whose regex engine answers: group 0 = bytes 0..2, group 1 unset, group 2 empty at 1. -/
def c06exSubjEnv : Env where
  rx := fun _ _ => .ok [some (0, 2), none, some (1, 1)]
  command := fun _ => 0
  isDir := fun _ => false
  now := 0
  strptime := fun _ => none
  zoneName := fun _ => none
  fileTime := fun _ => none
  dryrun := true
  path := []

/-- Non-vacuity: `header "S" /h/` on the value `hi`: the hypotheses hold, and of the three groups exactly the set, non-empty
one is printed. -/
example : MType.header.isInspect = true ∧ c06exSubjEnv.dryrun = true ∧
    c06exSubjEnv.rx { src := [104] } [104, 105] = .ok [some (0, 2), none, some (1, 1)] ∧
    Proofs.printed (matchCopy { src := [104] } [104, 105] [some (0, 2), none, some (1, 1)]) = [(0, 2)] :=
  ⟨by decide, rfl, rfl,
   (C06_explanations_subject c06exSubjEnv .header 1 0 { src := [104] } [83] [104, 105] { ml := [], flags := MFlags.empty }
     [some (0, 2), none, some (1, 1)] (by decide) rfl rfl).2⟩

/-- The stronger reading of the property text - "an explanation printed under an action comes from the
rule of that action", i.e. no `match` sentinel stands between a printing entry and the action it is
printed under (`Proofs.ExplainedInActionRule`) - for every evaluation.  It is FALSE: -/
def C06_explanations_same_rule : Prop :=
  ∀ (width : Bytes → Nat → Nat) (home confpath : Bytes) (env : Env) (root : Msg) (e : Expr) (m : Msg) (f : MFlags),
    Proofs.ExplainedInActionRule width home confpath (eval env root e 0 m { ml := [], flags := f }).2.ml

/-- ... a rule whose first condition matches and whose second does not leaves the entry of the first
condition in the list, and `-d` prints it under the action of the next rule that fires
(`Proofs.InspWit`: `match date modified > 10 seconds and date created > 5000 seconds move "/d1"`,
`match date access > 10 seconds move "/d2"`; same with header and body conditions on the real binary). -/
theorem C06_explanations_same_rule_false : ¬ C06_explanations_same_rule :=
  fun h => Proofs.explainedInActionRule_false
    (h widthCn [47, 104] [99, 111, 110, 102] Proofs.InspWit.env Proofs.InspWit.msg Proofs.InspWit.tree Proofs.InspWit.msg
      MFlags.empty)

/-! Non-vacuity: the groups of the witness list; a line of a three-line value; skipped sub-matches. -/
example : Proofs.InspWit.ml =
    [Proofs.InspWit.eMtch2, Proofs.InspWit.eDate2, Proofs.InspWit.eMtch3, Proofs.InspWit.eDate3] ++
      [Proofs.InspWit.eMove] ++ [] := rfl

example : Proofs.printedSubs Proofs.InspWit.eDate2 = [(0, 25)] := by decide

/-- `ab\n  cd\nef`: the line at offset 3 is `  cd`. -/
example : Proofs.IsLineAt [97, 98, 10, 32, 32, 99, 100, 10, 101, 102] 3 [32, 32, 99, 100] :=
  ⟨[97, 98, 10], [10, 101, 102], rfl, rfl, Or.inr rfl, Or.inr rfl, by decide⟩

/-- An unset group and an empty group are skipped, the others are printed in order. -/
example : Proofs.printed [{ str := [], off := none }, { str := [], off := some (3, 3) }, { str := [98], off := some (1, 2) },
    { str := [97, 98], off := some (0, 2) }] = [(1, 2), (0, 2)] := by decide

/-! ## the dry run predicts the real run, end to end (maildir mode)

`C06_same_plan` is about one evaluation.  Lifted through interpolation (`Proofs.dry_lines_eq`: the `->`
lines of a file are the same with and without `-d`) and through the walk (Proofs/WorldExit*.lean, the
invariant of `C01_main_exit0_partial`):

* `Proofs.exit0_lines env orc e D n c`: the `-> destination` lines logged for the file `n` of `D` (content `c`)
  under the rules `e`: `inspectLines env ml (D/n)` - one line per action entry of `ml`, the entries
  `matches_exec` iterates over (`C06_lines_are_actions`) - when the verdict is an action list `ml`, none otherwise;
* `Proofs.exit0_refDirs C dirs`: the reference log - the directories in walking order (`exit0_dirsOf conf`), in each
  the names in the order of its stream (sorted, as the shim presents them), for each name the lines of its file. -/

/-- (Audit au1: `log` is a ghost field of the model's loop state - both runs append `inspectLines env ml path` for every
message whose verdict is an action list, BEFORE `matches_exec` runs and whether or not anything is printed (a real run
without `-v` prints nothing).  So "the log of the real run" means: the action entries the real run hands to `matches_exec`,
message by message, rendered as `->` lines; what the real run then DID with them is `C01_main_exit0_partial`.)
**The dry run predicts the real run.**  Maildir mode, the fault-free plan, rules without discard that ask the
operating system nothing (`Proofs.asksFree`: a `command` condition is run once by the dry run and once by the real run
and may answer differently; `isdirectory "d"` may change between the runs), no
message visited twice (`Proofs.exit0_Good`, see `C01_main_exit0_partial`): when both runs end with exit status
0, the log of the dry run - the `-> destination` lines, in order - EQUALS the log of the real run, and both are
the reference log.  With `C01_main_exit0_partial` (same hypotheses): the messages that have a line are exactly
those whose verdict is an action list, each of them is where `finalDir` of that list says, every message
without a line (no match) is bound as before with its content - the real run acted on exactly the messages
the dry run lists, as listed. -/
theorem C06_dry_predicts_real_partial (env : PEnv) (orc : EvalOracles) (confOk : Bool) (conf : List ConfBlock) (files : Files)
    (input : Bytes) (w : World) (hm : env.stdinMode = false) (hsyn : env.syntaxOnly = false) (hdry : env.dryrun = false)
    (hfree : ∀ b ∈ conf, Proofs.asksFree b.expr = true)
    (hnd : ∀ b ∈ conf, Proofs.WholeNoDiscard env orc b.expr) (hreg : Proofs.WholeReg w files)
    (hgood : Proofs.exit0_Good ⟨env, orc, Proofs.exit0_dirsOf conf, files, w⟩)
    (hreal : (runPlan Plan.none (mainP env orc confOk conf files input) w 0 []).1.1 = 0)
    (hdryrun : (runPlan Plan.none (mainP { env with dryrun := true } orc confOk conf files input) w 0 []).1.1 = 0) :
    (runPlan Plan.none (mainP { env with dryrun := true } orc confOk conf files input) w 0 []).1.2.log =
      (runPlan Plan.none (mainP env orc confOk conf files input) w 0 []).1.2.log ∧
    (runPlan Plan.none (mainP env orc confOk conf files input) w 0 []).1.2.log =
      Proofs.exit0_refDirs ⟨env, orc, Proofs.exit0_dirsOf conf, files, w⟩ (Proofs.exit0_dirsOf conf) :=
  Proofs.dry_predicts_real env orc confOk conf files input w hm hsyn hdry hfree hnd hreg hgood hreal hdryrun

/-- Non-vacuity: the two-message example with `/y` present and `maildir "/m" { match all move "/y" }` - all
hypotheses hold (both exit statuses evaluated); so the two logs are equal (two lines each). -/
example : (runPlan Plan.none (mainP { Proofs.exEnv with dryrun := true } Proofs.wholeExOrc true Proofs.exit0_exConf
      Proofs.wholeExFiles []) Proofs.dry_f21World2 0 []).1.2.log =
    (runPlan Plan.none (mainP Proofs.exEnv Proofs.wholeExOrc true Proofs.exit0_exConf Proofs.wholeExFiles [])
      Proofs.dry_f21World2 0 []).1.2.log :=
  (C06_dry_predicts_real_partial Proofs.exEnv Proofs.wholeExOrc true Proofs.exit0_exConf Proofs.wholeExFiles []
    Proofs.dry_f21World2 rfl rfl rfl (by decide) Proofs.exit0_ex_nd Proofs.dry_f21_reg2 Proofs.dry_ex_good Proofs.dry_ex_runs.1
    Proofs.dry_ex_runs.2.1).1

/-- **If the real run exits 0, so does the dry run.**  Same configuration, registry, oracles and initial
world, the fault-free plan, maildir mode, rules without discard that ask the operating system nothing (`Proofs.asksFree`, as
for `C06_dry_predicts_real_partial`: a `command` condition is run once by each of the two runs and need not answer the same
twice), no message visited twice (`exit0_Good`): exit status 0 of the real run implies exit status 0 of the `-d` run.

Why: without faults the dry run performs a SUBSET of the fallible steps of the real run.  Common to both: the
configuration is valid; every selected path, path + `/new`, path + `/cur` fits (`Proofs.dryT_real_mainP`: a run
without the error flag had all of that, for any single-fault plan); `opendir` of `new` and `cur`
(`Proofs.dryT_real_dirs`: a real run without the error flag opened every configured directory, and no call of a
maildir-mode run creates or removes a directory - `Proofs.dirsSame_mainP`, from the frame condition of
`C04_isolation_calls_main` - so they exist in the initial world, which is the world the dry run sees throughout);
`readdir`; for every message met: the registry knows it, `message_parse` succeeds (`Proofs.dryT_parse`: without
faults it succeeds iff path, name and flag suffix are acceptable), evaluation and interpolation give no error
verdict (`Proofs.dryT_verdict_isErr`: the verdict's error bit does not depend on `-d`; `C01_main_exit0_partial`:
after a real run with exit status 0 no registered message has an error verdict).  Only in a real run: every
call of the action lists (`matchesExec`) - and, without `exit0_Good`, the second visit of a message moved into a
directory walked later (F21).  Only in a dry run: nothing (`Proofs.dryT_mainP`: under the conditions above the
fault-free dry run ends without the error flag). -/
theorem C06_dry_exit_le_real (env : PEnv) (orc : EvalOracles) (confOk : Bool) (conf : List ConfBlock) (files : Files)
    (input : Bytes) (w : World) (hm : env.stdinMode = false) (hsyn : env.syntaxOnly = false) (hdry : env.dryrun = false)
    (hfree : ∀ b ∈ conf, Proofs.asksFree b.expr = true)
    (hnd : ∀ b ∈ conf, Proofs.WholeNoDiscard env orc b.expr) (hreg : Proofs.WholeReg w files)
    (hgood : Proofs.exit0_Good ⟨env, orc, Proofs.exit0_dirsOf conf, files, w⟩)
    (hreal : (runPlan Plan.none (mainP env orc confOk conf files input) w 0 []).1.1 = 0) :
    (runPlan Plan.none (mainP { env with dryrun := true } orc confOk conf files input) w 0 []).1.1 = 0 :=
  Proofs.dry_exit_le_real env orc confOk conf files input w hm hsyn hdry hfree hnd hreg hgood hreal

/-- **The dry run predicts the real run**, without assuming anything about the dry run:
`C06_dry_predicts_real_partial` minus its hypothesis on the exit status of the dry run.  Exit status 0 of the
REAL run alone gives exit status 0 of the dry run, equality of the two logs, and both are the reference log. -/
theorem C06_dry_predicts_real_partial2 (env : PEnv) (orc : EvalOracles) (confOk : Bool) (conf : List ConfBlock) (files : Files)
    (input : Bytes) (w : World) (hm : env.stdinMode = false) (hsyn : env.syntaxOnly = false) (hdry : env.dryrun = false)
    (hfree : ∀ b ∈ conf, Proofs.asksFree b.expr = true)
    (hnd : ∀ b ∈ conf, Proofs.WholeNoDiscard env orc b.expr) (hreg : Proofs.WholeReg w files)
    (hgood : Proofs.exit0_Good ⟨env, orc, Proofs.exit0_dirsOf conf, files, w⟩)
    (hreal : (runPlan Plan.none (mainP env orc confOk conf files input) w 0 []).1.1 = 0) :
    (runPlan Plan.none (mainP { env with dryrun := true } orc confOk conf files input) w 0 []).1.1 = 0 ∧
    (runPlan Plan.none (mainP { env with dryrun := true } orc confOk conf files input) w 0 []).1.2.log =
      (runPlan Plan.none (mainP env orc confOk conf files input) w 0 []).1.2.log ∧
    (runPlan Plan.none (mainP env orc confOk conf files input) w 0 []).1.2.log =
      Proofs.exit0_refDirs ⟨env, orc, Proofs.exit0_dirsOf conf, files, w⟩ (Proofs.exit0_dirsOf conf) :=
  Proofs.dry_predicts_real2 env orc confOk conf files input w hm hsyn hdry hfree hnd hreg hgood hreal

/-- Non-vacuity: the two-message example (`maildir "/m" { match all move "/y" }`, `/y` present): every
hypothesis holds - the exit status of the real run is evaluated, the one of the dry run is NOT used -, so the
dry run exits 0 and logs what the real run logs. -/
theorem C06_dry_exit_le_real_nonvacuous :
    (runPlan Plan.none (mainP { Proofs.exEnv with dryrun := true } Proofs.wholeExOrc true Proofs.exit0_exConf
      Proofs.wholeExFiles []) Proofs.dry_f21World2 0 []).1.1 = 0 ∧
    (runPlan Plan.none (mainP { Proofs.exEnv with dryrun := true } Proofs.wholeExOrc true Proofs.exit0_exConf
      Proofs.wholeExFiles []) Proofs.dry_f21World2 0 []).1.2.log =
    (runPlan Plan.none (mainP Proofs.exEnv Proofs.wholeExOrc true Proofs.exit0_exConf Proofs.wholeExFiles [])
      Proofs.dry_f21World2 0 []).1.2.log := by
  have h := C06_dry_predicts_real_partial2 Proofs.exEnv Proofs.wholeExOrc true Proofs.exit0_exConf Proofs.wholeExFiles []
    Proofs.dry_f21World2 rfl rfl rfl (by decide) Proofs.exit0_ex_nd Proofs.dry_f21_reg2 Proofs.dry_ex_good Proofs.dry_ex_runs.1
  exact ⟨h.1, h.2.1⟩

/-- Per file: the lines do not depend on `-d` (any environment, oracle, rules, directory, name, content). -/
theorem C06_lines_same (env : PEnv) (orc : EvalOracles) (expr : Expr) (D n c : Bytes) (b1 b2 : Bool) :
    Proofs.exit0_lines { env with dryrun := b1 } orc expr D n c = Proofs.exit0_lines { env with dryrun := b2 } orc expr D n c :=
  Proofs.dry_lines_eq env orc expr D n c b1 b2

/-- The general statement - the same without the hypothesis that no message is visited twice - as a named
proposition.  It is FALSE (known finding F21, `C06_dry_predicts_real_false`). -/
def C06_dry_predicts_real : Prop :=
  ∀ (env : PEnv) (orc : EvalOracles) (confOk : Bool) (conf : List ConfBlock) (files : Files) (input : Bytes) (w : World),
    env.stdinMode = false → env.syntaxOnly = false → env.dryrun = false →
    (∀ b ∈ conf, Proofs.WholeNoDiscard env orc b.expr) → Proofs.WholeReg w files →
    (runPlan Plan.none (mainP env orc confOk conf files input) w 0 []).1.1 = 0 →
    (runPlan Plan.none (mainP { env with dryrun := true } orc confOk conf files input) w 0 []).1.1 = 0 →
    (runPlan Plan.none (mainP { env with dryrun := true } orc confOk conf files input) w 0 []).1.2.log =
      (runPlan Plan.none (mainP env orc confOk conf files input) w 0 []).1.2.log

/-- **Where F21 breaks it** (evaluated): `maildir "/m" { match all flag "cur" }` on the two-message example.
`exit0_Good` fails in its clause `norev` and nowhere else: the rules send `/m/new/1.h` to `/m/cur`, which is
walked next.  Both runs end with exit status 0; the dry run logs TWO lines (each message once), the real run
FOUR - each message is found again in `/m/cur` and processed a second time. -/
theorem C06_F21_witness :
    (runPlan Plan.none (mainP Proofs.exEnv Proofs.wholeExOrc true Proofs.dry_f21Conf Proofs.wholeExFiles [])
      Proofs.wholeExWorld 0 []).1.1 = 0 ∧
    (runPlan Plan.none (mainP Proofs.exEnv Proofs.wholeExOrc true Proofs.dry_f21Conf Proofs.wholeExFiles [])
      Proofs.wholeExWorld 0 []).1.2.log.length = 4 ∧
    (runPlan Plan.none (mainP Proofs.dry_f21DryEnv Proofs.wholeExOrc true Proofs.dry_f21Conf Proofs.wholeExFiles [])
      Proofs.wholeExWorld 0 []).1.1 = 0 ∧
    (runPlan Plan.none (mainP Proofs.dry_f21DryEnv Proofs.wholeExOrc true Proofs.dry_f21Conf Proofs.wholeExFiles [])
      Proofs.wholeExWorld 0 []).1.2.log.length = 2 :=
  Proofs.dry_f21_witness

theorem C06_dry_predicts_real_false : ¬ C06_dry_predicts_real := Proofs.dry_general_false

end Mdsort.Props
