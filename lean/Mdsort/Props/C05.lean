import Mdsort.Proofs.World

/-!
# C05 - dry run (-d) and syntax check (-n) never change anything
-/

namespace Mdsort.Props
open Mdsort Mdsort.Model

/-- `-d` in maildir mode: whatever the configuration, the messages and the fault plan are, the run
issues no mutating call (no create, write, rename, unlink, utimensat, mkdir, rmdir) and starts no
process for an action. -/
theorem C05_dry_no_mutation (env : PEnv) (orc : EvalOracles) (ok : Bool) (conf : List ConfBlock) (files : Files) (input : Bytes)
    (w : World) (plan : Plan) (hd : env.dryrun = true) (hm : env.stdinMode = false) :
    ∀ c ∈ Proofs.callsOf plan (mainP env orc ok conf files input) w, c.mutating = false ∧ c ≠ .fork :=
  Proofs.dryrun_no_mutation env orc ok conf files input w plan hd hm

/-- `-n`: the whole run is opening and closing the configuration file. -/
theorem C05_syntax_nothing (env : PEnv) (orc : EvalOracles) (ok : Bool) (conf : List ConfBlock) (files : Files) (input : Bytes)
    (w : World) (plan : Plan) (hn : env.syntaxOnly = true) :
    Proofs.callsOf plan (mainP env orc ok conf files input) w = [.fopen env.confpath] ∨
    ∃ h, Proofs.callsOf plan (mainP env orc ok conf files input) w = [.fopen env.confpath, .fclose h] :=
  Proofs.syntax_only_calls env orc ok conf files input w plan hn

end Mdsort.Props
