import Mdsort.Proofs.World
import Mdsort.Proofs.WorldDryStdin
import Mdsort.Proofs.WorldStdinExample

/-!
# C05 - dry run (-d) and syntax check (-n) never change anything
-/

namespace Mdsort.Props
open Mdsort Mdsort.Model

/-- `-d` in maildir mode: whatever the configuration, the messages and the fault plan are, the run
issues no mutating call (no create, write, rename, unlink, utimensat, mkdir, rmdir) and starts no
process for an action: a `fork` occurs only if some rule tree has a `command` CONDITION
(`Proofs.confHasCommand conf`; conditions are evaluated under `-d` exactly as otherwise - `expr_eval_command`
runs the program -, actions are never executed: `C05_dry_runs_no_action`). -/
theorem C05_dry_no_mutation (env : PEnv) (orc : EvalOracles) (ok : Bool) (conf : List ConfBlock) (files : Files) (input : Bytes)
    (w : World) (plan : Plan) (hd : env.dryrun = true) (hm : env.stdinMode = false) :
    ∀ c ∈ Proofs.callsOf plan (mainP env orc ok conf files input) w,
      c.mutating = false ∧ (c = .fork → Proofs.confHasCommand conf = true) :=
  Proofs.dryrun_no_mutation env orc ok conf files input w plan hd hm

/-- In particular a configuration without `command` condition starts no process under `-d` (the statement as it was
before evaluation was part of the world model). -/
theorem C05_dry_no_fork (env : PEnv) (orc : EvalOracles) (ok : Bool) (conf : List ConfBlock) (files : Files) (input : Bytes)
    (w : World) (plan : Plan) (hd : env.dryrun = true) (hm : env.stdinMode = false)
    (hc : Proofs.confHasCommand conf = false) :
    ∀ c ∈ Proofs.callsOf plan (mainP env orc ok conf files input) w, c.mutating = false ∧ c ≠ .fork := by
  intro c hcm
  obtain ⟨h1, h2⟩ := C05_dry_no_mutation env orc ok conf files input w plan hd hm c hcm
  exact ⟨h1, fun h => by rw [h2 h] at hc; cases hc⟩

/-- **No exec action runs under `-d`**: once the rules have decided (whatever the verdict is: any action list, with
any number of `exec` actions), the rest of the processing of the message is closing its descriptor - no `fork`, nothing
else.  The only processes a dry run starts are those of `command` conditions during evaluation
(`C03_evaluation_calls`). -/
theorem C05_dry_runs_no_action (env : PEnv) (md : Maildir) (name : Bytes) (st : MainSt) (ms : MsgSt) (v : Proofs.Verdict)
    (hd : env.dryrun = true) :
    Proofs.World.Calls Proofs.IsClose (Proofs.afterVerdict env md name st ms v) :=
  (Proofs.Own.dry_afterVerdict env md name st ms v hd).1

example : ({ Proofs.examplePEnv with dryrun := true } : PEnv).dryrun = true := rfl
example : Proofs.confHasCommand [] = false := rfl

/-- `-n`: the whole run is opening and closing the configuration file. -/
theorem C05_syntax_nothing (env : PEnv) (orc : EvalOracles) (ok : Bool) (conf : List ConfBlock) (files : Files) (input : Bytes)
    (w : World) (plan : Plan) (hn : env.syntaxOnly = true) :
    Proofs.callsOf plan (mainP env orc ok conf files input) w = [.fopen env.confpath] ∨
    ∃ h, Proofs.callsOf plan (mainP env orc ok conf files input) w = [.fopen env.confpath, .fclose h] :=
  Proofs.syntax_only_calls env orc ok conf files input w plan hn

/-! ## dry run in stdin mode (`-d -`)

`C05_dry_no_mutation` is about maildir mode.  With `-` the run has to spool standard input, so it does
create and remove files - its own.  `Proofs.DrySpoolCall env tr c` (Proofs/WorldDryStdin.lean) is the
complete description of a call `c` issued when the calls and results so far are `tr`:

* `fopen` of the configuration file and `fclose` of the stream it returned;
* `mkdtemp` of `TMPDIR/mdsort-XXXXXXXX`; `mkdir` and `opendir` of `root/new` for a `root` that `mkdtemp`
  returned in `tr` (`dry_IsNew`); `openat(O_CREAT|O_EXCL)`, `readdir`, `rewinddir`, `closedir`, `openat(O_RDONLY)`
  on a stream such an `opendir` returned (`dry_IsDir`); `write` and `fsync` on a descriptor such an exclusive
  create returned (`dry_IsFd`); `unlinkat` on such a stream of a name its `readdir` returned; `rmdir` of such a
  `root`, of its `new`, or of the empty path (the cleanup after a failed `mkdtemp`, which names nothing);
* `read` and `close`;
* the calls of the conditions that ask the operating system: `open("/dev/null")`, `fork`, `waitpid` only if some rule
  tree has a `command` condition (`cm = Proofs.confHasCommand conf`), `stat` only if some has an `isdirectory` or a
  file-time `date` condition (`sa = Proofs.confHasStat conf`);
* nothing else: no `renameat`, `unlink`, `utimensat`, `mkostemp`, `fprintf`, and no
  `opendir` of a configured maildir or of a destination; no process for an action. -/

/-- `-d -`, whatever the calls return (hence under every fault plan and every interleaving with other
processes), whatever the configuration, the registry and the input are: every call of the run is one of
the calls listed above. -/
theorem C05_dry_stdin (env : PEnv) (orc : EvalOracles) (ok : Bool) (conf : List ConfBlock) (files : Files) (input : Bytes)
    (hd : env.dryrun = true) (hm : env.stdinMode = true) (orcl : Nat → Call → Res) :
    ∀ i c r, (runOracle orcl (mainP env orc ok conf files input) 0 []).2[i]? = some (c, r) →
      Proofs.DrySpoolCall env (Proofs.confHasCommand conf) (Proofs.confHasStat conf)
        ((runOracle orcl (mainP env orc ok conf files input) 0 []).2.take i) c :=
  Proofs.dry_stdin_calls env orc ok conf files input hd hm orcl

/-- The same for the execution on the abstract file system under any fault plan (`tr` = the calls the
run added to the trace of the world). -/
theorem C05_dry_stdin_plan (env : PEnv) (orc : EvalOracles) (ok : Bool) (conf : List ConfBlock) (files : Files) (input : Bytes)
    (w : World) (plan : Plan) (hd : env.dryrun = true) (hm : env.stdinMode = true) :
    ∀ i c r, ((runPlan plan (mainP env orc ok conf files input) w 0 []).2.1.trace.drop w.trace.length)[i]? = some (c, r) →
      Proofs.DrySpoolCall env (Proofs.confHasCommand conf) (Proofs.confHasStat conf)
        (((runPlan plan (mainP env orc ok conf files input) w 0 []).2.1.trace.drop w.trace.length).take i) c :=
  Proofs.dry_stdin_calls_plan env orc ok conf files input w plan hd hm

/-- Read for the mutating calls only: a process is started only for a `command` condition, and a mutating call is the
`mkdtemp` of the spool template, the `mkdir` of the spool's `new`, an exclusive create or an `unlinkat` in the spool, a
`write` to the spool file, or the `rmdir` of the spool. -/
theorem C05_dry_stdin_mutating (env : PEnv) (cm sa : Bool) (tr : List (Call × Res)) (c : Call)
    (h : Proofs.DrySpoolCall env cm sa tr c) :
    (c = .fork → cm = true) ∧ (c.mutating = true →
      (∃ t, c = .mkdtemp t ∧ pathjoin PATH_MAX env.tmpdir (ofString "mdsort-XXXXXXXX") = some t) ∨
      (∃ p, c = .mkdir p ∧ Proofs.dry_IsNew tr p) ∨
      (∃ d n, c = .openExcl d n ∧ Proofs.dry_IsDir tr d) ∨
      (∃ fd data, c = .write fd data ∧ Proofs.dry_IsFd tr fd) ∨
      (∃ d n, c = .unlinkat d n ∧ Proofs.dry_IsDir tr d ∧ (Call.readdir d, Res.name n) ∈ tr) ∨
      (∃ p, c = .rmdir p ∧ (p = [] ∨ Proofs.dry_IsRoot tr p ∨ Proofs.dry_IsNew tr p))) :=
  h.kinds

/-- ... and the spool is gone at the end (`C04_stdin_spool_removed` holds for every rule set, in
particular under `-d`): for one `stdin` block and every fault plan that injects nothing from the first
call of the cleanup on, every directory that exists when `main` returns existed before. -/
theorem C05_dry_stdin_spool_removed (env : PEnv) (orc : EvalOracles) (conf : List ConfBlock) (files : Files) (input : Bytes)
    (expr : Expr) (w : World) (plan : Plan) (hm : env.stdinMode = true) (hs : env.syntaxOnly = false)
    (hc : Proofs.World.stdinExprs conf = [expr]) (hin : Proofs.World.StdinIs w input)
    (hfresh : Proofs.World.SpoolFresh env w)
    (hplan : ∀ j, Proofs.stdinCleanupStart plan env orc expr files input w ≤ j → plan j = none) :
    ∀ q, ((runPlan plan (mainP env orc true conf files input) w 0 []).2.1.dir q).isSome → (w.dir q).isSome :=
  Proofs.stdin_spool_removed env orc conf files input expr w plan hm hs hc hin hfresh hplan

/-- `-n -`: only `fopen` / `fclose` of the configuration (`C05_syntax_nothing` has no hypothesis on the mode). -/
theorem C05_syntax_stdin (env : PEnv) (orc : EvalOracles) (ok : Bool) (conf : List ConfBlock) (files : Files) (input : Bytes)
    (w : World) (plan : Plan) (hn : env.syntaxOnly = true) (_hm : env.stdinMode = true) :
    Proofs.callsOf plan (mainP env orc ok conf files input) w = [.fopen env.confpath] ∨
    ∃ h, Proofs.callsOf plan (mainP env orc ok conf files input) w = [.fopen env.confpath, .fclose h] :=
  Proofs.syntax_only_calls env orc ok conf files input w plan hn

/-! Non-vacuity: the stdin example of C04 (10-byte message, `stdin { match all move "/m/inbox" }`,
`/m/inbox/new` present) run with `-d`. -/

/-- The example environment with `-d`. -/
def C05_exDry : PEnv := { Proofs.StdinExample.env0 with dryrun := true }

example : C05_exDry.dryrun = true ∧ C05_exDry.stdinMode = true := ⟨rfl, rfl⟩

/-- The spool's own mutating calls do occur: `maildir_stdin` of the example without faults. -/
example : Proofs.callsOf Plan.none (maildirStdin C05_exDry Proofs.StdinExample.input0) Proofs.StdinExample.w0 =
    [.mkdtemp (Proofs.World.spoolRoot C05_exDry), .mkdir (Proofs.World.spoolPath C05_exDry),
     .opendir (Proofs.World.spoolPath C05_exDry), .openExcl 1 Proofs.StdinExample.name0, .read 0,
     .write 2 Proofs.StdinExample.input0, .read 0, .fsync 2, .close 2] := by
  decide +kernel

/-- Non-vacuity of `C05_dry_stdin_spool_removed`: the example with `-d`, fault-free. -/
example : ∀ q, ((runPlan Plan.none (mainP C05_exDry Proofs.StdinExample.orc0 true Proofs.StdinExample.conf0 []
    Proofs.StdinExample.input0) Proofs.StdinExample.w0 0 []).2.1.dir q).isSome → (Proofs.StdinExample.w0.dir q).isSome :=
  C05_dry_stdin_spool_removed _ _ _ _ _ _ _ _ rfl rfl Proofs.StdinExample.ex_stdinExprs Proofs.StdinExample.ex_stdinIs
    (by constructor <;> decide +kernel) (fun _ _ => rfl)

example : C05_exDry.syntaxOnly = false ∧ ({ C05_exDry with syntaxOnly := true } : PEnv).syntaxOnly = true := ⟨rfl, rfl⟩

end Mdsort.Props
