import Mdsort.Proofs.Opts
import Mdsort.Proofs.World
import Mdsort.Proofs.WorldDryStdin
import Mdsort.Proofs.WorldStdinExample

/-!
# C05 - dry run (-d) and syntax check (-n) never change anything
-/

namespace Mdsort.Props
open Mdsort Mdsort.Model

/-- `-d` in maildir mode: whatever the configuration, the messages and the fault plan are, the run
issues no mutating call (no create, write, rename, unlink, utimensat, mkdir, rmdir) and starts no
process for an action. -/
theorem C05_dry_no_mutation (env : PEnv) (orc : EvalOracles) (ok : Bool) (conf : List ConfBlock) (files : Files) (input : Bytes)
    (w : World) (plan : Plan) (hd : env.dryrun = true) (hm : env.stdinMode = false) :
    ∀ c ∈ Proofs.callsOf plan (mainP env orc ok conf files input) w, c.mutating = false ∧ c ≠ .fork :=
  Proofs.dryrun_no_mutation env orc ok conf files input w plan hd hm

/-- `-n`: the whole run is opening and closing the configuration file. -/
theorem C05_syntax_nothing (env : PEnv) (orc : EvalOracles) (ok : Bool) (conf : List ConfBlock) (files : Files) (input : Bytes)
    (w : World) (plan : Plan) (hn : env.syntaxOnly = true) :
    Proofs.callsOf plan (mainP env orc ok conf files input) w = [.fopen env.confpath] ∨
    ∃ h, Proofs.callsOf plan (mainP env orc ok conf files input) w = [.fopen env.confpath, .fclose h] :=
  Proofs.syntax_only_calls env orc ok conf files input w plan hn

/-! ## The command line (package ce13): which mode a run is in

`Model.parseArgs` (Model/Opts.lean) transcribes the `getopt(argc, argv, "D:df:nv")` loop of `main` and the operand test
(glibc's `getopt`: it permutes unless `POSIXLY_CORRECT` is set - `permute`); `Model.mainArgs` is the whole program from
`argv[1..]`, the raw environment and the text of the configuration file.  `Spec.cmdline` (Spec/Cmdline.lean) is the
command line as mdsort(1) documents it: option words `-dnv...`, `-f file`, `-D name=value` (joined or separate, in
any order, clustered), then `-` or nothing. -/

/-- For EVERY documented command line - any number of well-formed option words in any order, then `-` or nothing, with
or without `--` before the operand, under both orderings of `getopt` - `parseArgs` computes the documented meaning.
In particular (third part) the run is a syntax check iff SOME word holds an `n`, a dry run iff some word holds a `d`,
in stdin mode iff `-` was given, and the macros are the `-D` words in order. -/
theorem C05_options_select_mode (permute : Bool) (items : List Spec.CmdItem) (hwf : ∀ it ∈ items, it.wf = true) (stdin : Bool) :
    parseArgs permute (Spec.renderCmd items ++ (if stdin then [[45]] else [])) = Spec.cmdline items stdin ∧
    parseArgs permute (Spec.renderCmd items ++ dashdash :: (if stdin then [[45]] else [])) = Spec.cmdline items stdin ∧
    ∀ o, Spec.cmdline items stdin = .ok o →
      o.syntaxOnly = (items.any fun it => it.letters.contains 110) ∧
      o.dryrun = (items.any fun it => it.letters.contains 100) ∧
      o.stdinMode = stdin ∧ o.defs = items.filterMap Spec.CmdItem.defineOf := by
  refine ⟨Proofs.Opts.parseArgs_cmdline permute items hwf stdin, ?_, ?_⟩
  · rw [Proofs.Opts.parseArgs_words_dashdash permute items hwf]
    unfold Spec.cmdline
    cases Spec.cmdMeaning items {} with
    | error e => rfl
    | ok o => cases stdin <;> simp [operandStep]
  · intro o h
    unfold Spec.cmdline at h
    cases hm : Spec.cmdMeaning items {} with
    | error e => rw [hm] at h; cases h
    | ok o1 =>
      rw [hm] at h
      simp only [Except.ok.injEq] at h
      subst h
      obtain ⟨a1, a2, a3, a4⟩ := Proofs.Opts.cmdMeaning_fields items {} o1 hm
      obtain ⟨d1, d2, d3, d4, _⟩ := Proofs.Opts.dryVerbosity_fields (if stdin = true then { o1 with stdinMode := true } else o1)
      rw [d1, d2, d3, d4]
      cases stdin
      · simp only [Bool.false_eq_true, if_false]
        exact ⟨by rw [a1]; rfl, by rw [a2]; rfl, by rw [a3], by rw [a4]; rfl⟩
      · simp only [if_true]
        exact ⟨by rw [a1]; rfl, by rw [a2]; rfl, trivial, by rw [a4]; rfl⟩

/-- Non-vacuity and the shapes the generators use: `-n` last, first, clustered, after the operand (permuted), `-f`
joined and separate, the last `-f` wins, `-d` makes the run verbose. -/
example :
    (parseArgs true ["-f".toUTF8.toList, "c".toUTF8.toList, "-n".toUTF8.toList]).toOption.map (·.syntaxOnly) = some true ∧
    (parseArgs true ["-vnd".toUTF8.toList, "-fc".toUTF8.toList]).toOption.map (fun o => (o.syntaxOnly, o.dryrun, o.verbosity, o.confpath)) =
      some (true, true, 1, some "c".toUTF8.toList) ∧
    (parseArgs true ["-".toUTF8.toList, "-n".toUTF8.toList]).toOption.map (fun o => (o.syntaxOnly, o.stdinMode)) = some (true, true) ∧
    parseArgs false ["-".toUTF8.toList, "-n".toUTF8.toList] = .error .usage := by
  decide +kernel

example :
    (parseArgs true ["-f".toUTF8.toList, "a".toUTF8.toList, "-f".toUTF8.toList, "b".toUTF8.toList]).toOption.map (·.confpath) =
      some (some "b".toUTF8.toList) ∧
    (parseArgs true ["-d".toUTF8.toList]).toOption.map (·.verbosity) = some 1 ∧
    (parseArgs true ["-dvv".toUTF8.toList]).toOption.map (·.verbosity) = some 2 ∧
    (parseArgs true []).toOption.map (fun o => (o.syntaxOnly, o.dryrun, o.stdinMode, o.confpath.isNone, o.verbosity)) =
      some (false, false, false, true, 0) := by
  decide +kernel

/-- glibc's permutation as a theorem: operands (non-options) standing BETWEEN option words do not end the options - the
words after them count as if they stood before (`mdsort - -n` is a syntax check of stdin mode).  With `POSIXLY_CORRECT`
the first non-option ends the options and everything after it is an operand (`mdsort - -n`: two operands, usage). -/
theorem C05_options_after_operand (items1 items2 : List Spec.CmdItem) (h1 : ∀ it ∈ items1, it.wf = true)
    (h2 : ∀ it ∈ items2, it.wf = true) (ops : List Bytes) (hops : ops.all isNonOption = true) :
    parseArgs true (Spec.renderCmd items1 ++ ops ++ Spec.renderCmd items2) = parseArgs true (Spec.renderCmd (items1 ++ items2) ++ ops) ∧
    ∀ a rest, isNonOption a = true →
      parseArgs false (Spec.renderCmd items1 ++ a :: rest) =
        match Spec.cmdMeaning items1 {} with
        | .error e => .error e
        | .ok o =>
          match operandStep o (a :: rest) with
          | .error e => .error e
          | .ok o' => .ok (dryVerbosity o') :=
  ⟨Proofs.Opts.parseArgs_permuted items1 items2 h1 h2 ops hops,
   fun a rest ha => Proofs.Opts.parseArgs_posix_stops items1 h1 a ha rest⟩

/-- `-n` on the command line, anywhere `parseArgs` accepts it: whatever the environment, the configuration text, the
maildirs and the fault plan, the run ends with status 1 before any call (`readenv` / `defaultconf` give up), or it opens
the configuration file - the `-f` argument, else `$HOME/.mdsort.conf` - closes it, and issues no other call: no maildir,
no message, no process (`C05_syntax_nothing` for the run from `argv`). -/
theorem C05_args_syntax_nothing (permute : Bool) (args : List Bytes) (raw : RawEnv) (env : PEnv) (orc : EvalOracles)
    (rxOk : Pat → Bool) (confText : Bytes) (files : Files) (input : Bytes) (w : World) (plan : Plan) (o : Opts)
    (h : parseArgs permute args = .ok o) (hn : o.syntaxOnly = true) :
    Proofs.callsOf plan (mainArgs permute args raw env orc rxOk confText files input) w = [] ∨
    ∃ home tmpdir confpath, startPaths raw o.confpath = .ok (home, tmpdir, confpath) ∧
      (Proofs.callsOf plan (mainArgs permute args raw env orc rxOk confText files input) w = [.fopen confpath] ∨
       ∃ hd, Proofs.callsOf plan (mainArgs permute args raw env orc rxOk confText files input) w = [.fopen confpath, .fclose hd]) := by
  rcases Proofs.Opts.mainArgs_accepted permute args raw env orc rxOk confText files input o h with h1 | ⟨home, tmpdir, confpath, ok, conf, hs, h2⟩
  · left
    rw [h1]; exact (Proofs.Opts.ret_run plan _ w).2
  · right
    refine ⟨home, tmpdir, confpath, hs, ?_⟩
    rw [h2]
    exact C05_syntax_nothing (Proofs.Opts.runEnv env o home tmpdir confpath) orc ok conf files input w plan hn

/-- `-d` on the command line (without `-`): no call of the run changes anything or starts a process
(`C05_dry_no_mutation` for the run from `argv`). -/
theorem C05_args_dry_no_mutation (permute : Bool) (args : List Bytes) (raw : RawEnv) (env : PEnv) (orc : EvalOracles)
    (rxOk : Pat → Bool) (confText : Bytes) (files : Files) (input : Bytes) (w : World) (plan : Plan) (o : Opts)
    (h : parseArgs permute args = .ok o) (hd : o.dryrun = true) (hm : o.stdinMode = false) :
    ∀ c ∈ Proofs.callsOf plan (mainArgs permute args raw env orc rxOk confText files input) w, c.mutating = false ∧ c ≠ .fork := by
  rcases Proofs.Opts.mainArgs_accepted permute args raw env orc rxOk confText files input o h with h1 | ⟨home, tmpdir, confpath, ok, conf, _, h2⟩
  · rw [h1, (Proofs.Opts.ret_run plan _ w).2]; intro c hc; cases hc
  · rw [h2]
    exact C05_dry_no_mutation (Proofs.Opts.runEnv env o home tmpdir confpath) orc ok conf files input w plan hd hm

/-- `-v` changes nothing but stderr: two command lines whose accepted options differ in the verbosity only are the same
program (the correspondence compares the final trees and exit statuses of runs with and without `-v`). -/
theorem C05_verbose_same_run (p1 p2 : Bool) (args1 args2 : List Bytes) (o1 o2 : Opts) (h1 : parseArgs p1 args1 = .ok o1)
    (h2 : parseArgs p2 args2 = .ok o2) (heq : { o1 with verbosity := 0 } = { o2 with verbosity := 0 })
    (raw : RawEnv) (env : PEnv) (orc : EvalOracles) (rxOk : Pat → Bool) (confText : Bytes) (files : Files) (input : Bytes) :
    mainArgs p1 args1 raw env orc rxOk confText files input = mainArgs p2 args2 raw env orc rxOk confText files input := by
  have e : o1.dryrun = o2.dryrun ∧ o1.syntaxOnly = o2.syntaxOnly ∧ o1.stdinMode = o2.stdinMode ∧ o1.confpath = o2.confpath ∧
      o1.defs = o2.defs := by
    cases o1; cases o2
    simp only [Opts.mk.injEq] at heq
    exact ⟨heq.1, heq.2.1, heq.2.2.1, heq.2.2.2.1, heq.2.2.2.2.1⟩
  simp only [mainArgs, h1, h2, e.1, e.2.1, e.2.2.1, e.2.2.2.1, e.2.2.2.2]

example :
    (match parseArgs true ["-vvn".toUTF8.toList], parseArgs true ["-n".toUTF8.toList] with
     | .ok o1, .ok o2 => decide ({ o1 with verbosity := 0 } = { o2 with verbosity := 0 }) && o1.verbosity == 2
     | _, _ => false) = true := by
  decide +kernel

/-! ## dry run in stdin mode (`-d -`)

`C05_dry_no_mutation` is about maildir mode.  With `-` the run has to spool standard input, so it does
create and remove files - its own.  `Proofs.DrySpoolCall env tr c` (Proofs/WorldDryStdin.lean) is the
complete description of a call `c` issued when the calls and results so far are `tr`:

* `fopen` of the configuration file and `fclose` of the stream it returned;
* `mkdtemp` of `TMPDIR/mdsort-XXXXXXXX`; `mkdir` and `opendir` of `root/new` for a `root` that `mkdtemp`
  returned in `tr` (`dry_IsNew`); `openat(O_CREAT|O_EXCL)`, `readdir`, `rewinddir`, `closedir`, `openat(O_RDONLY)`
  on a stream such an `opendir` returned (`dry_IsDir`); `write` and `fsync` on a descriptor such an exclusive
  create returned (`dry_IsFd`); `unlinkat` on such a stream of a name its `readdir` returned; `rmdir` of such a
  `root`, of its `new`, or of the empty path (the cleanup after a failed `mkdtemp`, which names nothing);
* `read` and `close`;
* nothing else: no `renameat`, `unlink`, `utimensat`, `mkostemp`, `fprintf`, `fork`, `waitpid`, `stat`, and no
  `opendir` of a configured maildir or of a destination. -/

/-- `-d -`, whatever the calls return (hence under every fault plan and every interleaving with other
processes), whatever the configuration, the registry and the input are: every call of the run is one of
the calls listed above. -/
theorem C05_dry_stdin (env : PEnv) (orc : EvalOracles) (ok : Bool) (conf : List ConfBlock) (files : Files) (input : Bytes)
    (hd : env.dryrun = true) (hm : env.stdinMode = true) (orcl : Nat → Call → Res) :
    ∀ i c r, (runOracle orcl (mainP env orc ok conf files input) 0 []).2[i]? = some (c, r) →
      Proofs.DrySpoolCall env ((runOracle orcl (mainP env orc ok conf files input) 0 []).2.take i) c :=
  Proofs.dry_stdin_calls env orc ok conf files input hd hm orcl

/-- The same for the execution on the abstract file system under any fault plan (`tr` = the calls the
run added to the trace of the world). -/
theorem C05_dry_stdin_plan (env : PEnv) (orc : EvalOracles) (ok : Bool) (conf : List ConfBlock) (files : Files) (input : Bytes)
    (w : World) (plan : Plan) (hd : env.dryrun = true) (hm : env.stdinMode = true) :
    ∀ i c r, ((runPlan plan (mainP env orc ok conf files input) w 0 []).2.1.trace.drop w.trace.length)[i]? = some (c, r) →
      Proofs.DrySpoolCall env (((runPlan plan (mainP env orc ok conf files input) w 0 []).2.1.trace.drop w.trace.length).take i) c :=
  Proofs.dry_stdin_calls_plan env orc ok conf files input w plan hd hm

/-- Read for the mutating calls only: no process is started, and a mutating call is the `mkdtemp` of the
spool template, the `mkdir` of the spool's `new`, an exclusive create or an `unlinkat` in the spool, a
`write` to the spool file, or the `rmdir` of the spool. -/
theorem C05_dry_stdin_mutating (env : PEnv) (tr : List (Call × Res)) (c : Call) (h : Proofs.DrySpoolCall env tr c) :
    c ≠ .fork ∧ (c.mutating = true →
      (∃ t, c = .mkdtemp t ∧ pathjoin PATH_MAX env.tmpdir (ofString "mdsort-XXXXXXXX") = some t) ∨
      (∃ p, c = .mkdir p ∧ Proofs.dry_IsNew tr p) ∨
      (∃ d n, c = .openExcl d n ∧ Proofs.dry_IsDir tr d) ∨
      (∃ fd data, c = .write fd data ∧ Proofs.dry_IsFd tr fd) ∨
      (∃ d n, c = .unlinkat d n ∧ Proofs.dry_IsDir tr d ∧ (Call.readdir d, Res.name n) ∈ tr) ∨
      (∃ p, c = .rmdir p ∧ (p = [] ∨ Proofs.dry_IsRoot tr p ∨ Proofs.dry_IsNew tr p))) :=
  h.kinds

/-- ... and the spool is gone at the end (`C04_stdin_spool_removed` holds for every rule set, in
particular under `-d`): for one `stdin` block and every fault plan that injects nothing from the first
call of the cleanup on, every directory that exists when `main` returns existed before. -/
theorem C05_dry_stdin_spool_removed (env : PEnv) (orc : EvalOracles) (conf : List ConfBlock) (files : Files) (input : Bytes)
    (expr : Expr) (w : World) (plan : Plan) (hm : env.stdinMode = true) (hs : env.syntaxOnly = false)
    (hc : Proofs.World.stdinExprs conf = [expr]) (hin : Proofs.World.StdinIs w input)
    (hfresh : Proofs.World.SpoolFresh env w)
    (hplan : ∀ j, Proofs.stdinCleanupStart plan env orc expr files input w ≤ j → plan j = none) :
    ∀ q, ((runPlan plan (mainP env orc true conf files input) w 0 []).2.1.dir q).isSome → (w.dir q).isSome :=
  Proofs.stdin_spool_removed env orc conf files input expr w plan hm hs hc hin hfresh hplan

/-- `-n -`: only `fopen` / `fclose` of the configuration (`C05_syntax_nothing` has no hypothesis on the mode). -/
theorem C05_syntax_stdin (env : PEnv) (orc : EvalOracles) (ok : Bool) (conf : List ConfBlock) (files : Files) (input : Bytes)
    (w : World) (plan : Plan) (hn : env.syntaxOnly = true) (_hm : env.stdinMode = true) :
    Proofs.callsOf plan (mainP env orc ok conf files input) w = [.fopen env.confpath] ∨
    ∃ h, Proofs.callsOf plan (mainP env orc ok conf files input) w = [.fopen env.confpath, .fclose h] :=
  Proofs.syntax_only_calls env orc ok conf files input w plan hn

/-! Non-vacuity: the stdin example of C04 (10-byte message, `stdin { match all move "/m/inbox" }`,
`/m/inbox/new` present) run with `-d`. -/

/-- The example environment with `-d`. -/
def C05_exDry : PEnv := { Proofs.StdinExample.env0 with dryrun := true }

example : C05_exDry.dryrun = true ∧ C05_exDry.stdinMode = true := ⟨rfl, rfl⟩

/-- The spool's own mutating calls do occur: `maildir_stdin` of the example without faults. -/
example : Proofs.callsOf Plan.none (maildirStdin C05_exDry Proofs.StdinExample.input0) Proofs.StdinExample.w0 =
    [.mkdtemp (Proofs.World.spoolRoot C05_exDry), .mkdir (Proofs.World.spoolPath C05_exDry),
     .opendir (Proofs.World.spoolPath C05_exDry), .openExcl 1 Proofs.StdinExample.name0, .read 0,
     .write 2 Proofs.StdinExample.input0, .read 0, .fsync 2, .close 2] := by
  decide +kernel

/-- Non-vacuity of `C05_dry_stdin_spool_removed`: the example with `-d`, fault-free. -/
example : ∀ q, ((runPlan Plan.none (mainP C05_exDry Proofs.StdinExample.orc0 true Proofs.StdinExample.conf0 []
    Proofs.StdinExample.input0) Proofs.StdinExample.w0 0 []).2.1.dir q).isSome → (Proofs.StdinExample.w0.dir q).isSome :=
  C05_dry_stdin_spool_removed _ _ _ _ _ _ _ _ rfl rfl Proofs.StdinExample.ex_stdinExprs Proofs.StdinExample.ex_stdinIs
    (by constructor <;> decide +kernel) (fun _ _ => rfl)

example : C05_exDry.syntaxOnly = false ∧ ({ C05_exDry with syntaxOnly := true } : PEnv).syntaxOnly = true := ⟨rfl, rfl⟩

end Mdsort.Props
