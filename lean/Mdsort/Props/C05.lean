import Mdsort.Proofs.Opts
import Mdsort.Proofs.World
import Mdsort.Proofs.WorldDryStdin
import Mdsort.Proofs.WorldStdinExample
import Mdsort.Proofs.WorldDryWorld
import Mdsort.Proofs.WorldDryF21

/-!
# C05 - dry run (-d) and syntax check (-n) never change anything
-/

namespace Mdsort.Props
open Mdsort Mdsort.Model

/-- `-d` in maildir mode: whatever the configuration, the messages and the fault plan are, the run
issues no mutating call (no create, write, rename, unlink, utimensat, mkdir, rmdir) and starts no
process for an action: a `fork` occurs only if some rule tree has a `command` CONDITION
(`Proofs.confHasCommand conf`; conditions are evaluated under `-d` exactly as otherwise - `expr_eval_command`
runs the program -, actions are never executed: `C05_dry_runs_no_action`).

(Audit au1 noted that before package p4 "`c.isFork = false`" held only because the world model had no call for `command` CONDITIONS -
they were evaluated with the constant oracle -1 - while mdsort does run the program of a `command` condition under `-d`.  The
conditions are now evaluated inside the run, `Model.evalP`; the statement says when a `fork` occurs, and the world-level theorems
of C01-C06 speak about runs in which those conditions are answered by the operating system.) -/
theorem C05_dry_no_mutation (env : PEnv) (orc : EvalOracles) (ok : Bool) (conf : List ConfBlock) (files : Files) (input : Bytes)
    (w : World) (plan : Plan) (hd : env.dryrun = true) (hm : env.stdinMode = false) :
    ∀ c ∈ Proofs.callsOf plan (mainP env orc ok conf files input) w,
      c.mutating = false ∧ (c.isFork = true → Proofs.confHasCommand conf = true) :=
  Proofs.dryrun_no_mutation env orc ok conf files input w plan hd hm

/-- In particular a configuration without `command` condition starts no process under `-d` (the statement as it was
before evaluation was part of the world model). -/
theorem C05_dry_no_fork (env : PEnv) (orc : EvalOracles) (ok : Bool) (conf : List ConfBlock) (files : Files) (input : Bytes)
    (w : World) (plan : Plan) (hd : env.dryrun = true) (hm : env.stdinMode = false)
    (hc : Proofs.confHasCommand conf = false) :
    ∀ c ∈ Proofs.callsOf plan (mainP env orc ok conf files input) w, c.mutating = false ∧ c.isFork = false := by
  intro c hcm
  obtain ⟨h1, h2⟩ := C05_dry_no_mutation env orc ok conf files input w plan hd hm c hcm
  refine ⟨h1, ?_⟩
  cases hf : c.isFork with
  | false => rfl
  | true => rw [h2 hf] at hc; cases hc

/-- **No exec action runs under `-d`**: once the rules have decided (whatever the verdict is: any action list, with
any number of `exec` actions), the rest of the processing of the message is closing its descriptor - no `fork`, nothing
else.  The only processes a dry run starts are those of `command` conditions during evaluation
(`C03_evaluation_calls`). -/
theorem C05_dry_runs_no_action (env : PEnv) (md : Maildir) (name : Bytes) (st : MainSt) (ms : MsgSt) (v : Proofs.Verdict)
    (hd : env.dryrun = true) :
    Proofs.World.Calls Proofs.IsClose (Proofs.afterVerdict env md name st ms v) :=
  (Proofs.Own.dry_afterVerdict env md name st ms v hd).1

example : ({ Proofs.examplePEnv with dryrun := true } : PEnv).dryrun = true := rfl
example : Proofs.confHasCommand [] = false := rfl

/-- `-n`: the whole run is opening and closing the configuration file. -/
theorem C05_syntax_nothing (env : PEnv) (orc : EvalOracles) (ok : Bool) (conf : List ConfBlock) (files : Files) (input : Bytes)
    (w : World) (plan : Plan) (hn : env.syntaxOnly = true) :
    Proofs.callsOf plan (mainP env orc ok conf files input) w = [.fopen env.confpath] ∨
    ∃ h, Proofs.callsOf plan (mainP env orc ok conf files input) w = [.fopen env.confpath, .fclose h] :=
  Proofs.syntax_only_calls env orc ok conf files input w plan hn

/-! ## The command line (package ce13): which mode a run is in

`Model.parseArgs` (Model/Opts.lean) transcribes the `getopt(argc, argv, "D:df:nv")` loop of `main` and the operand test
(glibc's `getopt`: it permutes unless `POSIXLY_CORRECT` is set - `permute`); `Model.mainArgs` is the whole program from
`argv[1..]`, the raw environment and the text of the configuration file.  `Spec.cmdline` (Spec/Cmdline.lean) is the
command line as mdsort(1) documents it: option words `-dnv...`, `-f file`, `-D name=value` (joined or separate, in
any order, clustered), then `-` or nothing. -/

/-- For EVERY documented command line - any number of well-formed option words in any order, then `-` or nothing, with
or without `--` before the operand, under both orderings of `getopt` - `parseArgs` computes the documented meaning.
In particular (third part) the run is a syntax check iff SOME word holds an `n`, a dry run iff some word holds a `d`,
in stdin mode iff `-` was given, and the macros are the `-D` words in order. -/
theorem C05_options_select_mode (permute : Bool) (items : List Spec.CmdItem) (hwf : ∀ it ∈ items, it.wf = true) (stdin : Bool) :
    parseArgs permute (Spec.renderCmd items ++ (if stdin then [[45]] else [])) = Spec.cmdline items stdin ∧
    parseArgs permute (Spec.renderCmd items ++ dashdash :: (if stdin then [[45]] else [])) = Spec.cmdline items stdin ∧
    ∀ o, Spec.cmdline items stdin = .ok o →
      o.syntaxOnly = (items.any fun it => it.letters.contains 110) ∧
      o.dryrun = (items.any fun it => it.letters.contains 100) ∧
      o.stdinMode = stdin ∧ o.defs = items.filterMap Spec.CmdItem.defineOf := by
  refine ⟨Proofs.Opts.parseArgs_cmdline permute items hwf stdin, ?_, ?_⟩
  · rw [Proofs.Opts.parseArgs_words_dashdash permute items hwf]
    unfold Spec.cmdline
    cases Spec.cmdMeaning items {} with
    | error e => rfl
    | ok o => cases stdin <;> simp [operandStep]
  · intro o h
    unfold Spec.cmdline at h
    cases hm : Spec.cmdMeaning items {} with
    | error e => rw [hm] at h; cases h
    | ok o1 =>
      rw [hm] at h
      simp only [Except.ok.injEq] at h
      subst h
      obtain ⟨a1, a2, a3, a4⟩ := Proofs.Opts.cmdMeaning_fields items {} o1 hm
      obtain ⟨d1, d2, d3, d4, _⟩ := Proofs.Opts.dryVerbosity_fields (if stdin = true then { o1 with stdinMode := true } else o1)
      rw [d1, d2, d3, d4]
      cases stdin
      · simp only [Bool.false_eq_true, if_false]
        exact ⟨by rw [a1]; rfl, by rw [a2]; rfl, by rw [a3], by rw [a4]; rfl⟩
      · simp only [if_true]
        exact ⟨by rw [a1]; rfl, by rw [a2]; rfl, trivial, by rw [a4]; rfl⟩

/-- Non-vacuity and the shapes the generators use: `-n` last, first, clustered, after the operand (permuted), `-f`
joined and separate, the last `-f` wins, `-d` makes the run verbose. -/
example :
    (parseArgs true ["-f".toUTF8.toList, "c".toUTF8.toList, "-n".toUTF8.toList]).toOption.map (·.syntaxOnly) = some true ∧
    (parseArgs true ["-vnd".toUTF8.toList, "-fc".toUTF8.toList]).toOption.map (fun o => (o.syntaxOnly, o.dryrun, o.verbosity, o.confpath)) =
      some (true, true, 1, some "c".toUTF8.toList) ∧
    (parseArgs true ["-".toUTF8.toList, "-n".toUTF8.toList]).toOption.map (fun o => (o.syntaxOnly, o.stdinMode)) = some (true, true) ∧
    parseArgs false ["-".toUTF8.toList, "-n".toUTF8.toList] = .error .usage := by
  decide +kernel

example :
    (parseArgs true ["-f".toUTF8.toList, "a".toUTF8.toList, "-f".toUTF8.toList, "b".toUTF8.toList]).toOption.map (·.confpath) =
      some (some "b".toUTF8.toList) ∧
    (parseArgs true ["-d".toUTF8.toList]).toOption.map (·.verbosity) = some 1 ∧
    (parseArgs true ["-dvv".toUTF8.toList]).toOption.map (·.verbosity) = some 2 ∧
    (parseArgs true []).toOption.map (fun o => (o.syntaxOnly, o.dryrun, o.stdinMode, o.confpath.isNone, o.verbosity)) =
      some (false, false, false, true, 0) := by
  decide +kernel

/-- glibc's permutation as a theorem: operands (non-options) standing BETWEEN option words do not end the options - the
words after them count as if they stood before (`mdsort - -n` is a syntax check of stdin mode).  With `POSIXLY_CORRECT`
the first non-option ends the options and everything after it is an operand (`mdsort - -n`: two operands, usage). -/
theorem C05_options_after_operand (items1 items2 : List Spec.CmdItem) (h1 : ∀ it ∈ items1, it.wf = true)
    (h2 : ∀ it ∈ items2, it.wf = true) (ops : List Bytes) (hops : ops.all isNonOption = true) :
    parseArgs true (Spec.renderCmd items1 ++ ops ++ Spec.renderCmd items2) = parseArgs true (Spec.renderCmd (items1 ++ items2) ++ ops) ∧
    ∀ a rest, isNonOption a = true →
      parseArgs false (Spec.renderCmd items1 ++ a :: rest) =
        match Spec.cmdMeaning items1 {} with
        | .error e => .error e
        | .ok o =>
          match operandStep o (a :: rest) with
          | .error e => .error e
          | .ok o' => .ok (dryVerbosity o') :=
  ⟨Proofs.Opts.parseArgs_permuted items1 items2 h1 h2 ops hops,
   fun a rest ha => Proofs.Opts.parseArgs_posix_stops items1 h1 a ha rest⟩

/-- `-n` on the command line, anywhere `parseArgs` accepts it: whatever the environment, the configuration text, the
maildirs and the fault plan, the run ends with status 1 before any call (`readenv` / `defaultconf` give up), or it opens
the configuration file - the `-f` argument, else `$HOME/.mdsort.conf` - closes it, and issues no other call: no maildir,
no message, no process (`C05_syntax_nothing` for the run from `argv`). -/
theorem C05_args_syntax_nothing (permute : Bool) (args : List Bytes) (raw : RawEnv) (env : PEnv) (orc : EvalOracles)
    (rxOk : Pat → Bool) (confText : Bytes) (files : Files) (input : Bytes) (w : World) (plan : Plan) (o : Opts)
    (h : parseArgs permute args = .ok o) (hn : o.syntaxOnly = true) :
    Proofs.callsOf plan (mainArgs permute args raw env orc rxOk confText files input) w = [] ∨
    ∃ home tmpdir confpath, startPaths raw o.confpath = .ok (home, tmpdir, confpath) ∧
      (Proofs.callsOf plan (mainArgs permute args raw env orc rxOk confText files input) w = [.fopen confpath] ∨
       ∃ hd, Proofs.callsOf plan (mainArgs permute args raw env orc rxOk confText files input) w = [.fopen confpath, .fclose hd]) := by
  rcases Proofs.Opts.mainArgs_accepted permute args raw env orc rxOk confText files input o h with h1 | ⟨home, tmpdir, confpath, ok, conf, hs, h2⟩
  · left
    rw [h1]; exact (Proofs.Opts.ret_run plan _ w).2
  · right
    refine ⟨home, tmpdir, confpath, hs, ?_⟩
    rw [h2]
    exact C05_syntax_nothing (Proofs.Opts.runEnv env o home tmpdir confpath) orc ok conf files input w plan hn

/-- `-d` on the command line (without `-`): no call of the run changes anything, and a process is started only for a
`command` CONDITION of the configuration the run reads (`C05_dry_no_mutation` for the run from `argv`: a `fork` occurs only
when the run is `mainP` of a configuration with `Proofs.confHasCommand`; never for an action). -/
theorem C05_args_dry_no_mutation (permute : Bool) (args : List Bytes) (raw : RawEnv) (env : PEnv) (orc : EvalOracles)
    (rxOk : Pat → Bool) (confText : Bytes) (files : Files) (input : Bytes) (w : World) (plan : Plan) (o : Opts)
    (h : parseArgs permute args = .ok o) (hd : o.dryrun = true) (hm : o.stdinMode = false) :
    ∀ c ∈ Proofs.callsOf plan (mainArgs permute args raw env orc rxOk confText files input) w,
      c.mutating = false ∧
      (c.isFork = true → ∃ home tmpdir confpath ok conf,
        mainArgs permute args raw env orc rxOk confText files input =
          mainP (Proofs.Opts.runEnv env o home tmpdir confpath) orc ok conf files input ∧
        Proofs.confHasCommand conf = true) := by
  rcases Proofs.Opts.mainArgs_accepted permute args raw env orc rxOk confText files input o h with h1 | ⟨home, tmpdir, confpath, ok, conf, _, h2⟩
  · rw [h1, (Proofs.Opts.ret_run plan _ w).2]; intro c hc; cases hc
  · intro c hc
    rw [h2] at hc
    have := C05_dry_no_mutation (Proofs.Opts.runEnv env o home tmpdir confpath) orc ok conf files input w plan hd hm c hc
    exact ⟨this.1, fun hf => ⟨home, tmpdir, confpath, ok, conf, h2, this.2 hf⟩⟩

/-- `-v` changes nothing but stderr: two command lines whose accepted options differ in the verbosity only are the same
program (the correspondence compares the final trees and exit statuses of runs with and without `-v`). -/
theorem C05_verbose_same_run (p1 p2 : Bool) (args1 args2 : List Bytes) (o1 o2 : Opts) (h1 : parseArgs p1 args1 = .ok o1)
    (h2 : parseArgs p2 args2 = .ok o2) (heq : { o1 with verbosity := 0 } = { o2 with verbosity := 0 })
    (raw : RawEnv) (env : PEnv) (orc : EvalOracles) (rxOk : Pat → Bool) (confText : Bytes) (files : Files) (input : Bytes) :
    mainArgs p1 args1 raw env orc rxOk confText files input = mainArgs p2 args2 raw env orc rxOk confText files input := by
  have e : o1.dryrun = o2.dryrun ∧ o1.syntaxOnly = o2.syntaxOnly ∧ o1.stdinMode = o2.stdinMode ∧ o1.confpath = o2.confpath ∧
      o1.defs = o2.defs := by
    cases o1; cases o2
    simp only [Opts.mk.injEq] at heq
    exact ⟨heq.1, heq.2.1, heq.2.2.1, heq.2.2.2.1, heq.2.2.2.2.1⟩
  simp only [mainArgs, h1, h2, e.1, e.2.1, e.2.2.1, e.2.2.2.1, e.2.2.2.2]

example :
    (match parseArgs true ["-vvn".toUTF8.toList], parseArgs true ["-n".toUTF8.toList] with
     | .ok o1, .ok o2 => decide ({ o1 with verbosity := 0 } = { o2 with verbosity := 0 }) && o1.verbosity == 2
     | _, _ => false) = true := by
  decide +kernel

/-! ## dry run in stdin mode (`-d -`)

`C05_dry_no_mutation` is about maildir mode.  With `-` the run has to spool standard input, so it does
create and remove files - its own.  `Proofs.DrySpoolCall env tr c` (Proofs/WorldDryStdin.lean) is the
complete description of a call `c` issued when the calls and results so far are `tr`:

* `fopen` of the configuration file and `fclose` of the stream it returned;
* `mkdtemp` of `TMPDIR/mdsort-XXXXXXXX`; `mkdir` and `opendir` of `root/new` for a `root` that `mkdtemp`
  returned in `tr` (`dry_IsNew`); `openat(O_CREAT|O_EXCL)`, `readdir`, `rewinddir`, `closedir`, `openat(O_RDONLY)`
  on a stream such an `opendir` returned (`dry_IsDir`); `write` and `fsync` on a descriptor such an exclusive
  create returned (`dry_IsFd`); `unlinkat` on such a stream of a name its `readdir` returned; `rmdir` of such a
  `root`, of its `new`, or of the empty path (the cleanup after a failed `mkdtemp`, which names nothing);
* `read` and `close`;
* the calls of the conditions that ask the operating system: `open("/dev/null")`, `fork`, `waitpid` only if some rule
  tree has a `command` condition (`cm = Proofs.confHasCommand conf`), `stat` only if some has an `isdirectory` or a
  file-time `date` condition (`sa = Proofs.confHasStat conf`);
* nothing else: no `renameat`, `unlink`, `utimensat`, `mkostemp`, `fprintf`, and no
  `opendir` of a configured maildir or of a destination; no process for an action. -/

/-- `-d -`, whatever the calls return (hence under every fault plan and every interleaving with other
processes), whatever the configuration, the registry and the input are: every call of the run is one of
the calls listed above.  (Audit au1 / package p12: "the run" is the model's - the spool is walked with fuel `64 + env.extraFuel` and cleaned
with a loop of the same allowance; an oracle whose `readdir` returns more than that many names makes the model stop where
mdsort would continue - the final state then has `fuelOut = true` (no longer silent).  Covered: every `env`, i.e. every
allowance; a run that ends with `fuelOut = false` is the run of the unbounded loops (`C04_fuel_irrelevant`).  Under
`runPlan` - the spool holds one file - the standard fuel suffices: `C04_stdin_spool_removed` could not hold otherwise.) -/
theorem C05_dry_stdin (env : PEnv) (orc : EvalOracles) (ok : Bool) (conf : List ConfBlock) (files : Files) (input : Bytes)
    (hd : env.dryrun = true) (hm : env.stdinMode = true) (orcl : Nat → Call → Res) :
    ∀ i c r, (runOracle orcl (mainP env orc ok conf files input) 0 []).2[i]? = some (c, r) →
      Proofs.DrySpoolCall env (Proofs.confHasCommand conf) (Proofs.confHasStat conf)
        ((runOracle orcl (mainP env orc ok conf files input) 0 []).2.take i) c :=
  Proofs.dry_stdin_calls env orc ok conf files input hd hm orcl

/-- The same for the execution on the abstract file system under any fault plan (`tr` = the calls the
run added to the trace of the world). -/
theorem C05_dry_stdin_plan (env : PEnv) (orc : EvalOracles) (ok : Bool) (conf : List ConfBlock) (files : Files) (input : Bytes)
    (w : World) (plan : Plan) (hd : env.dryrun = true) (hm : env.stdinMode = true) :
    ∀ i c r, ((runPlan plan (mainP env orc ok conf files input) w 0 []).2.1.trace.drop w.trace.length)[i]? = some (c, r) →
      Proofs.DrySpoolCall env (Proofs.confHasCommand conf) (Proofs.confHasStat conf)
        (((runPlan plan (mainP env orc ok conf files input) w 0 []).2.1.trace.drop w.trace.length).take i) c :=
  Proofs.dry_stdin_calls_plan env orc ok conf files input w plan hd hm

/-- (Audit au1: a reading lemma - the hypothesis `DrySpoolCall env cm sa tr c` contains the conclusion, this is its projection
`DrySpoolCall.kinds`; the statement about runs is `C05_dry_stdin`.)
Read for the mutating calls only: a process is started only for a `command` condition, and a mutating call is the
`mkdtemp` of the spool template, the `mkdir` of the spool's `new`, an exclusive create or an `unlinkat` in the spool, a
`write` to the spool file, or the `rmdir` of the spool. -/
theorem C05_dry_stdin_mutating (env : PEnv) (cm sa : Bool) (tr : List (Call × Res)) (c : Call)
    (h : Proofs.DrySpoolCall env cm sa tr c) :
    (c.isFork = true → cm = true) ∧ (c.mutating = true →
      (∃ t, c = .mkdtemp t ∧ pathjoin PATH_MAX env.tmpdir (ofString "mdsort-XXXXXXXX") = some t) ∨
      (∃ p, c = .mkdir p ∧ Proofs.dry_IsNew tr p) ∨
      (∃ d n, c = .openExcl d n ∧ Proofs.dry_IsDir tr d) ∨
      (∃ fd data, c = .write fd data ∧ Proofs.dry_IsFd tr fd) ∨
      (∃ d n, c = .unlinkat d n ∧ Proofs.dry_IsDir tr d ∧ (Call.readdir d, Res.name n) ∈ tr) ∨
      (∃ p, c = .rmdir p ∧ (p = [] ∨ Proofs.dry_IsRoot tr p ∨ Proofs.dry_IsNew tr p))) :=
  h.kinds

/-- (Audit au1: verbatim `C04_stdin_spool_removed` - there is no hypothesis `env.dryrun = true`.)
... and the spool is gone at the end (`C04_stdin_spool_removed` holds for every rule set, in
particular under `-d`): for one `stdin` block and every fault plan that injects nothing from the first
call of the cleanup on, every directory that exists when `main` returns existed before. -/
theorem C05_dry_stdin_spool_removed (env : PEnv) (orc : EvalOracles) (conf : List ConfBlock) (files : Files) (input : Bytes)
    (expr : Expr) (w : World) (plan : Plan) (hm : env.stdinMode = true) (hs : env.syntaxOnly = false)
    (hc : Proofs.World.stdinExprs conf = [expr]) (hin : Proofs.World.StdinIs w input)
    (hfresh : Proofs.World.SpoolFresh env w)
    (hplan : ∀ j, Proofs.stdinCleanupStart plan env orc expr files input w ≤ j → plan j = none) :
    ∀ q, ((runPlan plan (mainP env orc true conf files input) w 0 []).2.1.dir q).isSome → (w.dir q).isSome :=
  Proofs.stdin_spool_removed env orc conf files input expr w plan hm hs hc hin hfresh hplan

/-- `-n -`: only `fopen` / `fclose` of the configuration (`C05_syntax_nothing` has no hypothesis on the mode; audit au1: this
is that theorem again, `_hm` is not used). -/
theorem C05_syntax_stdin (env : PEnv) (orc : EvalOracles) (ok : Bool) (conf : List ConfBlock) (files : Files) (input : Bytes)
    (w : World) (plan : Plan) (hn : env.syntaxOnly = true) (_hm : env.stdinMode = true) :
    Proofs.callsOf plan (mainP env orc ok conf files input) w = [.fopen env.confpath] ∨
    ∃ h, Proofs.callsOf plan (mainP env orc ok conf files input) w = [.fopen env.confpath, .fclose h] :=
  Proofs.syntax_only_calls env orc ok conf files input w plan hn

/-- Non-vacuity of `C05_dry_stdin_mutating` (added by audit au1): at the start of the example run the `mkdtemp` of the spool
template is a `DrySpoolCall`, and it is mutating. -/
example : Proofs.DrySpoolCall { Proofs.StdinExample.env0 with dryrun := true } false false []
      (.mkdtemp (Proofs.World.spoolRoot { Proofs.StdinExample.env0 with dryrun := true })) ∧
    (Call.mkdtemp (Proofs.World.spoolRoot { Proofs.StdinExample.env0 with dryrun := true })).mutating = true :=
  ⟨show pathjoin PATH_MAX ({ Proofs.StdinExample.env0 with dryrun := true } : PEnv).tmpdir (ofString "mdsort-XXXXXXXX") =
      some (Proofs.World.spoolRoot { Proofs.StdinExample.env0 with dryrun := true }) by decide +kernel, rfl⟩

/-! Non-vacuity: the stdin example of C04 (10-byte message, `stdin { match all move "/m/inbox" }`,
`/m/inbox/new` present) run with `-d`. -/

/-- The example environment with `-d`. -/
def C05_exDry : PEnv := { Proofs.StdinExample.env0 with dryrun := true }

example : C05_exDry.dryrun = true ∧ C05_exDry.stdinMode = true := ⟨rfl, rfl⟩

/-- The spool's own mutating calls do occur: `maildir_stdin` of the example without faults. -/
example : Proofs.callsOf Plan.none (maildirStdin C05_exDry Proofs.StdinExample.input0) Proofs.StdinExample.w0 =
    [.mkdtemp (Proofs.World.spoolRoot C05_exDry), .mkdir (Proofs.World.spoolPath C05_exDry),
     .opendir (Proofs.World.spoolPath C05_exDry), .openExcl 1 Proofs.StdinExample.name0, .read 0,
     .write 2 Proofs.StdinExample.input0, .read 0, .fsync 2, .close 2] := by
  decide +kernel

/-- Non-vacuity of `C05_dry_stdin_spool_removed`: the example with `-d`, fault-free. -/
example : ∀ q, ((runPlan Plan.none (mainP C05_exDry Proofs.StdinExample.orc0 true Proofs.StdinExample.conf0 []
    Proofs.StdinExample.input0) Proofs.StdinExample.w0 0 []).2.1.dir q).isSome → (Proofs.StdinExample.w0.dir q).isSome :=
  C05_dry_stdin_spool_removed _ _ _ _ _ _ _ _ rfl rfl Proofs.StdinExample.ex_stdinExprs Proofs.StdinExample.ex_stdinIs
    (by constructor <;> decide +kernel) (fun _ _ => rfl)

example : C05_exDry.syntaxOnly = false ∧ ({ C05_exDry with syntaxOnly := true } : PEnv).syntaxOnly = true := ⟨rfl, rfl⟩

/-! ## world level: what the file system looks like

The theorems above say which CALLS a dry run issues.  These say what the abstract file system (`Model.World`:
directories with their entries, files with visible and durable content, modification times) looks like after EVERY call
of the run under EVERY fault plan - the lift through `applyOk` / `runPlan`.  `(runPlan ..).2.2` is the list of worlds
after each call, `(runPlan ..).2.1` the final world.

`Proofs.World.SameDisk w w'`: `w'.dirs = w.dirs` (the same directories with the same entries: names and file ids),
`w'.files = w.files` (the same files with the same `data` and `durable`), `w'.mtimes = w.mtimes`, same id counter.
`Proofs.World.PreExisting w w'`: every directory of `w` has the same entries in `w'`, every file of `w` (id below
`w.nextFid`) the same `data` and `durable`, the modification times are the same. -/

/-- **`-d`, maildir mode.**  For every configuration, registry, input, every initial world in which no descriptor is a
stdio stream on a file (a process starts like that) and every fault plan: after every call of the run and at its end the
file system is literally the initial one - only the descriptor table and the trace have changed. -/
theorem C05_dry_world_unchanged (env : PEnv) (orc : EvalOracles) (ok : Bool) (conf : List ConfBlock) (files : Files)
    (input : Bytes) (w : World) (plan : Plan) (hd : env.dryrun = true) (hm : env.stdinMode = false)
    (hns : Proofs.World.NoStreams w) (w' : World)
    (hw' : w' = (runPlan plan (mainP env orc ok conf files input) w 0 []).2.1 ∨
      w' ∈ (runPlan plan (mainP env orc ok conf files input) w 0 []).2.2) :
    Proofs.World.SameDisk w w' :=
  Proofs.World.dry_world_unchanged env orc ok conf files input w plan hd hm hns w' hw'

/-- Read entry by entry: every name bound before is bound to the same file, with the same content (visible and durable)
and the same modification time.  (Audit au1: a reading lemma for `SameDisk`, no statement about runs.) -/
theorem C05_dry_world_entries (w w' : World) (h : Proofs.World.SameDisk w w') (q n : Bytes) (fid : Nat)
    (hl : w.lookup q n = some fid) :
    w'.lookup q n = some fid ∧ w'.file fid = w.file fid ∧ w'.mtime fid = w.mtime fid ∧ w'.dir q = w.dir q :=
  ⟨by rw [h.lookup]; exact hl, h.file fid, h.mtime fid, h.dir q⟩

/-- **`-d -`, stdin mode.**  The initial world must leave room for the spool (`DryStart`: the two paths `mkdtemp` /
`mkdir` will create name no directory yet, and the empty path names none).  Then for every configuration, input and fault
plan: after every call of the run and at its end every PRE-EXISTING directory has exactly its initial entries and every
pre-existing file its initial visible and durable content and modification time - whatever the run creates, writes and
removes is its own spool.  (Proof: `C05_dry_stdin_plan` + the coherence of trace and world `Proofs.World.DryCoh`.) -/
theorem C05_dry_stdin_world_unchanged (env : PEnv) (orc : EvalOracles) (ok : Bool) (conf : List ConfBlock) (files : Files)
    (input : Bytes) (w : World) (plan : Plan) (hd : env.dryrun = true) (hm : env.stdinMode = true)
    (hs : Proofs.World.DryStart env w) (w' : World)
    (hw' : w' = (runPlan plan (mainP env orc ok conf files input) w 0 []).2.1 ∨
      w' ∈ (runPlan plan (mainP env orc ok conf files input) w 0 []).2.2) :
    Proofs.World.PreExisting w w' :=
  Proofs.World.dry_stdin_world_unchanged env orc ok conf files input w plan hd hm hs w' hw'

/-- Entry by entry, as above.  (Audit au1: a reading lemma for `PreExisting`.) -/
theorem C05_dry_stdin_world_entries (w w' : World) (h : Proofs.World.PreExisting w w') (q n : Bytes) (fid : Nat)
    (hl : w.lookup q n = some fid) (hfid : fid < w.nextFid) :
    w'.lookup q n = some fid ∧ w'.file fid = w.file fid ∧ w'.mtime fid = w.mtime fid :=
  ⟨h.lookup hl, h.files fid hfid, h.mtime fid⟩

/-- **... and the spool is gone at the end** (with `C05_dry_stdin_spool_removed`): one `stdin` block, and the plan
injects nothing from the first call of the cleanup on (the calls of `maildir_close`: `rewinddir`, `readdir`, `unlinkat`,
`rmdir`, `rmdir`, `closedir` - a failure there leaves the spool behind, F17e): at the end the directories are EXACTLY the
initial ones, each with its initial entries - `dir q` of the final world equals `dir q` of the initial world for every
path `q`, so neither the directory `mkdtemp` made nor its `new` exists any more. -/
theorem C05_dry_stdin_world_restored (env : PEnv) (orc : EvalOracles) (conf : List ConfBlock) (files : Files) (input : Bytes)
    (expr : Expr) (w : World) (plan : Plan) (hd : env.dryrun = true) (hm : env.stdinMode = true) (hsx : env.syntaxOnly = false)
    (hc : Proofs.World.stdinExprs conf = [expr]) (hin : Proofs.World.StdinIs w input) (hs : Proofs.World.DryStart env w)
    (hplan : ∀ j, Proofs.stdinCleanupStart plan env orc expr files input w ≤ j → plan j = none) :
    ∀ q, (runPlan plan (mainP env orc true conf files input) w 0 []).2.1.dir q = w.dir q :=
  Proofs.World.dry_stdin_world_restored env orc conf files input expr w plan hd hm hsx hc hin hs hplan

/-! Non-vacuity. -/

/-- Maildir mode: the two-message maildir `/m` of `Proofs.wholeExWorld` with the rule `match all flag "cur"` and `-d`
(`Proofs.dry_f21DryEnv`, `Proofs.dry_f21Conf`: the run of `C06_F21_witness`, which ends with status 0 and two log lines -
both messages are parsed and evaluated): the hypotheses hold, so the file system after that run is the initial one; a
real run of the same configuration moves both messages. -/
example : Proofs.dry_f21DryEnv.dryrun = true ∧ Proofs.dry_f21DryEnv.stdinMode = false ∧
    Proofs.World.NoStreams Proofs.wholeExWorld :=
  ⟨rfl, rfl, Proofs.World.noStreams_of_ok (by decide)⟩

example :
    (runPlan Plan.none (mainP Proofs.dry_f21DryEnv Proofs.wholeExOrc true Proofs.dry_f21Conf Proofs.wholeExFiles [])
      Proofs.wholeExWorld 0 []).1.2.log.length = 2 ∧
    Proofs.World.SameDisk Proofs.wholeExWorld
      (runPlan Plan.none (mainP Proofs.dry_f21DryEnv Proofs.wholeExOrc true Proofs.dry_f21Conf Proofs.wholeExFiles [])
        Proofs.wholeExWorld 0 []).2.1 :=
  ⟨Proofs.dry_f21_witness.2.2.2,
   C05_dry_world_unchanged _ _ _ _ _ _ _ _ rfl rfl (Proofs.World.noStreams_of_ok (by decide)) _ (.inl rfl)⟩

/-- ... entry by entry: `/m/new/1.h` is still bound to file 0, with its content and time. -/
example :
    let w' := (runPlan Plan.none (mainP Proofs.dry_f21DryEnv Proofs.wholeExOrc true Proofs.dry_f21Conf Proofs.wholeExFiles [])
      Proofs.wholeExWorld 0 []).2.1
    Proofs.wholeExWorld.lookup Proofs.exNew Proofs.exName = some 0 ∧ w'.lookup Proofs.exNew Proofs.exName = some 0 ∧
      w'.file 0 = Proofs.wholeExWorld.file 0 :=
  have h := C05_dry_world_entries _ _ (C05_dry_world_unchanged Proofs.dry_f21DryEnv Proofs.wholeExOrc true Proofs.dry_f21Conf
    Proofs.wholeExFiles [] Proofs.wholeExWorld Plan.none rfl rfl (Proofs.World.noStreams_of_ok (by decide)) _ (.inl rfl))
    Proofs.exNew Proofs.exName 0 (by decide)
  ⟨by decide, h.1, h.2.1⟩

/-- Stdin mode: the example of `C05_exDry`: the world has `/m/inbox/new` (empty) and the file behind standard input. -/
theorem C05_exDry_start : Proofs.World.DryStart C05_exDry Proofs.StdinExample.w0 :=
  ⟨by constructor <;> decide +kernel, by decide⟩

example : Proofs.World.PreExisting Proofs.StdinExample.w0
    (runPlan Plan.none (mainP C05_exDry Proofs.StdinExample.orc0 true Proofs.StdinExample.conf0 [] Proofs.StdinExample.input0)
      Proofs.StdinExample.w0 0 []).2.1 :=
  C05_dry_stdin_world_unchanged _ _ _ _ _ _ _ _ rfl rfl C05_exDry_start _ (.inl rfl)

/-- ... entry by entry, for a world in which `/m/inbox/new` already holds a message `x` (file 1): untouched by `-d -`. -/
def C05_exW1 : World :=
  { Proofs.StdinExample.w0 with
    dirs := [(Proofs.StdinExample.inbox ++ [47, 110, 101, 119], [([120], 1)])],
    files := [(0, ⟨Proofs.StdinExample.input0, Proofs.StdinExample.input0⟩), (1, ⟨[104, 105], [104, 105]⟩)], nextFid := 2 }

example :
    let w' := (runPlan Plan.none (mainP C05_exDry Proofs.StdinExample.orc0 true Proofs.StdinExample.conf0 [] Proofs.StdinExample.input0)
      C05_exW1 0 []).2.1
    C05_exW1.lookup (Proofs.StdinExample.inbox ++ [47, 110, 101, 119]) [120] = some 1 ∧
      w'.lookup (Proofs.StdinExample.inbox ++ [47, 110, 101, 119]) [120] = some 1 ∧ w'.file 1 = C05_exW1.file 1 :=
  have h := C05_dry_stdin_world_entries _ _ (C05_dry_stdin_world_unchanged C05_exDry Proofs.StdinExample.orc0 true
    Proofs.StdinExample.conf0 [] Proofs.StdinExample.input0 C05_exW1 Plan.none rfl rfl
    ⟨by constructor <;> decide +kernel, by decide⟩ _ (.inl rfl))
    (Proofs.StdinExample.inbox ++ [47, 110, 101, 119]) [120] 1 (by decide) (by decide)
  ⟨by decide, h.1, h.2.1⟩

example : ∀ q, (runPlan Plan.none (mainP C05_exDry Proofs.StdinExample.orc0 true Proofs.StdinExample.conf0 []
    Proofs.StdinExample.input0) Proofs.StdinExample.w0 0 []).2.1.dir q = Proofs.StdinExample.w0.dir q :=
  C05_dry_stdin_world_restored _ _ _ _ _ _ _ _ rfl rfl rfl Proofs.StdinExample.ex_stdinExprs Proofs.StdinExample.ex_stdinIs
    C05_exDry_start (fun _ _ => rfl)

end Mdsort.Props
