import Mdsort.Proofs.FlagsTime
import Mdsort.Proofs.WorldMtime
import Mdsort.Proofs.WorldGenname
import Mdsort.Proofs.WorldMain

/-!
# C09 - maildir names, flags, subdirectories and timestamps (flag algebra)

This file holds the pure part: parsing flags from a file name, writing them back, and the
`S` adjustment.  Destination (maildir/subdirectory of a sequence of move/flag/flags actions),
fresh names and timestamps are world-level statements (Props/World).
-/

namespace Mdsort.Props
open Mdsort Mdsort.Model

/-- Flags are taken only from the text after the LAST colon of the file name, which must be
`2,` followed by ASCII letters; the result is exactly that set of letters. -/
theorem C09_flags_parse (name : Bytes) : flagsParse name = (Spec.nameFlags name).map Proofs.ofLetters :=
  Proofs.flagsParse_eq_spec name

/-- Flags are written back as `:2,` + upper-case letters ascending + lower-case letters
ascending, each once; the 64-byte buffer always suffices. -/
theorem C09_flags_str (mf : MFlags) (h : Proofs.MFlags.Valid mf) :
    flagsStr mf Gen.flagsMax = some (Spec.flagSuffix (Proofs.lettersOf mf)) :=
  Proofs.flagsStr_eq_spec mf h

/-- Writing and re-reading a flag set is the identity, for every set and every base name. -/
theorem C09_flags_roundtrip (base : Bytes) (mf : MFlags) (h : Proofs.MFlags.Valid mf) (hb : (58 : UInt8) ∉ base) :
    flagsParse (base ++ Spec.flagSuffix (Proofs.lettersOf mf)) = some mf :=
  Proofs.flags_roundtrip base mf h hb

/-- new -> cur gains S, cur -> new loses S, every other flag is preserved. -/
theorem C09_S_adjust (src dst : Subdir) (mf : MFlags) (h : Proofs.MFlags.Valid mf) :
    msgflags src dst mf = some (Spec.flagSuffix (Spec.adjustSeen (src == .new) (dst == .new) (Proofs.lettersOf mf))) :=
  Proofs.msgflags_eq_spec src dst mf h

/-! Non-vacuity: `1.host:2,FS` parses to {F, S}; {F, S, a} is written as `:2,FSa`. -/
example : Model.flagsParse [49, 46, 104, 111, 115, 116, 58, 50, 44, 70, 83] = some ⟨2 ^ 5 + 2 ^ 18, 0⟩ := by
  decide

example : Model.flagsStr ⟨2 ^ 5 + 2 ^ 18, 1⟩ 64 = some [58, 50, 44, 70, 83, 97] := by decide

/-! ## World level: the modification time, fresh names, nothing is replaced

`runPlan plan p w i hist` executes the program on the abstract file system `w` under the fault plan
`plan`, numbering the calls from `i`; `.1` is the value, `.2.1` the final world, `.2.2` the world
after every call appended to `hist`.  `maildir_move` issues the `fstatat` of the source as its
first call (index `i`) unless the source is the stdin spool. -/

/-- A moved message keeps its modification time.  For EVERY fault plan that does not make the
`fstatat` of the source fail (the call with index `i`), source and destination open on existing
directories, source not the stdin spool: if `maildir_move` reports no error, the message's new
location `(dst.path, name')` is a name that was not bound before, bound now to the very same file
(rename on one device) or to the file `maildir_genname` created (copy across devices, `EXDEV`), and
the modification time of that file is the time the source file had. -/
theorem C09_mtime (env : PEnv) (src dst : Maildir) (ms : MsgSt) (w : World) (plan : Plan) (i : Nat) (hist : List World)
    (sh dh : Handle) (fid : Nat)
    (hsh : src.dirH = some sh) (hdh : dst.dirH = some dh)
    (hsrc : w.dirPath sh = some src.path) (hdst : w.dirPath dh = some dst.path) (hdir : (w.dir dst.path).isSome)
    (hstdin : src.stdin = false) (hbound : w.lookup src.path ms.name = some fid)
    (hstat : ∀ e, plan i ≠ some (.fail e))
    (hok : (runPlan plan (maildirMove env src dst ms) w i hist).1.2 = false) :
    ∃ name' fid', (runPlan plan (maildirMove env src dst ms) w i hist).1.1.loc = some (dst.path, name') ∧
      w.lookup dst.path name' = none ∧
      (runPlan plan (maildirMove env src dst ms) w i hist).2.1.lookup dst.path name' = some fid' ∧
      (fid' = fid ∨ fid' = w.nextFid) ∧
      (runPlan plan (maildirMove env src dst ms) w i hist).2.1.mtime fid' = w.mtime fid :=
  Proofs.World.move_mtime env src dst ms w plan i hist sh dh fid hsh hdh hsrc hdst hdir hstdin hbound hstat hok

/-- The converse, for every world: when the plan makes the `fstatat` fail, a move that reports no
error has set NO modification time at all (the table of times is the one before the move) - a
renamed file keeps its time because it is the same file, a copy has the time of its creation. -/
theorem C09_mtime_not_set_when_stat_fails (env : PEnv) (src dst : Maildir) (ms : MsgSt) (w : World) (plan : Plan)
    (i : Nat) (hist : List World) (sh dh : Handle) (fid : Nat) (e : String)
    (hsh : src.dirH = some sh) (hdh : dst.dirH = some dh)
    (hsrc : w.dirPath sh = some src.path) (hdst : w.dirPath dh = some dst.path) (hdir : (w.dir dst.path).isSome)
    (hstdin : src.stdin = false) (hbound : w.lookup src.path ms.name = some fid)
    (hfail : plan i = some (.fail e))
    (hok : (runPlan plan (maildirMove env src dst ms) w i hist).1.2 = false) :
    ∃ name' fid', (runPlan plan (maildirMove env src dst ms) w i hist).1.1.loc = some (dst.path, name') ∧
      (runPlan plan (maildirMove env src dst ms) w i hist).2.1.lookup dst.path name' = some fid' ∧
      (fid' = fid ∨ fid' = w.nextFid) ∧
      (runPlan plan (maildirMove env src dst ms) w i hist).2.1.mtimes = w.mtimes :=
  Proofs.World.move_mtime_not_set env src dst ms w plan i hist sh dh fid e hsh hdh hsrc hdst hdir hstdin hbound hfail hok

open Proofs.World.C09Ex in
/-- Known finding F17d, pinned on a witness: all hypotheses of `C09_mtime` hold except that the
`fstatat` fails; across devices the move still succeeds (no error), and the copy `b/1.2_2.h:2,`
(file 2) has the time of its creation (0 = "set while the process ran"), not the source's 1000. -/
theorem C09_mtime_lost_when_stat_fails :
    (world otherDev).dirPath 0 = some src.path ∧ (world otherDev).dirPath 1 = some dst.path ∧
    ((world otherDev).dir dst.path).isSome ∧ (world otherDev).lookup src.path ms.name = some 0 ∧
    (world otherDev).mtime 0 = 1000 ∧ statFails 0 = some (.fail "EIO") ∧
    (move otherDev statFails).1.2 = false ∧
    (move otherDev statFails).1.1.loc = some (dst.path, cand2) ∧
    (move otherDev statFails).2.1.lookup dst.path cand2 = some 2 ∧
    (move otherDev statFails).2.1.lookup src.path ms.name = none ∧
    (move otherDev statFails).2.1.mtime 2 = 0 := by
  decide +kernel

open Proofs.World.C09Ex in
/-- Non-vacuity of `C09_mtime`, one device (rename) and two devices (copy), destination
pre-populated with the first candidate name: the message ends up as `b/1.2_2.h:2,` with time 1000,
the entry `b/1.2_1.h:2,` that was there still is file 1 with time 2000. -/
example :
    (world []).dirPath 0 = some src.path ∧ (world []).dirPath 1 = some dst.path ∧ ((world []).dir dst.path).isSome ∧
    (world []).lookup src.path ms.name = some 0 ∧ (world []).mtime 0 = 1000 ∧
    (move [] Plan.none).1.2 = false ∧ (move [] Plan.none).1.1.loc = some (dst.path, cand2) ∧
    (move [] Plan.none).2.1.lookup dst.path cand2 = some 0 ∧ (move [] Plan.none).2.1.mtime 0 = 1000 ∧
    (move [] Plan.none).2.1.lookup dst.path cand1 = some 1 ∧ (move [] Plan.none).2.1.mtime 1 = 2000 ∧
    (move otherDev Plan.none).1.2 = false ∧ (move otherDev Plan.none).1.1.loc = some (dst.path, cand2) ∧
    (move otherDev Plan.none).2.1.lookup dst.path cand2 = some 2 ∧ (move otherDev Plan.none).2.1.mtime 2 = 1000 ∧
    (move otherDev Plan.none).2.1.lookup dst.path cand1 = some 1 ∧
    ((move otherDev Plan.none).2.1.file 2).map (·.data) = some [65, 58, 32, 49, 10, 10, 120, 10] := by
  decide +kernel

/-- `maildir_genname` returns a fresh name.  Without faults, in a destination directory `p` with
fewer than `2 ^ 32` entries `es`, with fuel for `|es| + 1` attempts and candidate names that fit
`NAME_MAX` (any fuel and starting counter; `C09_fresh_name_real` is the instance with the real constants): it returns a descriptor and a name that was NOT bound in `p`; afterwards
the name is bound to the new file `w.nextFid`, which is empty and is what the descriptor refers
to; every entry (of every directory) that was bound is bound to the same file; and the number of
calls issued - `maildir_genname` issues nothing but exclusive creates - is at most the number of
candidate names already present plus one. -/
theorem C09_fresh_name (env : PEnv) (md : Maildir) (flags : Option Bytes) (w : World) (d : Handle) (p : Bytes)
    (es : List (Bytes × Nat)) (fuel count i : Nat) (hist : List World)
    (hd : md.dirH = some d) (hp : w.dirPath d = some p) (hes : w.dir p = some es) (hfuel : es.length + 1 ≤ fuel)
    (hW : es.length < gennameWrap)
    (hfit : ∀ j, j ≤ es.length → (Proofs.World.cand env flags (count + 1 + j)).length < NAME_MAX1) :
    ∃ h name, (runPlan Plan.none (genname env md flags fuel count) w i hist).1 = some (h, name) ∧
      w.lookup p name = none ∧
      (runPlan Plan.none (genname env md flags fuel count) w i hist).2.1.lookup p name = some w.nextFid ∧
      (runPlan Plan.none (genname env md flags fuel count) w i hist).2.1.file w.nextFid = some ⟨[], []⟩ ∧
      (runPlan Plan.none (genname env md flags fuel count) w i hist).2.1.obj h = .file w.nextFid 0 true ∧
      (∀ q m fid, w.lookup q m = some fid →
        (runPlan Plan.none (genname env md flags fuel count) w i hist).2.1.lookup q m = some fid) ∧
      (runPlan Plan.none (genname env md flags fuel count) w i hist).2.2.length ≤
        hist.length + Proofs.World.presentCount env flags w p count fuel + 1 :=
  Proofs.World.genname_fresh env md flags w d p es fuel count i hist hd hp hes hfuel hW hfit

/-- The safety half, for ALL fault plans, all maildirs, all fuel: whatever `maildir_genname`
returns and whatever fails, after every call and at the end every directory entry that was bound
is bound to the same file, and every file that existed has the same content (`O_EXCL` never
replaces, nothing is written). -/
theorem C09_fresh_name_never_replaces (env : PEnv) (md : Maildir) (flags : Option Bytes) (w : World) (plan : Plan)
    (fuel count i : Nat) (hist : List World) (w' : World)
    (hw' : w' = (runPlan plan (genname env md flags fuel count) w i hist).2.1 ∨
      w' ∈ (runPlan plan (genname env md flags fuel count) w i hist).2.2.drop hist.length)
    (q m : Bytes) (fid : Nat) (hb : w.lookup q m = some fid) :
    w'.lookup q m = some fid ∧ (fid < w.nextFid → w'.file fid = w.file fid) :=
  Proofs.World.genname_never_replaces env md flags w plan fuel count i hist w' hw' q m fid hb

open Proofs.World.C09Ex in
/-- Non-vacuity of `C09_fresh_name`: `b` holds the first candidate; two calls, the second name
(with 4096 attempts, and with 8 where the count of present candidates is cheap to evaluate). -/
example :
    dst.dirH = some 1 ∧ (world []).dirPath 1 = some [98] ∧ (world []).dir [98] = some [(cand1, 1)] ∧
    [(cand1, 1)].length + 1 ≤ 4096 ∧ [(cand1, 1)].length + 1 ≤ 8 ∧ [(cand1, 1)].length < gennameWrap ∧
    (∀ j, j ≤ 1 → (Proofs.World.cand env (some [58, 50, 44]) (0 + 1 + j)).length < NAME_MAX1) ∧
    Proofs.World.cand env (some [58, 50, 44]) 1 = cand1 ∧
    (gen 4096 Plan.none).1 = some (2, cand2) ∧ (gen 4096 Plan.none).2.1.lookup [98] cand2 = some 2 ∧
    (gen 4096 Plan.none).2.1.lookup [98] cand1 = some 1 ∧ (gen 4096 Plan.none).2.2.length = 2 ∧
    (gen 8 Plan.none).1 = some (2, cand2) ∧ (gen 8 Plan.none).2.2.length = 2 ∧
    Proofs.World.presentCount env (some [58, 50, 44]) (world []) [98] 0 8 = 1 := by
  decide +kernel

/-! ## `maildir_genname` with the real constants (`gennameStart`)

The C function (maildir.c): `count = arc4random() % 128; for (;;) { count++; snprintf(.. "%lld.%d_%u.%s%s" ..);
if too long: ENAMETOOLONG, return -1; fd = openat(.., O_WRONLY|O_CREAT|O_EXCL|O_CLOEXEC); if (fd == -1) { if (errno ==
EEXIST) continue; return -1; } return fd; }`.  `Gen.gennameModulus = 128`, `Gen.gennameCountBits = 32` (`unsigned int
count`) and `Gen.gennameLoopBound = none` (`for (;;)`: there is NO retry bound) are regenerated from the source on every
run.  `Proofs.World.gennameCount0 env = env.random % 128`; `cand env flags c` is the name for counter value
`c % 2 ^ 32` (what `%u` prints); `gennameAnswer .. j` is what the `j`-th `openat` returns under the plan in the world
at the start (a failed `openat` changes nothing).  The model makes `gennameAttempts = 2 ^ 32` attempts (one full cycle of
the counter) and then returns nothing; the C loop would try the same names again. -/

/-- The constants are the real ones. -/
theorem C09_genname_constants :
    Gen.gennameModulus = 128 ∧ Gen.gennameCountBits = 32 ∧ Gen.gennameLoopBound = none ∧ gennameAttempts = 2 ^ 32 ∧
    Gen.flagsMax = 64 := by decide

/-- **If `maildir_genname` returns a name** - for every world, every fault plan, every starting value of the random
counter, destination open on an existing directory `p`: the name is the candidate after `k < 2 ^ 32` answers `EEXIST`
(`RetriedTo`), it fits `NAME_MAX`, it was NOT bound in `p` before the call; the descriptor is the new handle; the name
is now bound to the file `w.nextFid` (ids are handed out from `nextFid`: a new file), which is empty and is what the
descriptor refers to (write-only, offset 0); every entry of every directory that was bound is bound to the same file
(nothing replaced); every other file has the same content; no directory appeared or vanished; no modification time
changed. -/
theorem C09_genname_real (env : PEnv) (md : Maildir) (flags : Option Bytes) (w : World) (plan : Plan) (i : Nat)
    (hist : List World) (d : Handle) (p : Bytes) (hd : md.dirH = some d) (hp : w.dirPath d = some p) (hdir : (w.dir p).isSome)
    (h : Handle) (name : Bytes) (hres : (runPlan plan (gennameStart env md flags) w i hist).1 = some (h, name)) :
    (∃ k, k < gennameAttempts ∧ Proofs.World.RetriedTo env flags d plan w i k ∧
      name = Proofs.World.cand env flags (Proofs.World.gennameCount0 env + 1 + k) ∧ name.length < NAME_MAX1) ∧
    w.lookup p name = none ∧ h = w.handles.length ∧
    (runPlan plan (gennameStart env md flags) w i hist).2.1.lookup p name = some w.nextFid ∧
    (runPlan plan (gennameStart env md flags) w i hist).2.1.file w.nextFid = some ⟨[], []⟩ ∧
    (runPlan plan (gennameStart env md flags) w i hist).2.1.obj h = .file w.nextFid 0 true ∧
    (∀ q m fid, w.lookup q m = some fid → (runPlan plan (gennameStart env md flags) w i hist).2.1.lookup q m = some fid) ∧
    (∀ g, g ≠ w.nextFid → (runPlan plan (gennameStart env md flags) w i hist).2.1.file g = w.file g) ∧
    (∀ q, ((runPlan plan (gennameStart env md flags) w i hist).2.1.dir q).isSome = (w.dir q).isSome) ∧
    (runPlan plan (gennameStart env md flags) w i hist).2.1.mtimes = w.mtimes :=
  Proofs.World.genname_real_success env md flags w plan i hist d p hd hp hdir h name hres

/-- **Exactly when it gives up** (returns -1, which every caller treats as an error): for every world and plan,
`maildir_genname` returns nothing IFF for some `k ≤ 2 ^ 32` the first `k` candidates fit and were answered `EEXIST`, and
then (`GivesUpAt`) either `k = 2 ^ 32` - every name the counter can produce has been tried (only here the model parts
from the code, which has no bound and goes round again) -, or the next candidate does not fit `NAME_MAX`
(ENAMETOOLONG), or the next `openat` fails with an error other than `EEXIST`. -/
theorem C09_genname_gives_up_iff (env : PEnv) (md : Maildir) (flags : Option Bytes) (w : World) (plan : Plan) (i : Nat)
    (hist : List World) (d : Handle) (p : Bytes) (hd : md.dirH = some d) (hp : w.dirPath d = some p) :
    (runPlan plan (gennameStart env md flags) w i hist).1 = none ↔
      ∃ k, k ≤ gennameAttempts ∧ Proofs.World.RetriedTo env flags d plan w i k ∧ Proofs.World.GivesUpAt env flags d plan w i k :=
  Proofs.World.genname_real_gives_up_iff env md flags w plan i hist d p hd hp

/-- Where the plan injects nothing, an answer is `EEXIST` iff the candidate name is bound in the directory, and
success otherwise: so without faults "gives up" reads "the first `k` candidates are all taken, and `k = 2 ^ 32` or
the next one does not fit". -/
theorem C09_genname_answer_nofault (env : PEnv) (flags : Option Bytes) (d : Handle) (p : Bytes) (w : World)
    (hp : w.dirPath d = some p) (plan : Plan) (i c0 j : Nat) (hpl : plan (i + j) = none) :
    Proofs.World.gennameAnswer env flags d plan w i c0 j =
      if (w.lookup p (Proofs.World.cand env flags (c0 + 1 + j))).isSome then .err "EEXIST" else .ok w.handles.length :=
  Proofs.World.gennameAnswer_nofault env flags d p w hp plan i c0 j hpl

/-- **Termination with the real constants**: for every world and every plan the number `n` of calls - all of them
`openat(O_CREAT|O_EXCL)` in the destination (`C09_genname_only_creates`) - is at most `2 ^ 32`, and at most
`|es| + (faults the plan injects among these calls) + 1`, `es` the entries of the destination: every retry is a
name that is really taken or an injected `EEXIST`.  In particular at most `|es| + 1` calls without faults. -/
theorem C09_genname_terminates_real (env : PEnv) (md : Maildir) (flags : Option Bytes) (w : World) (plan : Plan) (i : Nat)
    (hist : List World) (d : Handle) (p : Bytes) (es : List (Bytes × Nat)) (hd : md.dirH = some d)
    (hp : w.dirPath d = some p) (hes : w.dir p = some es) :
    let n := (runPlan plan (gennameStart env md flags) w i hist).2.2.length - hist.length
    n ≤ gennameAttempts ∧ n ≤ es.length + Proofs.World.faultsIn plan i n + 1 :=
  Proofs.World.genname_real_calls env md flags w plan i hist d p es hd hp hes

/-- Every call of `maildir_genname` is an exclusive create in its directory. -/
theorem C09_genname_only_creates (env : PEnv) (md : Maildir) (flags : Option Bytes) (w : World) (plan : Plan) (d : Handle)
    (hd : md.dirH = some d) :
    ∀ c ∈ Proofs.World.callsOf' plan (gennameStart env md flags) w, ∃ n, c = .openExcl d n := by
  obtain ⟨L, hL, hQ⟩ := (Proofs.World.calls_genname env md flags d hd gennameAttempts (env.random % Gen.gennameModulus)).trace plan w 0
  unfold Proofs.World.callsOf' gennameStart
  simp only [Proofs.World.runPlan_eq, hL, List.drop_left]
  intro c hc
  obtain ⟨x, hx, rfl⟩ := List.mem_map.1 hc
  exact hQ x hx

/-- The liveness half with the real constants: no fault, fewer than `2 ^ 32` entries, the first `|es| + 1`
candidates fit: a name is returned after at most `|es| + 1` calls (instance of `C09_fresh_name`). -/
theorem C09_fresh_name_real (env : PEnv) (md : Maildir) (flags : Option Bytes) (w : World) (d : Handle) (p : Bytes)
    (es : List (Bytes × Nat)) (i : Nat) (hist : List World)
    (hd : md.dirH = some d) (hp : w.dirPath d = some p) (hes : w.dir p = some es) (hW : es.length < 2 ^ 32)
    (hfit : ∀ j, j ≤ es.length → (Proofs.World.cand env flags (Proofs.World.gennameCount0 env + 1 + j)).length < NAME_MAX1) :
    ∃ h name, (runPlan Plan.none (gennameStart env md flags) w i hist).1 = some (h, name) ∧
      w.lookup p name = none ∧
      (runPlan Plan.none (gennameStart env md flags) w i hist).2.2.length ≤ hist.length + es.length + 1 := by
  have hA : gennameAttempts = 2 ^ 32 := by decide
  have hWr : gennameWrap = 2 ^ 32 := by decide
  obtain ⟨h, name, h1, h2, -, -, -, -, -⟩ := Proofs.World.genname_fresh env md flags w d p es gennameAttempts
    (env.random % Gen.gennameModulus) i hist hd hp hes (by omega) (by omega) hfit
  have h3 := (C09_genname_terminates_real env md flags w Plan.none i hist d p es hd hp hes).2
  rw [Proofs.World.faultsIn_none] at h3
  have hlen : hist.length ≤ (runPlan Plan.none (gennameStart env md flags) w i hist).2.2.length := by
    rw [Proofs.World.runPlan_eq]; simp
  exact ⟨h, name, h1, h2, by omega⟩

open Proofs.World.C09Ex in
/-- Non-vacuity, evaluated with the real constants (`2 ^ 32` attempts, start `0 % 128`) in the world where `b` holds the
first candidate: (1) no fault: two calls, `1.2_2.h:2,` created as file 2; (2) the plan answers the second `openat` with
an injected `EEXIST`: three calls, `1.2_3.h:2,` created, nothing replaced; (3) the plan answers it with `EIO`: gives up
after two calls, the directory is unchanged; (4) a host name of 250 bytes: gives up without a call (ENAMETOOLONG). -/
example :
    dst.dirH = some 1 ∧ (world []).dirPath 1 = some [98] ∧ (world []).dir [98] = some [(cand1, 1)] ∧
    (genReal env Plan.none).1 = some (2, cand2) ∧ (genReal env Plan.none).2.2.length = 2 ∧
    (genReal env (secondFails "EEXIST")).1 = some (2, cand3) ∧ (genReal env (secondFails "EEXIST")).2.2.length = 3 ∧
    (genReal env (secondFails "EEXIST")).2.1.lookup [98] cand3 = some 2 ∧
    (genReal env (secondFails "EEXIST")).2.1.lookup [98] cand2 = none ∧
    (genReal env (secondFails "EEXIST")).2.1.lookup [98] cand1 = some 1 ∧
    (genReal env (secondFails "EIO")).1 = none ∧ (genReal env (secondFails "EIO")).2.2.length = 2 ∧
    (genReal env (secondFails "EIO")).2.1.dir [98] = some [(cand1, 1)] ∧
    (genReal longHost Plan.none).1 = none ∧ (genReal longHost Plan.none).2.2.length = 0 := by
  decide +kernel

open Proofs.World.C09Ex in
/-- Non-vacuity of `C09_fresh_name_real` in the same world: one entry, and the first two candidates fit. -/
example : dst.dirH = some 1 ∧ (world []).dirPath 1 = some [98] ∧ (world []).dir [98] = some [(cand1, 1)] ∧
    [(cand1, 1)].length < 2 ^ 32 ∧
    (∀ j, j ≤ [(cand1, 1)].length →
      (Proofs.World.cand env (some [58, 50, 44]) (Proofs.World.gennameCount0 env + 1 + j)).length < NAME_MAX1) := by
  refine ⟨rfl, by decide, by decide, by decide, ?_⟩
  intro j hj
  have : j = 0 ∨ j = 1 := by simp at hj; omega
  rcases this with rfl | rfl <;> decide +kernel

open Proofs.World.C09Ex in
/-- ... and the right-hand side of `C09_genname_gives_up_iff` on (3): one retry, then `EIO`. -/
example : Proofs.World.RetriedTo env (some [58, 50, 44]) 1 (secondFails "EIO") (world []) 0 1 ∧
    Proofs.World.GivesUpAt env (some [58, 50, 44]) 1 (secondFails "EIO") (world []) 0 1 := by
  refine ⟨fun j hj => ?_, .inr (.inr ⟨by decide, by decide +kernel, "EIO", by decide, by decide +kernel⟩)⟩
  have : j = 0 := by omega
  subst this
  exact ⟨by decide +kernel, by decide +kernel⟩

/-- `maildir_move` never replaces anything.  For ALL fault plans: after every call of
`maildir_move` and at its end, every directory entry `(q, m)` (of the destination or of any other
directory) that existed before and is not the message's own source entry is still bound to the
same file, and that file has the same content, visible and durable. -/
theorem C09_move_never_replaces (env : PEnv) (src dst : Maildir) (ms : MsgSt) (ps : Bytes) (w : World) (plan : Plan)
    (i : Nat) (hist : List World)
    (hsrc : ∀ sh, src.dirH = some sh → w.dirPath sh = some ps)
    (hdst : ∀ dh, dst.dirH = some dh → ∃ pd, w.dirPath dh = some pd ∧ (w.dir pd).isSome)
    (w' : World)
    (hw' : w' = (runPlan plan (maildirMove env src dst ms) w i hist).2.1 ∨
      w' ∈ (runPlan plan (maildirMove env src dst ms) w i hist).2.2.drop hist.length)
    (q m : Bytes) (fid : Nat) (hne : ¬(q = ps ∧ m = ms.name)) (hb : w.lookup q m = some fid) :
    w'.lookup q m = some fid ∧ (fid < w.nextFid → w'.file fid = w.file fid) :=
  Proofs.World.move_never_replaces env src dst ms ps w plan i hist hsrc hdst w' hw' q m fid hne hb

open Proofs.World.C09Ex in
/-- Non-vacuity of `C09_move_never_replaces`: the pre-populated entry `b/1.2_1.h:2,` under a
faulty plan, across devices. -/
example :
    src.dirH = some 0 ∧ (world otherDev).dirPath 0 = some [97] ∧
    dst.dirH = some 1 ∧ (world otherDev).dirPath 1 = some [98] ∧ ((world otherDev).dir [98]).isSome ∧
    ¬(([98] : Bytes) = [97] ∧ cand1 = ms.name) ∧ (world otherDev).lookup [98] cand1 = some 1 ∧
    1 < (world otherDev).nextFid ∧
    (move otherDev statFails).2.1.lookup [98] cand1 = some 1 ∧
    ((move otherDev statFails).2.1.file 1).map (·.data) = some [121] ∧
    (move otherDev statFails).2.2.length = 13 := by
  decide +kernel

end Mdsort.Props
