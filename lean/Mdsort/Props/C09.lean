import Mdsort.Proofs.FlagsTime
import Mdsort.Proofs.DestEval
import Mdsort.Proofs.DestExact

/-!
# C09 - maildir names, flags, subdirectories and timestamps (flag algebra)

This file holds the pure part: parsing flags from a file name, writing them back, the `S`
adjustment, and the destination (maildir/subdirectory) a sequence of move/flag/flags actions
computes.  Fresh names and timestamps are world-level statements (Props/World).
-/

namespace Mdsort.Props
open Mdsort Mdsort.Model

/-- Flags are taken only from the text after the LAST colon of the file name, which must be
`2,` followed by ASCII letters; the result is exactly that set of letters. -/
theorem C09_flags_parse (name : Bytes) : flagsParse name = (Spec.nameFlags name).map Proofs.ofLetters :=
  Proofs.flagsParse_eq_spec name

/-- Flags are written back as `:2,` + upper-case letters ascending + lower-case letters
ascending, each once; the 64-byte buffer always suffices. -/
theorem C09_flags_str (mf : MFlags) (h : Proofs.MFlags.Valid mf) :
    flagsStr mf Gen.flagsMax = some (Spec.flagSuffix (Proofs.lettersOf mf)) :=
  Proofs.flagsStr_eq_spec mf h

/-- Writing and re-reading a flag set is the identity, for every set and every base name. -/
theorem C09_flags_roundtrip (base : Bytes) (mf : MFlags) (h : Proofs.MFlags.Valid mf) (hb : (58 : UInt8) ∉ base) :
    flagsParse (base ++ Spec.flagSuffix (Proofs.lettersOf mf)) = some mf :=
  Proofs.flags_roundtrip base mf h hb

/-- new -> cur gains S, cur -> new loses S, every other flag is preserved. -/
theorem C09_S_adjust (src dst : Subdir) (mf : MFlags) (h : Proofs.MFlags.Valid mf) :
    msgflags src dst mf = some (Spec.flagSuffix (Spec.adjustSeen (src == .new) (dst == .new) (Proofs.lettersOf mf))) :=
  Proofs.msgflags_eq_spec src dst mf h

/-! Non-vacuity: `1.host:2,FS` parses to {F, S}; {F, S, a} is written as `:2,FSa`. -/
example : Model.flagsParse [49, 46, 104, 111, 115, 116, 58, 50, 44, 70, 83] = some ⟨2 ^ 5 + 2 ^ 18, 0⟩ := by
  decide

example : Model.flagsStr ⟨2 ^ 5 + 2 ^ 18, 1⟩ 64 = some [58, 50, 44, 70, 83, 97] := by decide

/-! ## Destination of a sequence of move / flag / flags actions

`Spec.dest`: (maildir of the last `move`, else the message's) / (subdirectory of the last `flag`, else
the message's).  `Model.finalPlace env ml0 actions`: `matches_append` of the actions' entries after the
match list `ml0`, then the `mh_path` of the last move/flag/flags entry (where `matches_exec` leaves the
message).  The pinned code agrees with the documentation exactly on `Spec.destOK` (finding F12). -/

/-- For every message `root/sub/name` (`root` not empty, absolute or relative; no `/` in `sub` and `name`,
`sub` shorter than `NAME_MAX + 1`), every sequence of move/flag/flags actions with non-empty names whose
joined paths fit `PATH_MAX`, evaluated after any match list without move/flag/flags entries: if the
sequence is in `Spec.destOK`, the message ends in the documented place. -/
theorem C09_destination_partial (env : Env) (root sub name : Bytes) (ml0 : MatchList) (actions : List Spec.PathAction)
    (hpath : env.path = root ++ [47] ++ sub ++ [47] ++ name)
    (hroot : root ≠ []) (hsub : (47 : UInt8) ∉ sub) (hname : (47 : UInt8) ∉ name)
    (hsubl : sub.length < NAME_MAX1)
    (hwf : Spec.actionsWF actions = true) (hfit : Spec.destFits PATH_MAX (root, sub) actions = true)
    (hml0 : ∀ e ∈ ml0, e.moves = false) (hok : Spec.destOK actions = true) :
    finalPlace env ml0 actions = if actions.isEmpty then none else some (Spec.destPath (root, sub) actions) :=
  Proofs.Dest.finalPlace_eq_dest env root sub name ml0 actions hpath hroot hsub hname hsubl hwf hfit hml0 hok

/-- The same for `Model.eval` itself: `c` is the expression the grammar builds from the action list of a
rule (move / flag / flags nodes joined by `and`; `Proofs.Dest.ActionChain` relates it to the actions with
their line numbers and asks that each node passes its own length / letter check).  Evaluated in any state
whose match list has no move/flag/flags entry it matches, and the last move/flag/flags entry of the
resulting match list - the one whose `mh_path` the message is finally moved to - has the documented path. -/
theorem C09_destination_eval (env : Env) (rootMsg m : Msg) (st : St) (part : Nat) (c : Expr)
    (ls : List (Nat × Spec.PathAction)) (hc : Proofs.Dest.ActionChain c ls) (root sub name : Bytes)
    (hpath : env.path = root ++ [47] ++ sub ++ [47] ++ name)
    (hroot : root ≠ []) (hsub : (47 : UInt8) ∉ sub) (hname : (47 : UInt8) ∉ name)
    (hsubl : sub.length < NAME_MAX1)
    (hwf : Spec.actionsWF (ls.map (·.2)) = true) (hfit : Spec.destFits PATH_MAX (root, sub) (ls.map (·.2)) = true)
    (hst : ∀ e ∈ st.ml, e.moves = false) (hok : Spec.destOK (ls.map (·.2)) = true) :
    ∃ st', eval env rootMsg c part m st = (.match, st') ∧
      lastPath st'.ml = some (Spec.destPath (root, sub) (ls.map (·.2))) :=
  Proofs.Dest.eval_chain_dest env rootMsg m st part c ls hc root sub name hpath hroot hsub hname hsubl hwf hfit hst hok

/-- `Spec.destOK` is exact: for all 1093 sequences of at most 6 actions whose names are pairwise distinct (and
distinct from the message's maildir `/S` and subdirectory `old`), the model ends in the documented place
if and only if `destOK` holds. -/
theorem C09_destOK_exact_upto_6 :
    ∀ n ∈ List.range 7, ∀ ks ∈ Proofs.Dest.kindSeqs n,
      Proofs.Dest.agrees ks = Spec.destOK (Proofs.Dest.genActions ks) :=
  Proofs.Dest.destOK_exact_upto_6

/-- The same statement without `Spec.destOK`: what the documentation promises.  It is false. -/
def C09_destination : Prop :=
  ∀ (env : Env) (root sub name : Bytes) (ml0 : MatchList) (actions : List Spec.PathAction),
    env.path = root ++ [47] ++ sub ++ [47] ++ name →
    root ≠ [] → (47 : UInt8) ∉ sub → (47 : UInt8) ∉ name → sub.length < NAME_MAX1 →
    Spec.actionsWF actions = true → Spec.destFits PATH_MAX (root, sub) actions = true →
    (∀ e ∈ ml0, e.moves = false) →
    finalPlace env ml0 actions = if actions.isEmpty then none else some (Spec.destPath (root, sub) actions)

/-- Environment of the witnesses: the message `/S/new/1`. -/
def destWitnessEnv : Env where
  rx := fun _ _ => .nomatch
  command := fun _ => 0
  isDir := fun _ => false
  now := 0
  strptime := fun _ => none
  zoneName := fun _ => none
  fileTime := fun _ => none
  dryrun := false
  path := [47, 83, 47, 110, 101, 119, 47, 49]

/-- F12, first class: `move "/D" flags "F"` on `/S/new/1` moves the message to `/D/new` and then back to
`/S/new` (the `flags` entry takes its destination from the original path). -/
theorem C09_destination_witness_flags_after_move :
    Spec.destOK [.move [47, 68], .flags [70]] = false ∧
    finalPlace destWitnessEnv [] [.move [47, 68], .flags [70]] = some [47, 83, 47, 110, 101, 119] ∧
    Spec.destPath ([47, 83], [110, 101, 119]) [.move [47, 68], .flags [70]] = [47, 68, 47, 110, 101, 119] := by
  decide

/-- F12, second class: `move "/B" flag new flag !new` on `/S/new/1` ends in `/S/cur`, not `/B/cur` (the
"consecutive duplicates" branch of `matches_merge` frees the entry that had inherited `/B`). -/
theorem C09_destination_witness_duplicate_merge :
    Spec.destOK [.move [47, 66], .flag [110, 101, 119], .flag [99, 117, 114]] = false ∧
    finalPlace destWitnessEnv [] [.move [47, 66], .flag [110, 101, 119], .flag [99, 117, 114]]
      = some [47, 83, 47, 99, 117, 114] ∧
    Spec.destPath ([47, 83], [110, 101, 119]) [.move [47, 66], .flag [110, 101, 119], .flag [99, 117, 114]]
      = [47, 66, 47, 99, 117, 114] := by
  decide

theorem C09_destination_false : ¬ C09_destination := by
  intro h
  have h1 := h destWitnessEnv [47, 83] [110, 101, 119] [49] [] [.move [47, 68], .flags [70]] rfl (by decide) (by decide) (by decide)
    (by decide) (by decide) (by decide) (by intro e he; cases he)
  rw [C09_destination_witness_flags_after_move.2.1] at h1
  revert h1
  decide

/-! Non-vacuity: `flags "F" move "/A" flag !new move "/B" flag new` on `/S/new/1` (both kinds occur twice,
the last two differ) satisfies every hypothesis, and ends in `/B/new`. -/
example : Spec.destOK [.flags [70], .move [47, 65], .flag [99, 117, 114], .move [47, 66], .flag [110, 101, 119]] = true ∧
    Spec.actionsWF [.flags [70], .move [47, 65], .flag [99, 117, 114], .move [47, 66], .flag [110, 101, 119]] = true ∧
    Spec.destFits PATH_MAX ([47, 83], [110, 101, 119])
      [.flags [70], .move [47, 65], .flag [99, 117, 114], .move [47, 66], .flag [110, 101, 119]] = true ∧
    finalPlace destWitnessEnv [] [.flags [70], .move [47, 65], .flag [99, 117, 114], .move [47, 66], .flag [110, 101, 119]]
      = some [47, 66, 47, 110, 101, 119] := by
  decide

/-! Non-vacuity of `C09_destination_eval`: the expression of `flags "F" move "/A" flag !new` (lines 3, 4, 5),
`(flags and move) and flag` as parse.y nests it, is an action chain, and its actions are in `destOK`. -/
example : Proofs.Dest.ActionChain
    (.and 5 (.and 4 (.flags 3 [70]) (.move 4 [47, 65])) (.flag 5 [99, 117, 114]))
    ([(3, .flags [70])] ++ [(4, .move [47, 65])] ++ [(5, .flag [99, 117, 114])]) :=
  .and _ _ _ _ _ (.and _ _ _ _ _ (.flags _ _ (by decide)) (.move _ _ (by decide))) (.flag _ _ (by decide))

example : Spec.destOK [.flags [70], .move [47, 65], .flag [99, 117, 114]] = true := by decide

end Mdsort.Props
