import Mdsort.Proofs.FlagsTime
import Mdsort.Proofs.WorldMtime
import Mdsort.Proofs.WorldGenname
import Mdsort.Proofs.WorldMain
import Mdsort.Proofs.DestEval
import Mdsort.Proofs.DestExact
import Mdsort.Proofs.FlagsSeq

/-!
# C09 - maildir names, flags, subdirectories and timestamps (flag algebra)

This file holds the pure part (parsing flags from a file name, writing them back, the `S`
adjustment, the destination a sequence of move/flag/flags actions computes) and the world-level
statements: modification time, fresh names, nothing replaced, and the flag set / the name of the
message after a whole action list (`C09_S_after_sequence`).
-/

namespace Mdsort.Props
open Mdsort Mdsort.Model

/-- Flags are taken only from the text after the LAST colon of the file name, which must be
`2,` followed by ASCII letters; the result is exactly that set of letters. -/
theorem C09_flags_parse (name : Bytes) : flagsParse name = (Spec.nameFlags name).map Proofs.ofLetters :=
  Proofs.flagsParse_eq_spec name

/-- Flags are written back as `:2,` + upper-case letters ascending + lower-case letters
ascending, each once; the 64-byte buffer always suffices. -/
theorem C09_flags_str (mf : MFlags) (h : Proofs.MFlags.Valid mf) :
    flagsStr mf Gen.flagsMax = some (Spec.flagSuffix (Proofs.lettersOf mf)) :=
  Proofs.flagsStr_eq_spec mf h

/-- Writing and re-reading a flag set is the identity, for every set and every base name. -/
theorem C09_flags_roundtrip (base : Bytes) (mf : MFlags) (h : Proofs.MFlags.Valid mf) (hb : (58 : UInt8) ∉ base) :
    flagsParse (base ++ Spec.flagSuffix (Proofs.lettersOf mf)) = some mf :=
  Proofs.flags_roundtrip base mf h hb

/-- new -> cur gains S, cur -> new loses S, every other flag is preserved. -/
theorem C09_S_adjust (src dst : Subdir) (mf : MFlags) (h : Proofs.MFlags.Valid mf) :
    msgflags src dst mf = some (Spec.flagSuffix (Spec.adjustSeen (src == .new) (dst == .new) (Proofs.lettersOf mf))) :=
  Proofs.msgflags_eq_spec src dst mf h

theorem flagsSet_valid (mf mf' : MFlags) (c : UInt8) (h : Proofs.MFlags.Valid mf) (hs : flagsSet mf c = some mf') :
    Proofs.MFlags.Valid mf' := by
  unfold flagsSet at hs
  split at hs
  · rename_i hu
    cases hs
    refine ⟨Nat.or_lt_two_pow h.1 ?_, h.2⟩
    have : c.toNat - 65 < 26 := by
      simp only [isupper, Bool.and_eq_true, decide_eq_true_eq] at hu
      have := hu.2
      have h2 : c.toNat ≤ 90 := by simpa using UInt8.le_iff_toNat_le.mp this
      omega
    rw [Nat.one_shiftLeft]
    exact Nat.pow_lt_pow_right (by decide) this
  · split at hs
    · rename_i hl
      cases hs
      refine ⟨h.1, Nat.or_lt_two_pow h.2 ?_⟩
      have : c.toNat - 97 < 26 := by
        simp only [islower, Bool.and_eq_true, decide_eq_true_eq] at hl
        have := hl.2
        have h2 : c.toNat ≤ 122 := by simpa using UInt8.le_iff_toNat_le.mp this
        omega
      rw [Nat.one_shiftLeft]
      exact Nat.pow_lt_pow_right (by decide) this
    · cases hs

theorem flagsSetAll_valid (fl : Bytes) (mf mf' : MFlags) (h : Proofs.MFlags.Valid mf) (hs : flagsSetAll mf fl = some mf') :
    Proofs.MFlags.Valid mf' := by
  induction fl generalizing mf with
  | nil => simp [flagsSetAll] at hs; cases hs; exact h
  | cons c r ih =>
    unfold flagsSetAll at hs
    split at hs
    · cases hs
    · rename_i mf1 h1
      exact ih mf1 (flagsSet_valid mf mf1 c h h1) hs

/-- (audit au2) The hypothesis `Valid` of the theorems above is discharged for every flag set the program can
hold after parsing a name: `message_flags_parse` only sets bits of the 26 letters. -/
theorem C09_flags_parse_valid (name : Bytes) (mf : MFlags) (h : flagsParse name = some mf) : Proofs.MFlags.Valid mf := by
  unfold flagsParse at h
  split at h
  · cases h; exact ⟨by decide, by decide⟩
  · split at h
    · exact flagsSetAll_valid _ _ _ ⟨by decide, by decide⟩ h
    · cases h

/-! Non-vacuity: `1.host:2,FS` parses to {F, S}; {F, S, a} is written as `:2,FSa`. -/
example : Model.flagsParse [49, 46, 104, 111, 115, 116, 58, 50, 44, 70, 83] = some ⟨2 ^ 5 + 2 ^ 18, 0⟩ := by
  decide

example : Model.flagsStr ⟨2 ^ 5 + 2 ^ 18, 1⟩ 64 = some [58, 50, 44, 70, 83, 97] := by decide

/-- (audit au2) The hypotheses of `C09_flags_str` / `_roundtrip` / `_S_adjust` / `_S_through` on {F, S, a}: the masks
fit 26 bits (`Valid`: always true of what `flagsParse` returns, the parser only sets letter bits) and the base name
`1.host` has no colon. -/
example : Proofs.MFlags.Valid ⟨2 ^ 5 + 2 ^ 18, 1⟩ := ⟨by decide, by decide⟩

/-- ... and what the specification side of those theorems evaluates to: `:2,FSa`; cur -> new `:2,Fa`; new -> cur
of {F, a} `:2,FSa`. -/
example : (58 : UInt8) ∉ ofString "1.host" ∧
    Proofs.lettersOf ⟨2 ^ 5 + 2 ^ 18, 1⟩ = [70, 83, 97] ∧
    Spec.flagSuffix [70, 83, 97] = ofString ":2,FSa" ∧
    Spec.flagSuffix (Spec.adjustSeen false true [70, 83, 97]) = ofString ":2,Fa" ∧
    Spec.flagSuffix (Spec.adjustSeen true false [70, 97]) = ofString ":2,FSa" := by
  decide +kernel

/-- `C09_flags_roundtrip` applied. -/
example : flagsParse (ofString "1.host" ++ Spec.flagSuffix (Proofs.lettersOf ⟨2 ^ 5 + 2 ^ 18, 1⟩)) = some ⟨2 ^ 5 + 2 ^ 18, 1⟩ :=
  C09_flags_roundtrip _ _ ⟨by decide, by decide⟩ (by decide +kernel)

/-- What `Spec.nameFlags` accepts and rejects: only the text after the LAST colon counts (`a:2,S:2,FR` has F and R);
duplicates and any order are accepted on input and come back sorted and once; a digit among the letters or a
version other than `2,` is an error ("invalid flags": the message is not processed), no colon is "no flags". -/
example : Spec.nameFlags (ofString "a:2,S:2,FR") = some [70, 82] ∧ Spec.nameFlags (ofString "1.h:2,SSF") = some [83, 83, 70] ∧
    Spec.nameFlags (ofString "1.h") = some [] ∧ Spec.nameFlags (ofString "1.h:2,") = some [] ∧
    Spec.nameFlags (ofString "1.h:2,S1") = none ∧ Spec.nameFlags (ofString "1.h:1,S") = none ∧
    (Spec.nameFlags (ofString "1.h:2,SSF")).map (fun l => Spec.flagSuffix (Proofs.lettersOf (Proofs.ofLetters l))) =
      some (ofString ":2,FS") := by
  decide +kernel

/-! ## World level: the modification time, fresh names, nothing is replaced

`runPlan plan p w i hist` executes the program on the abstract file system `w` under the fault plan
`plan`, numbering the calls from `i`; `.1` is the value, `.2.1` the final world, `.2.2` the world
after every call appended to `hist`.  `maildir_move` issues the `fstatat` of the source as its
first call (index `i`) unless the source is the stdin spool. -/

/-- A moved message keeps its modification time.  For EVERY fault plan that does not make the
`fstatat` of the source fail (the call with index `i`), source and destination open on existing
directories, source not the stdin spool: if `maildir_move` reports no error, the message's new
location `(dst.path, name')` is a name that was not bound before, bound now to the very same file
(rename on one device) or to the file `maildir_genname` created (copy across devices, `EXDEV`), and
the modification time of that file is the time the source file had. -/
theorem C09_mtime (env : PEnv) (src dst : Maildir) (ms : MsgSt) (w : World) (plan : Plan) (i : Nat) (hist : List World)
    (sh dh : Handle) (fid : Nat)
    (hsh : src.dirH = some sh) (hdh : dst.dirH = some dh)
    (hsrc : w.dirPath sh = some src.path) (hdst : w.dirPath dh = some dst.path) (hdir : (w.dir dst.path).isSome)
    (hstdin : src.stdin = false) (hbound : w.lookup src.path ms.name = some fid)
    (hstat : ∀ e, plan i ≠ some (.fail e))
    (hok : (runPlan plan (maildirMove env src dst ms) w i hist).1.2 = false) :
    ∃ name' fid', (runPlan plan (maildirMove env src dst ms) w i hist).1.1.loc = some (dst.path, name') ∧
      w.lookup dst.path name' = none ∧
      (runPlan plan (maildirMove env src dst ms) w i hist).2.1.lookup dst.path name' = some fid' ∧
      (fid' = fid ∨ fid' = w.nextFid) ∧
      (runPlan plan (maildirMove env src dst ms) w i hist).2.1.mtime fid' = w.mtime fid :=
  Proofs.World.move_mtime env src dst ms w plan i hist sh dh fid hsh hdh hsrc hdst hdir hstdin hbound hstat hok

/-- The converse, for every world: when the plan makes the `fstatat` fail, a move that reports no
error has set NO modification time at all (the table of times is the one before the move) - a
renamed file keeps its time because it is the same file, a copy has the time of its creation. -/
theorem C09_mtime_not_set_when_stat_fails (env : PEnv) (src dst : Maildir) (ms : MsgSt) (w : World) (plan : Plan)
    (i : Nat) (hist : List World) (sh dh : Handle) (fid : Nat) (e : String)
    (hsh : src.dirH = some sh) (hdh : dst.dirH = some dh)
    (hsrc : w.dirPath sh = some src.path) (hdst : w.dirPath dh = some dst.path) (hdir : (w.dir dst.path).isSome)
    (hstdin : src.stdin = false) (hbound : w.lookup src.path ms.name = some fid)
    (hfail : plan i = some (.fail e))
    (hok : (runPlan plan (maildirMove env src dst ms) w i hist).1.2 = false) :
    ∃ name' fid', (runPlan plan (maildirMove env src dst ms) w i hist).1.1.loc = some (dst.path, name') ∧
      (runPlan plan (maildirMove env src dst ms) w i hist).2.1.lookup dst.path name' = some fid' ∧
      (fid' = fid ∨ fid' = w.nextFid) ∧
      (runPlan plan (maildirMove env src dst ms) w i hist).2.1.mtimes = w.mtimes :=
  Proofs.World.move_mtime_not_set env src dst ms w plan i hist sh dh fid e hsh hdh hsrc hdst hdir hstdin hbound hfail hok

open Proofs.World.C09Ex in
/-- Known finding F17d, pinned on a witness: all hypotheses of `C09_mtime` hold except that the
`fstatat` fails; across devices the move still succeeds (no error), and the copy `b/1.2_2.h:2,`
(file 2) has the time of its creation (0 = "set while the process ran"), not the source's 1000. -/
theorem C09_mtime_lost_when_stat_fails :
    (world otherDev).dirPath 0 = some src.path ∧ (world otherDev).dirPath 1 = some dst.path ∧
    ((world otherDev).dir dst.path).isSome ∧ (world otherDev).lookup src.path ms.name = some 0 ∧
    (world otherDev).mtime 0 = 1000 ∧ statFails 0 = some (.fail "EIO") ∧
    (move otherDev statFails).1.2 = false ∧
    (move otherDev statFails).1.1.loc = some (dst.path, cand2) ∧
    (move otherDev statFails).2.1.lookup dst.path cand2 = some 2 ∧
    (move otherDev statFails).2.1.lookup src.path ms.name = none ∧
    (move otherDev statFails).2.1.mtime 2 = 0 := by
  decide +kernel

open Proofs.World.C09Ex in
/-- Non-vacuity of `C09_mtime`, one device (rename) and two devices (copy), destination
pre-populated with the first candidate name: the message ends up as `b/1.2_2.h:2,` with time 1000,
the entry `b/1.2_1.h:2,` that was there still is file 1 with time 2000. -/
example :
    (world []).dirPath 0 = some src.path ∧ (world []).dirPath 1 = some dst.path ∧ ((world []).dir dst.path).isSome ∧
    (world []).lookup src.path ms.name = some 0 ∧ (world []).mtime 0 = 1000 ∧
    (move [] Plan.none).1.2 = false ∧ (move [] Plan.none).1.1.loc = some (dst.path, cand2) ∧
    (move [] Plan.none).2.1.lookup dst.path cand2 = some 0 ∧ (move [] Plan.none).2.1.mtime 0 = 1000 ∧
    (move [] Plan.none).2.1.lookup dst.path cand1 = some 1 ∧ (move [] Plan.none).2.1.mtime 1 = 2000 ∧
    (move otherDev Plan.none).1.2 = false ∧ (move otherDev Plan.none).1.1.loc = some (dst.path, cand2) ∧
    (move otherDev Plan.none).2.1.lookup dst.path cand2 = some 2 ∧ (move otherDev Plan.none).2.1.mtime 2 = 1000 ∧
    (move otherDev Plan.none).2.1.lookup dst.path cand1 = some 1 ∧
    ((move otherDev Plan.none).2.1.file 2).map (·.data) = some [65, 58, 32, 49, 10, 10, 120, 10] := by
  decide +kernel

/-- `maildir_genname` returns a fresh name.  Without faults, in a destination directory `p` with
fewer than `2 ^ 32` entries `es`, with fuel for `|es| + 1` attempts and candidate names that fit
`NAME_MAX` (any fuel and starting counter; `C09_fresh_name_real` is the instance with the real constants): it returns a descriptor and a name that was NOT bound in `p`; afterwards
the name is bound to the new file `w.nextFid`, which is empty and is what the descriptor refers
to; every entry (of every directory) that was bound is bound to the same file; and the number of
calls issued - `maildir_genname` issues nothing but exclusive creates - is at most the number of
candidate names already present plus one. -/
theorem C09_fresh_name (env : PEnv) (md : Maildir) (flags : Option Bytes) (w : World) (d : Handle) (p : Bytes)
    (es : List (Bytes × Nat)) (fuel count i : Nat) (hist : List World)
    (hd : md.dirH = some d) (hp : w.dirPath d = some p) (hes : w.dir p = some es) (hfuel : es.length + 1 ≤ fuel)
    (hW : es.length < gennameWrap)
    (hfit : ∀ j, j ≤ es.length → (Proofs.World.cand env flags (count + 1 + j)).length < NAME_MAX1) :
    ∃ h name, (runPlan Plan.none (genname env md flags fuel count) w i hist).1 = some (h, name) ∧
      w.lookup p name = none ∧
      (runPlan Plan.none (genname env md flags fuel count) w i hist).2.1.lookup p name = some w.nextFid ∧
      (runPlan Plan.none (genname env md flags fuel count) w i hist).2.1.file w.nextFid = some ⟨[], []⟩ ∧
      (runPlan Plan.none (genname env md flags fuel count) w i hist).2.1.obj h = .file w.nextFid 0 true ∧
      (∀ q m fid, w.lookup q m = some fid →
        (runPlan Plan.none (genname env md flags fuel count) w i hist).2.1.lookup q m = some fid) ∧
      (runPlan Plan.none (genname env md flags fuel count) w i hist).2.2.length ≤
        hist.length + Proofs.World.presentCount env flags w p count fuel + 1 :=
  Proofs.World.genname_fresh env md flags w d p es fuel count i hist hd hp hes hfuel hW hfit

/-- The safety half, for ALL fault plans, all maildirs, all fuel: whatever `maildir_genname`
returns and whatever fails, after every call and at the end every directory entry that was bound
is bound to the same file, and every file that existed has the same content (`O_EXCL` never
replaces, nothing is written). -/
theorem C09_fresh_name_never_replaces (env : PEnv) (md : Maildir) (flags : Option Bytes) (w : World) (plan : Plan)
    (fuel count i : Nat) (hist : List World) (w' : World)
    (hw' : w' = (runPlan plan (genname env md flags fuel count) w i hist).2.1 ∨
      w' ∈ (runPlan plan (genname env md flags fuel count) w i hist).2.2.drop hist.length)
    (q m : Bytes) (fid : Nat) (hb : w.lookup q m = some fid) :
    w'.lookup q m = some fid ∧ (fid < w.nextFid → w'.file fid = w.file fid) :=
  Proofs.World.genname_never_replaces env md flags w plan fuel count i hist w' hw' q m fid hb

open Proofs.World.C09Ex in
/-- Non-vacuity of `C09_fresh_name`: `b` holds the first candidate; two calls, the second name
(with 4096 attempts, and with 8 where the count of present candidates is cheap to evaluate). -/
example :
    dst.dirH = some 1 ∧ (world []).dirPath 1 = some [98] ∧ (world []).dir [98] = some [(cand1, 1)] ∧
    [(cand1, 1)].length + 1 ≤ 4096 ∧ [(cand1, 1)].length + 1 ≤ 8 ∧ [(cand1, 1)].length < gennameWrap ∧
    (∀ j, j ≤ 1 → (Proofs.World.cand env (some [58, 50, 44]) (0 + 1 + j)).length < NAME_MAX1) ∧
    Proofs.World.cand env (some [58, 50, 44]) 1 = cand1 ∧
    (gen 4096 Plan.none).1 = some (2, cand2) ∧ (gen 4096 Plan.none).2.1.lookup [98] cand2 = some 2 ∧
    (gen 4096 Plan.none).2.1.lookup [98] cand1 = some 1 ∧ (gen 4096 Plan.none).2.2.length = 2 ∧
    (gen 8 Plan.none).1 = some (2, cand2) ∧ (gen 8 Plan.none).2.2.length = 2 ∧
    Proofs.World.presentCount env (some [58, 50, 44]) (world []) [98] 0 8 = 1 := by
  decide +kernel

/-! ## `maildir_genname` with the real constants (`gennameStart`)

The C function (maildir.c): `count = arc4random() % 128; for (;;) { count++; snprintf(.. "%lld.%d_%u.%s%s" ..);
if too long: ENAMETOOLONG, return -1; fd = openat(.., O_WRONLY|O_CREAT|O_EXCL|O_CLOEXEC); if (fd == -1) { if (errno ==
EEXIST) continue; return -1; } return fd; }`.  `Gen.gennameModulus = 128`, `Gen.gennameCountBits = 32` (`unsigned int
count`) and `Gen.gennameLoopBound = none` (`for (;;)`: there is NO retry bound) are regenerated from the source on every
run.  `Proofs.World.gennameCount0 env = env.random % 128`; `cand env flags c` is the name for counter value
`c % 2 ^ 32` (what `%u` prints); `gennameAnswer .. j` is what the `j`-th `openat` returns under the plan in the world
at the start (a failed `openat` changes nothing).  The model makes `gennameAttempts = 2 ^ 32` attempts (one full cycle of
the counter) and then returns nothing; the C loop would try the same names again. -/

/-- The constants are the real ones. -/
theorem C09_genname_constants :
    Gen.gennameModulus = 128 ∧ Gen.gennameCountBits = 32 ∧ Gen.gennameLoopBound = none ∧ gennameAttempts = 2 ^ 32 ∧
    Gen.flagsMax = 64 := by decide

/-- **If `maildir_genname` returns a name** - for every world, every fault plan, every starting value of the random
counter, destination open on an existing directory `p`: the name is the candidate after `k < 2 ^ 32` answers `EEXIST`
(`RetriedTo`), it fits `NAME_MAX`, it was NOT bound in `p` before the call; the descriptor is the new handle; the name
is now bound to the file `w.nextFid` (ids are handed out from `nextFid`: a new file), which is empty and is what the
descriptor refers to (write-only, offset 0); every entry of every directory that was bound is bound to the same file
(nothing replaced); every other file has the same content; no directory appeared or vanished; no modification time
changed. -/
theorem C09_genname_real (env : PEnv) (md : Maildir) (flags : Option Bytes) (w : World) (plan : Plan) (i : Nat)
    (hist : List World) (d : Handle) (p : Bytes) (hd : md.dirH = some d) (hp : w.dirPath d = some p) (hdir : (w.dir p).isSome)
    (h : Handle) (name : Bytes) (hres : (runPlan plan (gennameStart env md flags) w i hist).1 = some (h, name)) :
    (∃ k, k < gennameAttempts ∧ Proofs.World.RetriedTo env flags d plan w i k ∧
      name = Proofs.World.cand env flags (Proofs.World.gennameCount0 env + 1 + k) ∧ name.length < NAME_MAX1) ∧
    w.lookup p name = none ∧ h = w.handles.length ∧
    (runPlan plan (gennameStart env md flags) w i hist).2.1.lookup p name = some w.nextFid ∧
    (runPlan plan (gennameStart env md flags) w i hist).2.1.file w.nextFid = some ⟨[], []⟩ ∧
    (runPlan plan (gennameStart env md flags) w i hist).2.1.obj h = .file w.nextFid 0 true ∧
    (∀ q m fid, w.lookup q m = some fid → (runPlan plan (gennameStart env md flags) w i hist).2.1.lookup q m = some fid) ∧
    (∀ g, g ≠ w.nextFid → (runPlan plan (gennameStart env md flags) w i hist).2.1.file g = w.file g) ∧
    (∀ q, ((runPlan plan (gennameStart env md flags) w i hist).2.1.dir q).isSome = (w.dir q).isSome) ∧
    (runPlan plan (gennameStart env md flags) w i hist).2.1.mtimes = w.mtimes :=
  Proofs.World.genname_real_success env md flags w plan i hist d p hd hp hdir h name hres

/-- **Exactly when it gives up** (returns -1, which every caller treats as an error): for every world and plan,
`maildir_genname` returns nothing IFF for some `k ≤ 2 ^ 32` the first `k` candidates fit and were answered `EEXIST`, and
then (`GivesUpAt`) either `k = 2 ^ 32` - every name the counter can produce has been tried (only here the model parts
from the code, which has no bound and goes round again) -, or the next candidate does not fit `NAME_MAX`
(ENAMETOOLONG), or the next `openat` fails with an error other than `EEXIST`. -/
theorem C09_genname_gives_up_iff (env : PEnv) (md : Maildir) (flags : Option Bytes) (w : World) (plan : Plan) (i : Nat)
    (hist : List World) (d : Handle) (p : Bytes) (hd : md.dirH = some d) (hp : w.dirPath d = some p) :
    (runPlan plan (gennameStart env md flags) w i hist).1 = none ↔
      ∃ k, k ≤ gennameAttempts ∧ Proofs.World.RetriedTo env flags d plan w i k ∧ Proofs.World.GivesUpAt env flags d plan w i k :=
  Proofs.World.genname_real_gives_up_iff env md flags w plan i hist d p hd hp

/-- Where the plan injects nothing, an answer is `EEXIST` iff the candidate name is bound in the directory, and
success otherwise: so without faults "gives up" reads "the first `k` candidates are all taken, and `k = 2 ^ 32` or
the next one does not fit". -/
theorem C09_genname_answer_nofault (env : PEnv) (flags : Option Bytes) (d : Handle) (p : Bytes) (w : World)
    (hp : w.dirPath d = some p) (plan : Plan) (i c0 j : Nat) (hpl : plan (i + j) = none) :
    Proofs.World.gennameAnswer env flags d plan w i c0 j =
      if (w.lookup p (Proofs.World.cand env flags (c0 + 1 + j))).isSome then .err "EEXIST" else .ok w.handles.length :=
  Proofs.World.gennameAnswer_nofault env flags d p w hp plan i c0 j hpl

/-- **Termination with the real constants**: for every world and every plan the number `n` of calls - all of them
`openat(O_CREAT|O_EXCL)` in the destination (`C09_genname_only_creates`) - is at most `2 ^ 32`, and at most
`|es| + (faults the plan injects among these calls) + 1`, `es` the entries of the destination: every retry is a
name that is really taken or an injected `EEXIST`.  In particular at most `|es| + 1` calls without faults. -/
theorem C09_genname_terminates_real (env : PEnv) (md : Maildir) (flags : Option Bytes) (w : World) (plan : Plan) (i : Nat)
    (hist : List World) (d : Handle) (p : Bytes) (es : List (Bytes × Nat)) (hd : md.dirH = some d)
    (hp : w.dirPath d = some p) (hes : w.dir p = some es) :
    let n := (runPlan plan (gennameStart env md flags) w i hist).2.2.length - hist.length
    n ≤ gennameAttempts ∧ n ≤ es.length + Proofs.World.faultsIn plan i n + 1 :=
  Proofs.World.genname_real_calls env md flags w plan i hist d p es hd hp hes

/-- Every call of `maildir_genname` is an exclusive create in its directory. -/
theorem C09_genname_only_creates (env : PEnv) (md : Maildir) (flags : Option Bytes) (w : World) (plan : Plan) (d : Handle)
    (hd : md.dirH = some d) :
    ∀ c ∈ Proofs.World.callsOf' plan (gennameStart env md flags) w, ∃ n, c = .openExcl d n := by
  obtain ⟨L, hL, hQ⟩ := (Proofs.World.calls_genname env md flags d hd gennameAttempts (env.random % Gen.gennameModulus)).trace plan w 0
  unfold Proofs.World.callsOf' gennameStart
  simp only [Proofs.World.runPlan_eq, hL, List.drop_left]
  intro c hc
  obtain ⟨x, hx, rfl⟩ := List.mem_map.1 hc
  exact hQ x hx

/-- The liveness half with the real constants: no fault, fewer than `2 ^ 32` entries, the first `|es| + 1`
candidates fit: a name is returned after at most `|es| + 1` calls (instance of `C09_fresh_name`). -/
theorem C09_fresh_name_real (env : PEnv) (md : Maildir) (flags : Option Bytes) (w : World) (d : Handle) (p : Bytes)
    (es : List (Bytes × Nat)) (i : Nat) (hist : List World)
    (hd : md.dirH = some d) (hp : w.dirPath d = some p) (hes : w.dir p = some es) (hW : es.length < 2 ^ 32)
    (hfit : ∀ j, j ≤ es.length → (Proofs.World.cand env flags (Proofs.World.gennameCount0 env + 1 + j)).length < NAME_MAX1) :
    ∃ h name, (runPlan Plan.none (gennameStart env md flags) w i hist).1 = some (h, name) ∧
      w.lookup p name = none ∧
      (runPlan Plan.none (gennameStart env md flags) w i hist).2.2.length ≤ hist.length + es.length + 1 := by
  have hA : gennameAttempts = 2 ^ 32 := by decide
  have hWr : gennameWrap = 2 ^ 32 := by decide
  obtain ⟨h, name, h1, h2, -, -, -, -, -⟩ := Proofs.World.genname_fresh env md flags w d p es gennameAttempts
    (env.random % Gen.gennameModulus) i hist hd hp hes (by omega) (by omega) hfit
  have h3 := (C09_genname_terminates_real env md flags w Plan.none i hist d p es hd hp hes).2
  rw [Proofs.World.faultsIn_none] at h3
  have hlen : hist.length ≤ (runPlan Plan.none (gennameStart env md flags) w i hist).2.2.length := by
    rw [Proofs.World.runPlan_eq]; simp
  exact ⟨h, name, h1, h2, by omega⟩

open Proofs.World.C09Ex in
/-- Non-vacuity, evaluated with the real constants (`2 ^ 32` attempts, start `0 % 128`) in the world where `b` holds the
first candidate: (1) no fault: two calls, `1.2_2.h:2,` created as file 2; (2) the plan answers the second `openat` with
an injected `EEXIST`: three calls, `1.2_3.h:2,` created, nothing replaced; (3) the plan answers it with `EIO`: gives up
after two calls, the directory is unchanged; (4) a host name of 250 bytes: gives up without a call (ENAMETOOLONG). -/
example :
    dst.dirH = some 1 ∧ (world []).dirPath 1 = some [98] ∧ (world []).dir [98] = some [(cand1, 1)] ∧
    (genReal env Plan.none).1 = some (2, cand2) ∧ (genReal env Plan.none).2.2.length = 2 ∧
    (genReal env (secondFails "EEXIST")).1 = some (2, cand3) ∧ (genReal env (secondFails "EEXIST")).2.2.length = 3 ∧
    (genReal env (secondFails "EEXIST")).2.1.lookup [98] cand3 = some 2 ∧
    (genReal env (secondFails "EEXIST")).2.1.lookup [98] cand2 = none ∧
    (genReal env (secondFails "EEXIST")).2.1.lookup [98] cand1 = some 1 ∧
    (genReal env (secondFails "EIO")).1 = none ∧ (genReal env (secondFails "EIO")).2.2.length = 2 ∧
    (genReal env (secondFails "EIO")).2.1.dir [98] = some [(cand1, 1)] ∧
    (genReal longHost Plan.none).1 = none ∧ (genReal longHost Plan.none).2.2.length = 0 := by
  decide +kernel

open Proofs.World.C09Ex in
/-- Non-vacuity of `C09_fresh_name_real` in the same world: one entry, and the first two candidates fit. -/
example : dst.dirH = some 1 ∧ (world []).dirPath 1 = some [98] ∧ (world []).dir [98] = some [(cand1, 1)] ∧
    [(cand1, 1)].length < 2 ^ 32 ∧
    (∀ j, j ≤ [(cand1, 1)].length →
      (Proofs.World.cand env (some [58, 50, 44]) (Proofs.World.gennameCount0 env + 1 + j)).length < NAME_MAX1) := by
  refine ⟨rfl, by decide, by decide, by decide, ?_⟩
  intro j hj
  have : j = 0 ∨ j = 1 := by simp at hj; omega
  rcases this with rfl | rfl <;> decide +kernel

open Proofs.World.C09Ex in
/-- ... and the right-hand side of `C09_genname_gives_up_iff` on (3): one retry, then `EIO`. -/
example : Proofs.World.RetriedTo env (some [58, 50, 44]) 1 (secondFails "EIO") (world []) 0 1 ∧
    Proofs.World.GivesUpAt env (some [58, 50, 44]) 1 (secondFails "EIO") (world []) 0 1 := by
  refine ⟨fun j hj => ?_, .inr (.inr ⟨by decide, by decide +kernel, "EIO", by decide, by decide +kernel⟩)⟩
  have : j = 0 := by omega
  subst this
  exact ⟨by decide +kernel, by decide +kernel⟩

/-- `maildir_move` never replaces anything.  For ALL fault plans: after every call of
`maildir_move` and at its end, every directory entry `(q, m)` (of the destination or of any other
directory) that existed before and is not the message's own source entry is still bound to the
same file, and that file has the same content, visible and durable. -/
theorem C09_move_never_replaces (env : PEnv) (src dst : Maildir) (ms : MsgSt) (ps : Bytes) (w : World) (plan : Plan)
    (i : Nat) (hist : List World)
    (hsrc : ∀ sh, src.dirH = some sh → w.dirPath sh = some ps)
    (hdst : ∀ dh, dst.dirH = some dh → ∃ pd, w.dirPath dh = some pd ∧ (w.dir pd).isSome)
    (w' : World)
    (hw' : w' = (runPlan plan (maildirMove env src dst ms) w i hist).2.1 ∨
      w' ∈ (runPlan plan (maildirMove env src dst ms) w i hist).2.2.drop hist.length)
    (q m : Bytes) (fid : Nat) (hne : ¬(q = ps ∧ m = ms.name)) (hb : w.lookup q m = some fid) :
    w'.lookup q m = some fid ∧ (fid < w.nextFid → w'.file fid = w.file fid) :=
  Proofs.World.move_never_replaces env src dst ms ps w plan i hist hsrc hdst w' hw' q m fid hne hb

open Proofs.World.C09Ex in
/-- Non-vacuity of `C09_move_never_replaces`: the pre-populated entry `b/1.2_1.h:2,` under a
faulty plan, across devices. -/
example :
    src.dirH = some 0 ∧ (world otherDev).dirPath 0 = some [97] ∧
    dst.dirH = some 1 ∧ (world otherDev).dirPath 1 = some [98] ∧ ((world otherDev).dir [98]).isSome ∧
    ¬(([98] : Bytes) = [97] ∧ cand1 = ms.name) ∧ (world otherDev).lookup [98] cand1 = some 1 ∧
    1 < (world otherDev).nextFid ∧
    (move otherDev statFails).2.1.lookup [98] cand1 = some 1 ∧
    ((move otherDev statFails).2.1.file 1).map (·.data) = some [121] ∧
    (move otherDev statFails).2.2.length = 13 := by
  decide +kernel

/-! ## Destination of a sequence of move / flag / flags actions

`Spec.dest`: (maildir of the last `move`, else the message's) / (subdirectory of the last `flag`, else
the message's).  `Model.finalPlace env ml0 actions`: `matches_append` of the actions' entries after the
match list `ml0`, then the `mh_path` of the last move/flag/flags entry (where `matches_exec` leaves the
message).  The pinned code agrees with the documentation exactly on `Spec.destOK` (finding F12). -/

/-- For every message `root/sub/name` (`root` not empty, absolute or relative; no `/` in `sub` and `name`,
`sub` shorter than `NAME_MAX + 1`), every sequence of move/flag/flags actions with non-empty names whose
joined paths fit `PATH_MAX`, evaluated after any match list without move/flag/flags entries: if the
sequence is in `Spec.destOK`, the message ends in the documented place. -/
theorem C09_destination_partial (env : Env) (root sub name : Bytes) (ml0 : MatchList) (actions : List Spec.PathAction)
    (hpath : env.path = root ++ [47] ++ sub ++ [47] ++ name)
    (hroot : root ≠ []) (hsub : (47 : UInt8) ∉ sub) (hname : (47 : UInt8) ∉ name)
    (hsubl : sub.length < NAME_MAX1)
    (hwf : Spec.actionsWF actions = true) (hfit : Spec.destFits PATH_MAX (root, sub) actions = true)
    (hml0 : ∀ e ∈ ml0, e.moves = false) (hok : Spec.destOK actions = true) :
    finalPlace env ml0 actions = if actions.isEmpty then none else some (Spec.destPath (root, sub) actions) :=
  Proofs.Dest.finalPlace_eq_dest env root sub name ml0 actions hpath hroot hsub hname hsubl hwf hfit hml0 hok

/-- The same for `Model.eval` itself: `c` is the expression the grammar builds from the action list of a
rule (move / flag / flags nodes joined by `and`; `Proofs.Dest.ActionChain` relates it to the actions with
their line numbers and asks that each node passes its own length / letter check).  Evaluated in any state
whose match list has no move/flag/flags entry it matches, and the last move/flag/flags entry of the
resulting match list - the one whose `mh_path` the message is finally moved to - has the documented path. -/
theorem C09_destination_eval (env : Env) (rootMsg m : Msg) (st : St) (part : Nat) (c : Expr)
    (ls : List (Nat × Spec.PathAction)) (hc : Proofs.Dest.ActionChain c ls) (root sub name : Bytes)
    (hpath : env.path = root ++ [47] ++ sub ++ [47] ++ name)
    (hroot : root ≠ []) (hsub : (47 : UInt8) ∉ sub) (hname : (47 : UInt8) ∉ name)
    (hsubl : sub.length < NAME_MAX1)
    (hwf : Spec.actionsWF (ls.map (·.2)) = true) (hfit : Spec.destFits PATH_MAX (root, sub) (ls.map (·.2)) = true)
    (hst : ∀ e ∈ st.ml, e.moves = false) (hok : Spec.destOK (ls.map (·.2)) = true) :
    ∃ st', eval env rootMsg c part m st = (.match, st') ∧
      lastPath st'.ml = some (Spec.destPath (root, sub) (ls.map (·.2))) :=
  Proofs.Dest.eval_chain_dest env rootMsg m st part c ls hc root sub name hpath hroot hsub hname hsubl hwf hfit hst hok

/-- `Spec.destOK` is exact: for all 1093 sequences of at most 6 actions whose names are pairwise distinct (and
distinct from the message's maildir `/S` and subdirectory `old`), the model ends in the documented place
if and only if `destOK` holds. -/
theorem C09_destOK_exact_upto_6 :
    ∀ n ∈ List.range 7, ∀ ks ∈ Proofs.Dest.kindSeqs n,
      Proofs.Dest.agrees ks = Spec.destOK (Proofs.Dest.genActions ks) :=
  Proofs.Dest.destOK_exact_upto_6

/-- The same statement without `Spec.destOK`: what the documentation promises.  It is false. -/
def C09_destination : Prop :=
  ∀ (env : Env) (root sub name : Bytes) (ml0 : MatchList) (actions : List Spec.PathAction),
    env.path = root ++ [47] ++ sub ++ [47] ++ name →
    root ≠ [] → (47 : UInt8) ∉ sub → (47 : UInt8) ∉ name → sub.length < NAME_MAX1 →
    Spec.actionsWF actions = true → Spec.destFits PATH_MAX (root, sub) actions = true →
    (∀ e ∈ ml0, e.moves = false) →
    finalPlace env ml0 actions = if actions.isEmpty then none else some (Spec.destPath (root, sub) actions)

/-- Environment of the witnesses: the message `/S/new/1`. -/
def destWitnessEnv : Env where
  rx := fun _ _ => .nomatch
  command := fun _ => 0
  isDir := fun _ => false
  now := 0
  strptime := fun _ => none
  zoneName := fun _ => none
  fileTime := fun _ => none
  dryrun := false
  path := [47, 83, 47, 110, 101, 119, 47, 49]

/-- F12, first class: `move "/D" flags "F"` on `/S/new/1` moves the message to `/D/new` and then back to
`/S/new` (the `flags` entry takes its destination from the original path). -/
theorem C09_destination_witness_flags_after_move :
    Spec.destOK [.move [47, 68], .flags [70]] = false ∧
    finalPlace destWitnessEnv [] [.move [47, 68], .flags [70]] = some [47, 83, 47, 110, 101, 119] ∧
    Spec.destPath ([47, 83], [110, 101, 119]) [.move [47, 68], .flags [70]] = [47, 68, 47, 110, 101, 119] := by
  decide

/-- F12, second class: `move "/B" flag new flag !new` on `/S/new/1` ends in `/S/cur`, not `/B/cur` (the
"consecutive duplicates" branch of `matches_merge` frees the entry that had inherited `/B`). -/
theorem C09_destination_witness_duplicate_merge :
    Spec.destOK [.move [47, 66], .flag [110, 101, 119], .flag [99, 117, 114]] = false ∧
    finalPlace destWitnessEnv [] [.move [47, 66], .flag [110, 101, 119], .flag [99, 117, 114]]
      = some [47, 83, 47, 99, 117, 114] ∧
    Spec.destPath ([47, 83], [110, 101, 119]) [.move [47, 66], .flag [110, 101, 119], .flag [99, 117, 114]]
      = [47, 66, 47, 99, 117, 114] := by
  decide

theorem C09_destination_false : ¬ C09_destination := by
  intro h
  have h1 := h destWitnessEnv [47, 83] [110, 101, 119] [49] [] [.move [47, 68], .flags [70]] rfl (by decide) (by decide) (by decide)
    (by decide) (by decide) (by decide) (by intro e he; cases he)
  rw [C09_destination_witness_flags_after_move.2.1] at h1
  revert h1
  decide

/-! Non-vacuity: `flags "F" move "/A" flag !new move "/B" flag new` on `/S/new/1` (both kinds occur twice,
the last two differ) satisfies every hypothesis, and ends in `/B/new`. -/
example : Spec.destOK [.flags [70], .move [47, 65], .flag [99, 117, 114], .move [47, 66], .flag [110, 101, 119]] = true ∧
    Spec.actionsWF [.flags [70], .move [47, 65], .flag [99, 117, 114], .move [47, 66], .flag [110, 101, 119]] = true ∧
    Spec.destFits PATH_MAX ([47, 83], [110, 101, 119])
      [.flags [70], .move [47, 65], .flag [99, 117, 114], .move [47, 66], .flag [110, 101, 119]] = true ∧
    finalPlace destWitnessEnv [] [.flags [70], .move [47, 65], .flag [99, 117, 114], .move [47, 66], .flag [110, 101, 119]]
      = some [47, 66, 47, 110, 101, 119] := by
  decide

/-! Non-vacuity of `C09_destination_eval`: the expression of `flags "F" move "/A" flag !new` (lines 3, 4, 5),
`(flags and move) and flag` as parse.y nests it, is an action chain, and its actions are in `destOK`. -/
example : Proofs.Dest.ActionChain
    (.and 5 (.and 4 (.flags 3 [70]) (.move 4 [47, 65])) (.flag 5 [99, 117, 114]))
    ([(3, .flags [70])] ++ [(4, .move [47, 65])] ++ [(5, .flag [99, 117, 114])]) :=
  .and _ _ _ _ _ (.and _ _ _ _ _ (.flags _ _ (by decide)) (.move _ _ (by decide))) (.flag _ _ (by decide))

example : Spec.destOK [.flags [70], .move [47, 65], .flag [99, 117, 114]] = true := by decide


/-! ## The seen flag after a whole action list

`C09_S_adjust` is about ONE `maildir_move`.  A rule may move the message several times and name the file again
afterwards (`flag new label "x"`): every `maildir_move` adjusts the flag set the message carries in memory
(`Model.adjustSeen`; /repo 7589fcb), and every later `maildir_move` / `maildir_write` writes the name from that set.
`Proofs.FlagsSeq.visited ml` are the subdirectories of the destinations of the move / flag / flags entries of the match
list, in order; `flagsThrough s0 mf subs` is `adjustSeen` folded along them. -/

open Proofs.FlagsSeq in
/-- The flag set after the message was taken from `s0` through the subdirectories `subs`: `S` is untouched when the
message never changed its subdirectory, otherwise it is set iff the message is in `cur` at the end (the last change was
into the subdirectory it is in); every other letter is as it was; the masks stay within the 26 letters. -/
theorem C09_S_through (s0 : Subdir) (mf : MFlags) (subs : List Subdir) (h : Proofs.MFlags.Valid mf) :
    (flagsIsSet (flagsThrough s0 mf subs) 83 =
      if subs.all (· == s0) then flagsIsSet mf 83 else (lastSub s0 subs == .cur)) ∧
    (∀ c, c ≠ 83 → flagsIsSet (flagsThrough s0 mf subs) c = flagsIsSet mf c) ∧
    Proofs.MFlags.Valid (flagsThrough s0 mf subs) :=
  ⟨flagsThrough_S subs s0 mf, fun c hc => flagsThrough_other c hc subs s0 mf, flagsThrough_valid subs s0 mf h⟩

/-! Non-vacuity: `6.host:2,RS` (R and S) taken cur -> new -> cur has R and S; taken cur -> new it has R only. -/
example : Proofs.FlagsSeq.flagsThrough .cur ⟨2 ^ 17 + 2 ^ 18, 0⟩ [.new, .cur] = ⟨2 ^ 17 + 2 ^ 18, 0⟩ ∧
    Proofs.FlagsSeq.flagsThrough .cur ⟨2 ^ 17 + 2 ^ 18, 0⟩ [.new] = ⟨2 ^ 17, 0⟩ := by decide

open Proofs.FlagsSeq in
/-- The whole action list, for EVERY match list (any entries, any order, any number), every state `matches_exec`
starts in, every world and EVERY fault plan: if `matches_exec` reports no error, then
* the message is in the subdirectory of the last move / flag / flags entry (its own if there is none),
* `S` of the flag set it carries is untouched if no entry took it to another subdirectory, and otherwise is set iff that
  final subdirectory is `cur`,
* every other flag is as it was when `matches_exec` started (`flags` letters are set before, at evaluation),
* and if some entry named the file (move, flag, flags, label, add-header), the name it has now is a generated name
  whose flag part is `message_flags_str` of exactly that set. -/
theorem C09_S_after_sequence (env : PEnv) (ml : MatchList) (st : ExecSt) (w : World) (plan : Plan) (i : Nat) (hist : List World)
    (hok : (runPlan plan (matchesExec env ml st) w i hist).1.2 = false) :
    (runPlan plan (matchesExec env ml st) w i hist).1.1.src.subdir = lastSub st.src.subdir (visited ml) ∧
    (flagsIsSet (runPlan plan (matchesExec env ml st) w i hist).1.1.ms.flags 83 =
      if (visited ml).all (· == st.src.subdir) then flagsIsSet st.ms.flags 83
      else ((runPlan plan (matchesExec env ml st) w i hist).1.1.src.subdir == .cur)) ∧
    (∀ c, c ≠ 83 → flagsIsSet (runPlan plan (matchesExec env ml st) w i hist).1.1.ms.flags c = flagsIsSet st.ms.flags c) ∧
    ((∃ mh ∈ ml, renames mh = true) → ∃ fl c,
      flagsStr (runPlan plan (matchesExec env ml st) w i hist).1.1.ms.flags Gen.flagsMax = some fl ∧
      (runPlan plan (matchesExec env ml st) w i hist).1.1.ms.name = Proofs.World.cand env (some fl) c) := by
  have h1 := all_runPlan plan (matchesExec_flags env ml st) w i hist hok
  have h2 := all_runPlan plan (matchesExec_named env ml st) w i hist hok
  refine ⟨h1.1, ?_, ?_, fun hex => h2 (.inl hex)⟩
  · rw [h1.2, h1.1]; exact flagsThrough_S _ _ _
  · intro c hc; rw [h1.2]; exact flagsThrough_other c hc _ _ _

/-! Non-vacuity of `C09_S_after_sequence` (and the shape of seeded change C09-s8): the message `/a/cur/m:2,S` under the
match list of `flag new label "x"` - a `flag` entry with destination `/a/new`, then a `label` entry - in a world with the
two directories, without faults.  `matches_exec` reports no error; the message is in `new`, its flag set is empty, and the
name the `label` rewrite gave it is `1.2_2.h:2,` (no `S`): the first name `1.2_1.h:2,` is the one `flag new` gave it. -/
namespace C09SeqEx

def env : PEnv :=
  { now := 1, pid := 2, host := [104], random := 0, tmpdir := [116], home := [104], confpath := [99],
    dryrun := false, syntaxOnly := false, stdinMode := false }
def cur : Bytes := [47, 97, 47, 99, 117, 114]
def new : Bytes := [47, 97, 47, 110, 101, 119]
def nameS : Bytes := [109, 58, 50, 44, 83]
def content : Bytes := [65, 58, 32, 49, 10, 10, 120, 10]
def world : World :=
  { dirs := [(cur, [(nameS, 0)]), (new, [])], files := [(0, ⟨content, content⟩)], nextFid := 1,
    handles := [.dir cur none 0], devs := [], mtimes := [(0, 1000)], trace := [] }
def src : Maildir := { root := [47, 97], path := cur, dirH := some 0, subdir := .cur, walk := true, stdin := false }
def ms : MsgSt :=
  { name := nameS, path := cur ++ [47] ++ nameS, fd := none, msg := { headers := [⟨0, [65], [49]⟩], body := [120, 10] },
    parts := [], flags := ⟨2 ^ 18, 0⟩, loc := some (cur, nameS), content := content }
def ml : MatchList := [{ ty := .flag, lno := 1, part := 0, path := new }, { ty := .label, lno := 1, part := 0 }]
def st : ExecSt := { src := src, chsrc := false, ms := ms, reject := false }
def result : ExecSt × Bool := (runPlan Plan.none (matchesExec env ml st) world 0 []).1

end C09SeqEx

open C09SeqEx in
example : result.2 = false ∧ result.1.src.subdir = .new ∧ result.1.ms.flags = ⟨0, 0⟩ ∧
    result.1.ms.name = [49, 46, 50, 95, 50, 46, 104, 58, 50, 44] ∧
    Proofs.FlagsSeq.visited ml = [.new] ∧ (∃ mh ∈ ml, Proofs.FlagsSeq.renames mh = true) := by
  refine ⟨by decide +kernel, by decide +kernel, by decide +kernel, by decide +kernel, by decide +kernel, ?_⟩
  exact ⟨_, List.mem_cons_self, by decide⟩

open Proofs.FlagsSeq in
/-- The same against ARBITRARY call results (any file system, any interleaving with other parties). -/
theorem C09_S_after_sequence_any_results (env : PEnv) (ml : MatchList) (st : ExecSt) (orc : Nat → Call → Res) (i : Nat)
    (tr : List (Call × Res)) (hok : (runOracle orc (matchesExec env ml st) i tr).1.2 = false) :
    (runOracle orc (matchesExec env ml st) i tr).1.1.src.subdir = lastSub st.src.subdir (visited ml) ∧
    (runOracle orc (matchesExec env ml st) i tr).1.1.ms.flags = flagsThrough st.src.subdir st.ms.flags (visited ml) :=
  all_runOracle orc (matchesExec_flags env ml st) i tr hok

open Proofs.FlagsSeq in
/-- Corollary in the words of the property: when the message ends in ANOTHER subdirectory than it started in, it has
`S` iff it is in `cur` now ("taken from new to cur gains the S flag, taken from cur to new loses it"), whatever it was
taken through in between. -/
theorem C09_S_after_subdir_change (env : PEnv) (ml : MatchList) (st : ExecSt) (w : World) (plan : Plan) (i : Nat) (hist : List World)
    (hok : (runPlan plan (matchesExec env ml st) w i hist).1.2 = false)
    (hne : (runPlan plan (matchesExec env ml st) w i hist).1.1.src.subdir ≠ st.src.subdir) :
    flagsIsSet (runPlan plan (matchesExec env ml st) w i hist).1.1.ms.flags 83 =
      ((runPlan plan (matchesExec env ml st) w i hist).1.1.src.subdir == .cur) := by
  have h := C09_S_after_sequence env ml st w plan i hist hok
  rw [h.2.1]
  split
  · rename_i hall
    exact absurd (h.1.trans (lastSub_of_all _ _ hall)) hne
  · rfl

open Proofs.FlagsSeq in
/-- ... and for the action lists of the documentation: for every action list inside `Spec.destOK` (hypotheses of
`C09_destination_partial`), `ml` the match list `matches_append` builds from it after any list `ml0` without
move/flag/flags entries, and the documented destination naming the subdirectory `sd`: a run of `matches_exec` over `ml`
that reports no error leaves the message in `sd` - the subdirectory of the last `flag`, else its own - and with `S` iff
`sd` is `cur` whenever an entry took it to another subdirectory on the way; every other flag preserved. -/
theorem C09_S_after_sequence_destOK (eenv : Env) (env : PEnv) (root sub name : Bytes) (ml0 ml : MatchList)
    (actions : List Spec.PathAction) (sd : Subdir)
    (hpath : eenv.path = root ++ [47] ++ sub ++ [47] ++ name)
    (hroot : root ≠ []) (hsub : (47 : UInt8) ∉ sub) (hname : (47 : UInt8) ∉ name) (hsubl : sub.length < NAME_MAX1)
    (hwf : Spec.actionsWF actions = true) (hfit : Spec.destFits PATH_MAX (root, sub) actions = true)
    (hml0 : ∀ e ∈ ml0, e.moves = false) (hdok : Spec.destOK actions = true) (hne : actions ≠ [])
    (happ : appendAll eenv ml0 (actions.map (pathEntry 0 0)) = some ml)
    (hsd : parseSubdir (Spec.destPath (root, sub) actions) = some sd)
    (st : ExecSt) (w : World) (plan : Plan) (i : Nat) (hist : List World)
    (hok : (runPlan plan (matchesExec env ml st) w i hist).1.2 = false) :
    (runPlan plan (matchesExec env ml st) w i hist).1.1.src.subdir = sd ∧
    (flagsIsSet (runPlan plan (matchesExec env ml st) w i hist).1.1.ms.flags 83 =
      if (visited ml).all (· == st.src.subdir) then flagsIsSet st.ms.flags 83 else (sd == .cur)) ∧
    (∀ c, c ≠ 83 → flagsIsSet (runPlan plan (matchesExec env ml st) w i hist).1.1.ms.flags c = flagsIsSet st.ms.flags c) := by
  have hfp := Proofs.Dest.finalPlace_eq_dest eenv root sub name ml0 actions hpath hroot hsub hname hsubl hwf hfit hml0 hdok
  have hemp : actions.isEmpty = false := by cases actions with | nil => exact absurd rfl hne | cons _ _ => rfl
  unfold finalPlace at hfp
  rw [happ, hemp] at hfp
  have hlast : lastPath ml = some (Spec.destPath (root, sub) actions) := by simpa using hfp
  have h := C09_S_after_sequence env ml st w plan i hist hok
  have hs : (runPlan plan (matchesExec env ml st) w i hist).1.1.src.subdir = sd :=
    h.1.trans (lastSub_visited _ sd hsd ml st.src.subdir hlast)
  refine ⟨hs, ?_, h.2.2.1⟩
  rw [h.2.1, hs]

/-! Non-vacuity of `C09_S_after_sequence_destOK`: `move "/B" flag !new` on `/S/new/1` (witness environment above)
satisfies the hypotheses on the action list: it is in `destOK`, `matches_append` builds a match list, and the documented
destination `/B/cur` names the subdirectory `cur`. -/
example : Spec.destOK [.move [47, 66], .flag [99, 117, 114]] = true ∧
    Spec.actionsWF [.move [47, 66], .flag [99, 117, 114]] = true ∧
    Spec.destFits PATH_MAX ([47, 83], [110, 101, 119]) [.move [47, 66], .flag [99, 117, 114]] = true ∧
    (appendAll destWitnessEnv [] ([Spec.PathAction.move [47, 66], .flag [99, 117, 114]].map (pathEntry 0 0))).isSome = true ∧
    parseSubdir (Spec.destPath ([47, 83], [110, 101, 119]) [.move [47, 66], .flag [99, 117, 114]]) = some .cur := by
  decide

end Mdsort.Props
