import Mdsort.Proofs.FlagsTime

/-!
# C09 - maildir names, flags, subdirectories and timestamps (flag algebra)

This file holds the pure part: parsing flags from a file name, writing them back, and the
`S` adjustment.  Destination (maildir/subdirectory of a sequence of move/flag/flags actions),
fresh names and timestamps are world-level statements (Props/World).
-/

namespace Mdsort.Props
open Mdsort Mdsort.Model

/-- Flags are taken only from the text after the LAST colon of the file name, which must be
`2,` followed by ASCII letters; the result is exactly that set of letters. -/
theorem C09_flags_parse (name : Bytes) : flagsParse name = (Spec.nameFlags name).map Proofs.ofLetters :=
  Proofs.flagsParse_eq_spec name

/-- Flags are written back as `:2,` + upper-case letters ascending + lower-case letters
ascending, each once; the 64-byte buffer always suffices. -/
theorem C09_flags_str (mf : MFlags) (h : Proofs.MFlags.Valid mf) :
    flagsStr mf Gen.flagsMax = some (Spec.flagSuffix (Proofs.lettersOf mf)) :=
  Proofs.flagsStr_eq_spec mf h

/-- Writing and re-reading a flag set is the identity, for every set and every base name. -/
theorem C09_flags_roundtrip (base : Bytes) (mf : MFlags) (h : Proofs.MFlags.Valid mf) (hb : (58 : UInt8) ∉ base) :
    flagsParse (base ++ Spec.flagSuffix (Proofs.lettersOf mf)) = some mf :=
  Proofs.flags_roundtrip base mf h hb

/-- new -> cur gains S, cur -> new loses S, every other flag is preserved. -/
theorem C09_S_adjust (src dst : Subdir) (mf : MFlags) (h : Proofs.MFlags.Valid mf) :
    msgflags src dst mf = some (Spec.flagSuffix (Spec.adjustSeen (src == .new) (dst == .new) (Proofs.lettersOf mf))) :=
  Proofs.msgflags_eq_spec src dst mf h

/-! Non-vacuity: `1.host:2,FS` parses to {F, S}; {F, S, a} is written as `:2,FSa`. -/
example : Model.flagsParse [49, 46, 104, 111, 115, 116, 58, 50, 44, 70, 83] = some ⟨2 ^ 5 + 2 ^ 18, 0⟩ := by
  decide

example : Model.flagsStr ⟨2 ^ 5 + 2 ^ 18, 1⟩ 64 = some [58, 50, 44, 70, 83, 97] := by decide

end Mdsort.Props
