import Mdsort.Proofs.Header
import Mdsort.Model.Eval

/-!
# C08 - rewriting a message preserves everything it is not meant to change

`Spec.read` is the line-by-line reading of a well-formed message (no NUL, header block
of fields only, one empty line, body not starting with a newline - the domain the
property names).  `Spec.rewriteOk m kvs out` is the decidable statement of the property
for one rewrite: same body, same other fields (names, raw values incl. folding, order),
every set name exactly once with its last value, a replaced name at the position of
its first occurrence.  The same predicate is evaluated on the real output of
`message_write` by the correspondence run.

Domain (audit au2).  `Spec.WF` admits folded values (SP / TAB continuation lines), duplicate and
mixed-case names, 8-bit bytes and an mbox `From ` line; it EXCLUDES a NUL anywhere, a message without an
empty line, CRLF line ends (the separator line `\r` is not empty), a header line that is neither a field start
nor a continuation, and a body that starts with an empty line (findings F16a-d; examples below).
`Spec.read` removes the blanks after the colon, so "same value" is blind to their number
(`message_write` normalises them to one space).  `Proofs.SetOk` (value without newline / NUL / leading
blank, name without colon / white space / NUL) is a hypothesis on the settings that NOTHING in this
development discharges for the `label` action, whose value contains the RFC 2047-DECODED existing `X-Label`
of the message: `C08_rewrite_preserves_false`, `C08_label_value_from_message_breaks_rewrite`.
-/

namespace Mdsort.Props
open Mdsort Mdsort.Model

/-- Parsing a well-formed message yields exactly its fields, in file order with ids
1..n, and its body. -/
theorem C08_parse (m : Bytes) (fs : List (Bytes × Bytes)) (b : Bytes) (h : Spec.read m = some (fs, b)) :
    Proofs.fileOrder (parseMessage m) = fs ∧ (parseMessage m).body = b ∧
    (sortById (parseMessage m).headers).map (·.id) = (List.range fs.length).map (· + 1) :=
  Proofs.parseMessage_eq_read m fs b h

/-- Any sequence of header settings that satisfy `Proofs.SetOk`, followed by `message_write`, preserves
everything else.  PARTIAL: the hypothesis `hk` restricts the VALUES set (no newline, no NUL, no leading blank);
the statement without it is `C08_rewrite_preserves` below, which is false. -/
theorem C08_rewrite_preserves_partial (m : Bytes) (kvs : List (Bytes × Bytes)) (hwf : Spec.WF m)
    (hk : ∀ kv ∈ kvs, Proofs.SetOk kv) :
    Spec.rewriteOk m kvs (messageWrite (Proofs.applySets (parseMessage m) kvs)).1 = true :=
  Proofs.rewrite_preserves m kvs hwf hk

/-- The full statement the property asks for (every well-formed message, EVERY sequence of settings).  False:
`C08_rewrite_preserves_false`. -/
def C08_rewrite_preserves : Prop :=
  ∀ (m : Bytes) (kvs : List (Bytes × Bytes)), Spec.WF m →
    Spec.rewriteOk m kvs (messageWrite (Proofs.applySets (parseMessage m) kvs)).1 = true

/-! ### Non-vacuity of `WF` and `SetOk`, and what they exclude -/

/-- mbox line, a TAB-folded and a SP-folded value, a duplicate name in another letter case with two blanks after
its colon, an empty line inside the body, no final newline. -/
def C08_sample : Bytes := ofString
  "From x@y Thu Jan  1 00:00:00 1970\nReceived: a\n\tb\nSubject: hi\n there\nX-Label: old\nreceived:  c\n\nbody\n\nmore"

/-- `label` (replacing, name in another case) and `add-header` (new name). -/
def C08_sampleSets : List (Bytes × Bytes) := [(ofString "x-label", ofString "old new"), (ofString "X-New", ofString "v")]

/-- The reference reading of the sample: folding kept verbatim, blanks after the colon dropped. -/
example : Spec.read C08_sample = some
    ([(ofString "Received", ofString "a\n\tb"), (ofString "Subject", ofString "hi\n there"),
      (ofString "X-Label", ofString "old"), (ofString "received", ofString "c")], ofString "body\n\nmore") := by
  decide +kernel

theorem c08_sample_wf : Spec.WF C08_sample := by unfold Spec.WF; decide +kernel

theorem c08_sampleSets_ok : ∀ kv ∈ C08_sampleSets, Proofs.SetOk kv := by
  intro kv hkv
  simp only [C08_sampleSets, List.mem_cons, List.not_mem_nil, or_false] at hkv
  rcases hkv with rfl | rfl
  · refine ⟨by decide +kernel, by decide +kernel, ?_⟩
    show ∀ c, (ofString "old new").head? = some c → isblank c = false
    rw [show (ofString "old new").head? = some 111 by decide +kernel]
    intro c h; cases h; decide
  · refine ⟨by decide +kernel, by decide +kernel, ?_⟩
    show ∀ c, (ofString "v").head? = some c → isblank c = false
    rw [show (ofString "v").head? = some 118 by decide +kernel]
    intro c h; cases h; decide

/-- Both hypotheses of `C08_rewrite_preserves_partial` hold of the sample: the theorem applies. -/
example : Spec.rewriteOk C08_sample C08_sampleSets
    (messageWrite (Proofs.applySets (parseMessage C08_sample) C08_sampleSets)).1 = true :=
  C08_rewrite_preserves_partial _ _ c08_sample_wf c08_sampleSets_ok

/-- Outside `WF` (nothing is proved about these): CRLF line ends, a body starting with an empty line, no empty
line at all, a line in the header block that is neither field nor continuation, a NUL. -/
example : ¬ Spec.WF (ofString "A: 1\r\n\r\nx\r\n") ∧ ¬ Spec.WF (ofString "A: 1\n\n\nx\n") ∧
    ¬ Spec.WF (ofString "A: 1\n") ∧ ¬ Spec.WF (ofString "A: 1\nno colon here\n\nx\n") ∧
    ¬ Spec.WF [65, 58, 32, 0, 10, 10, 120] := by
  unfold Spec.WF; decide +kernel

/-! ### `SetOk` is needed, and message content can violate it (audit au2)

`match_interpolate` builds the value of `label` from the existing `X-Label` field as `message_get_header`
returns it, i.e. unfolded and RFC 2047-DECODED (`Model.matchInterpolate`, case `.label`).  A Q-encoded word can
hold `=0A`: the decoded value then contains newlines, it is written back verbatim by `message_write`, and the
header block ends inside it.  Reproduced on the real binary (design-notes/audit-C07-C12.md): the rest of the
value and every later field become body text, exit status 0. -/

/-- A well-formed message whose only field is `X-Label: =?utf-8?Q?a=0A=0AINJECTED?=`. -/
def C08_hostile : Bytes := ofString "X-Label: =?utf-8?Q?a=0A=0AINJECTED?=\n\nbody\n"

/-- The match-list entry of `label "x"`. -/
def C08_labelEntry : Match := { ty := .label, lno := 1, part := 0, strings := [ofString "x"] }

/-- The value `label "x"` sets on `C08_hostile`. -/
def C08_hostileValue : Bytes := ofString "a\n\nINJECTED x"

theorem c08_hostile_wf : Spec.WF C08_hostile := by unfold Spec.WF; decide +kernel

/-- **Witness (model = real binary).**  On the well-formed `C08_hostile`, `label "x"` (1) writes the file
`X-Label: a\n\nINJECTED x\n\nbody\n`; (2) that is `message_set_header` with the value `a\n\nINJECTED x`,
which is not `SetOk`; (3) `Spec.rewriteOk` rejects the result; (4) the body a reader sees afterwards is
`INJECTED x\n\nbody\n`, not `body\n`. -/
theorem C08_label_value_from_message_breaks_rewrite :
    (matchInterpolate (some []) [{ ty := .mtch, lno := 1, part := 0 }, C08_labelEntry] 1 C08_labelEntry
        (fun _ => parseMessage C08_hostile)).map (fun r => r.2.map fun p => (messageWrite p.2).1) =
      some (some (ofString "X-Label: a\n\nINJECTED x\n\nbody\n")) ∧
    setHeader (parseMessage C08_hostile) (ofString "X-Label") C08_hostileValue =
      Proofs.applySets (parseMessage C08_hostile) [(ofString "X-Label", C08_hostileValue)] ∧
    Spec.rewriteOk C08_hostile [(ofString "X-Label", C08_hostileValue)]
      (messageWrite (Proofs.applySets (parseMessage C08_hostile) [(ofString "X-Label", C08_hostileValue)])).1 = false ∧
    Spec.body (ofString "X-Label: a\n\nINJECTED x\n\nbody\n") = ofString "INJECTED x\n\nbody\n" ∧
    Spec.body C08_hostile = ofString "body\n" := by
  decide +kernel

theorem C08_rewrite_preserves_false : ¬ C08_rewrite_preserves := by
  intro h
  have h1 := h C08_hostile [(ofString "X-Label", C08_hostileValue)] c08_hostile_wf
  rw [C08_label_value_from_message_breaks_rewrite.2.2.1] at h1
  cases h1

/-- A copy without header settings (move across file systems, exec stdin of a part)
has the same fields and body. -/
theorem C08_copy_identity (m : Bytes) (hwf : Spec.WF m) :
    Spec.rewriteOk m [] (messageWrite (parseMessage m)).1 = true := by
  simpa [Proofs.applySets] using Proofs.rewrite_preserves m [] hwf (by simp)

/-- Non-vacuity, and what `rewriteOk m []` amounts to: `Spec.read` of the copy equals `Spec.read` of the original
up to the blanks after a colon (the copy of `received:  c` is `received: c`). -/
example : Spec.rewriteOk C08_sample [] (messageWrite (parseMessage C08_sample)).1 = true :=
  C08_copy_identity _ c08_sample_wf

/-- A second `message_write` of the IN-MEMORY message left by the first gives the same bytes (no hypothesis).
This is not "re-parsing the output yields the same table" (`C08_reparse_stable` of DESIGN.md section 4 is not
proved; for settings outside `SetOk` it is false, see the witness above). -/
theorem C08_rewrite_stable (m : Bytes) (kvs : List (Bytes × Bytes)) :
    let w := messageWrite (Proofs.applySets (parseMessage m) kvs)
    (messageWrite w.2).1 = w.1 :=
  Proofs.second_write_same m kvs

end Mdsort.Props
