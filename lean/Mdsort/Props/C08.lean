import Mdsort.Proofs.HeaderBlank
import Mdsort.Model.Eval
import Mdsort.Proofs.Captures

/-!
# C08 - rewriting a message preserves everything it is not meant to change

`Spec.read` is the line-by-line reading of a well-formed message (no NUL, header block
of fields only, one empty line, body not starting with a newline - the domain the
property names).  `Spec.rewriteOk m kvs out` is the decidable statement of the property
for one rewrite: same body, same other fields (names, raw values incl. folding, order),
every set name exactly once with its last value, a replaced name at the position of
its first occurrence.  The same predicate is evaluated on the real output of
`message_write` by the correspondence run.

Domain (audit au2).  `Spec.WF` admits folded values (SP / TAB continuation lines), duplicate and
mixed-case names, 8-bit bytes and an mbox `From ` line; it EXCLUDES a NUL anywhere, a message without an
empty line, CRLF line ends (the separator line `\r` is not empty), a header line that is neither a field start
nor a continuation, and a body that starts with an empty line (findings F16a-d; examples below).
`Spec.read` removes the blanks after the colon, so "same value" is blind to their number
(`message_write` normalises them to one space).

The values being set (audit au2, after /repo 71eba6c and 4ac7c48).  `label` builds its value from the RFC 2047-DECODED
existing `X-Label`, `add-header` / `label "\1"` from captures of decoded text: message content reaches the header being
set.  Since 4ac7c48 `message_set_header` replaces every `'\n'` / `'\r'` of the value by a space (`Model.headerSafe`,
`Model.setHeader`).  With that the theorems below need NO hypothesis on the value beyond "a C string":
`C08_set_value_never_breaks_header`, `C08_rewrite_preserves_seen`, `C08_label_rewrite_preserves`,
`C08_add_header_rewrite_preserves`.  What remains of the literal statement `C08_rewrite_preserves` is said beside it.
-/

namespace Mdsort.Props
open Mdsort Mdsort.Model

/-- Parsing a well-formed message yields exactly its fields, in file order with ids
1..n, and its body. -/
theorem C08_parse (m : Bytes) (fs : List (Bytes × Bytes)) (b : Bytes) (h : Spec.read m = some (fs, b)) :
    Proofs.fileOrder (parseMessage m) = fs ∧ (parseMessage m).body = b ∧
    (sortById (parseMessage m).headers).map (·.id) = (List.range fs.length).map (· + 1) :=
  Proofs.parseMessage_eq_read m fs b h

/-! ## Any sequence of settings -/

/-- **Any sequence of header settings, any C-string values.**  For every well-formed message and every sequence of
settings `(name, value)` - names that keep the line structure (`KeyOk`), values without NUL, NOTHING else - applied by
`message_set_header` and printed by `message_write`: `Spec.rewriteOk` accepts the file for the values a reader sees,
`Proofs.seen (name, headerSafe value)`: every line break of the value a space, its leading blanks dropped. -/
theorem C08_rewrite_preserves_seen (m : Bytes) (kvs : List (Bytes × Bytes)) (hwf : Spec.WF m)
    (hk : ∀ kv ∈ kvs, Proofs.SetRes kv) :
    Spec.rewriteOk m ((Proofs.safeKvs kvs).map Proofs.seen) (messageWrite (Proofs.applySets (parseMessage m) kvs)).1 = true :=
  Proofs.rewrite_preserves_any m kvs hwf hk

/-- The residue of the former hypothesis `SetOk`: a name that keeps the line structure, a value without NUL that does not
BEGIN with SP, TAB, LF or CR.  (No condition on line breaks inside the value any more.) -/
def C08_SetOk (kv : Bytes × Bytes) : Prop :=
  Proofs.SetRes kv ∧ ∀ c, kv.2.head? = some c → c ≠ 32 ∧ c ≠ 9 ∧ c ≠ 10 ∧ c ≠ 13

theorem c08_headerSafe_head (v : Bytes) (h : ∀ c, v.head? = some c → c ≠ 32 ∧ c ≠ 9 ∧ c ≠ 10 ∧ c ≠ 13) :
    (headerSafe v).dropWhile isblank = headerSafe v := by
  cases v with
  | nil => rfl
  | cons x r =>
    obtain ⟨h1, h2, h3, h4⟩ := h x rfl
    have e : headerSafe (x :: r) = x :: headerSafe r := by
      unfold headerSafe
      simp [h3, h4]
    rw [e]
    have : isblank x = false := by simp [isblank, h1, h2]
    simp [this]

/-- PARTIAL (as to the value written): under `C08_SetOk` the file is accepted for the settings with their line breaks
turned into spaces (`Proofs.safeKvs`) - the set header appears exactly once with exactly that value. -/
theorem C08_rewrite_preserves_partial (m : Bytes) (kvs : List (Bytes × Bytes)) (hwf : Spec.WF m)
    (hk : ∀ kv ∈ kvs, C08_SetOk kv) :
    Spec.rewriteOk m (Proofs.safeKvs kvs) (messageWrite (Proofs.applySets (parseMessage m) kvs)).1 = true := by
  have h := C08_rewrite_preserves_seen m kvs hwf (fun kv hkv => (hk kv hkv).1)
  have e : (Proofs.safeKvs kvs).map Proofs.seen = Proofs.safeKvs kvs := by
    unfold Proofs.safeKvs
    rw [List.map_map]
    apply List.map_congr_left
    intro kv hkv
    simp only [Function.comp, Proofs.seen]
    rw [c08_headerSafe_head kv.2 (hk kv hkv).2]
  rw [e] at h; exact h

/-- ... and when the values hold no LF / CR either, for the settings as they are. -/
theorem C08_rewrite_preserves_exact (m : Bytes) (kvs : List (Bytes × Bytes)) (hwf : Spec.WF m)
    (hk : ∀ kv ∈ kvs, C08_SetOk kv) (hnl : ∀ kv ∈ kvs, ∀ c ∈ kv.2, c ≠ 10 ∧ c ≠ 13) :
    Spec.rewriteOk m kvs (messageWrite (Proofs.applySets (parseMessage m) kvs)).1 = true := by
  have h := C08_rewrite_preserves_partial m kvs hwf hk
  have e : Proofs.safeKvs kvs = kvs := by
    unfold Proofs.safeKvs
    conv => rhs; rw [← List.map_id kvs]
    apply List.map_congr_left
    intro kv hkv
    obtain ⟨k, v⟩ := kv
    simp only [id]
    congr 1
    unfold headerSafe
    conv => rhs; rw [← List.map_id v]
    apply List.map_congr_left
    intro c hc
    have := hnl (k, v) hkv c hc
    simp [this.1, this.2]
  rw [e] at h; exact h

/-- The literal statement: every well-formed message, EVERY sequence of settings, accepted for the settings as given.
It stays false, and exactly for these reasons (each a difference between the value given and the value a reader sees,
never a lost field or an altered body - `C08_set_value_never_breaks_header`):
(1) a line break in the value is written as a space (4ac7c48);
(2) leading blanks of the value are not seen by a reader (`name:` + any number of blanks);
(3) a NUL ends the value (every value is a C string; the model passes `cstr v`);
(4) a NAME with a colon, white space or NUL (`add-header "a b" "v"`, `add-header "a:b" "v"`) is outside `KeyOk`: the
    grammar does not forbid it, nothing is proved about it. -/
def C08_rewrite_preserves : Prop :=
  ∀ (m : Bytes) (kvs : List (Bytes × Bytes)), Spec.WF m →
    Spec.rewriteOk m kvs (messageWrite (Proofs.applySets (parseMessage m) kvs)).1 = true

/-- Witness for (2): on `A: 1`, setting `A` to ` v` writes `A:  v`; accepted for `v`, rejected for ` v`. -/
theorem C08_rewrite_preserves_false : ¬ C08_rewrite_preserves := by
  intro h
  have h1 := h (ofString "A: 1\n\nx\n") [(ofString "A", ofString " v")] (by unfold Spec.WF; decide +kernel)
  have h2 : Spec.rewriteOk (ofString "A: 1\n\nx\n") [(ofString "A", ofString " v")]
      (messageWrite (Proofs.applySets (parseMessage (ofString "A: 1\n\nx\n")) [(ofString "A", ofString " v")])).1 = false := by
    decide +kernel
  rw [h2] at h1; cases h1

/-! ### Non-vacuity of `WF` and `C08_SetOk`, and what `WF` excludes -/

/-- mbox line, a TAB-folded and a SP-folded value, a duplicate name in another letter case with two blanks after
its colon, an empty line inside the body, no final newline. -/
def C08_sample : Bytes := ofString
  "From x@y Thu Jan  1 00:00:00 1970\nReceived: a\n\tb\nSubject: hi\n there\nX-Label: old\nreceived:  c\n\nbody\n\nmore"

/-- `label` (replacing, name in another case) and `add-header` (new name). -/
def C08_sampleSets : List (Bytes × Bytes) := [(ofString "x-label", ofString "old new"), (ofString "X-New", ofString "v")]

/-- The reference reading of the sample: folding kept verbatim, blanks after the colon dropped. -/
example : Spec.read C08_sample = some
    ([(ofString "Received", ofString "a\n\tb"), (ofString "Subject", ofString "hi\n there"),
      (ofString "X-Label", ofString "old"), (ofString "received", ofString "c")], ofString "body\n\nmore") := by
  decide +kernel

theorem c08_sample_wf : Spec.WF C08_sample := by unfold Spec.WF; decide +kernel

theorem c08_sampleSets_ok : ∀ kv ∈ C08_sampleSets, C08_SetOk kv := by
  intro kv hkv
  simp only [C08_sampleSets, List.mem_cons, List.not_mem_nil, or_false] at hkv
  rcases hkv with rfl | rfl
  · refine ⟨⟨by unfold Proofs.KeyOk; decide +kernel, by decide +kernel⟩, ?_⟩
    show ∀ c, (ofString "old new").head? = some c → _
    rw [show (ofString "old new").head? = some 111 by decide +kernel]
    intro c h; cases h; decide
  · refine ⟨⟨by unfold Proofs.KeyOk; decide +kernel, by decide +kernel⟩, ?_⟩
    show ∀ c, (ofString "v").head? = some c → _
    rw [show (ofString "v").head? = some 118 by decide +kernel]
    intro c h; cases h; decide

/-- Both hypotheses of `C08_rewrite_preserves_partial` hold of the sample: the theorem applies. -/
example : Spec.rewriteOk C08_sample C08_sampleSets
    (messageWrite (Proofs.applySets (parseMessage C08_sample) C08_sampleSets)).1 = true :=
  C08_rewrite_preserves_exact _ _ c08_sample_wf c08_sampleSets_ok (by
    intro kv hkv
    simp only [C08_sampleSets, List.mem_cons, List.not_mem_nil, or_false] at hkv
    rcases hkv with rfl | rfl <;> decide +kernel)

/-- Outside `WF` (nothing is proved about these): CRLF line ends, a body starting with an empty line, no empty
line at all, a line in the header block that is neither field nor continuation, a NUL. -/
example : ¬ Spec.WF (ofString "A: 1\r\n\r\nx\r\n") ∧ ¬ Spec.WF (ofString "A: 1\n\n\nx\n") ∧
    ¬ Spec.WF (ofString "A: 1\n") ∧ ¬ Spec.WF (ofString "A: 1\nno colon here\n\nx\n") ∧
    ¬ Spec.WF [65, 58, 32, 0, 10, 10, 120] := by
  unfold Spec.WF; decide +kernel

/-! ## One setting: the header block is never broken -/

/-- **No value can break the header block.**  For every well-formed message, every field name that keeps the line
structure (`KeyOk`: no colon, white space or NUL - the grammar's `add-header` name and `X-Label`) and EVERY value `v` (taken as
the C string `cstr v`, whatever bytes it holds: line breaks, CR, leading blanks, header look-alikes, captures, configured
text): the file `message_write` prints after `message_set_header` reads back with the SAME body, exactly the original fields
other than `k` in their order (`Spec.others`), and `k` exactly once, with the value a reader sees - line breaks as spaces,
leading blanks dropped.  No field becomes body text, no body text becomes a field. -/
theorem C08_set_value_never_breaks_header (m : Bytes) (k v : Bytes) (hwf : Spec.WF m) (hk : Proofs.KeyOk k) :
    ∃ fs fs' b, Spec.read m = some (fs, b) ∧
      Spec.read (messageWrite (setHeader (parseMessage m) k (cstr v))).1 = some (fs', b) ∧
      Spec.others fs' [k] = Spec.others fs [k] ∧
      (fs'.filter fun f => Spec.nameEq f.1 k).map (·.2) = [(headerSafe (cstr v)).dropWhile isblank] := by
  have h := Proofs.rewrite_preserves_any m [(k, cstr v)] hwf (by
    intro kv hkv; simp at hkv; subst hkv; exact ⟨hk, cstr_no_nul v⟩)
  simp only [Proofs.applySets] at h
  unfold Spec.rewriteOk at h
  split at h
  · rename_i fs b fs' b' h1 h2
    simp only [Proofs.safeKvs, Proofs.seen, List.map_cons, List.map_nil, Bool.and_eq_true, beq_iff_eq,
      List.all_cons, List.all_nil, Bool.and_true] at h
    obtain ⟨⟨hb, ho⟩, hv, _⟩ := h
    subst hb
    refine ⟨fs, fs', b', h1, h2, ho, ?_⟩
    rw [hv]
    simp [Spec.lastSet, Spec.nameEq]
  · cases h

/-- Non-vacuity / what it gives on the message that broke the header block before 71eba6c and 4ac7c48: setting `X-Copy`-like
text `a\n\nTo: evil\n\nbody` on `Subject: s` + `To: me`. -/
example : Spec.WF (ofString "Subject: s\nTo: me\n\nbody\n") ∧ Proofs.KeyOk (ofString "Subject") ∧
    headerSafe (cstr (ofString " a\n\nTo: evil\r\n\nbody")) = ofString " a  To: evil   body" := by
  refine ⟨by unfold Spec.WF; decide +kernel, by unfold Proofs.KeyOk; decide +kernel, by decide +kernel⟩

/-! ## `label` and `add-header` as mdsort computes their values -/

theorem c08_mi_label_shape (macros : Option (List (Bytes × Bytes))) (ml : MatchList) (i : Nat) (mh : Match)
    (msgs : Nat → Msg) (hty : mh.ty = .label) (r : Match × Option (Nat × Msg))
    (h : matchInterpolate macros ml i mh msgs = some r) :
    ∃ lab, r = (mh, some (mh.part, setHeader (msgs mh.part) (ofString "X-Label") (cstr lab))) := by
  unfold matchInterpolate at h
  simp only [hty] at h
  generalize matchInterpolate.add _ _ _ _ = x at h
  cases x with
  | none => cases h
  | some lab => exact ⟨lab, by cases h; rfl⟩

theorem c08_mi_add_shape (macros : Option (List (Bytes × Bytes))) (ml : MatchList) (i : Nat) (mh : Match)
    (msgs : Nat → Msg) (hty : mh.ty = .addHeader) (r : Match × Option (Nat × Msg))
    (h : matchInterpolate macros ml i mh msgs = some r) :
    ∃ v, r = (mh, some (mh.part, setHeader (msgs mh.part) mh.hkey (cstr v))) := by
  unfold matchInterpolate at h
  simp only [hty] at h
  generalize interpolate _ _ _ = x at h
  cases x with
  | none => cases h
  | some v => exact ⟨v, by cases h; rfl⟩


def C08_xlabel : Bytes := ofString "X-Label"

/-- **`label` preserves everything else - no hypothesis on the message, none on the configured strings.**  Whenever
`match_interpolate` of a `label` entry succeeds on a well-formed message (whatever the match list, the macros, the captures
its strings refer to, the existing `X-Label` text): the message it leaves is `message_set_header "X-Label" v` for a C string
`v`, and the file `message_write` prints is accepted by `Spec.rewriteOk` for the value a reader sees. -/
theorem C08_label_rewrite_preserves (m : Bytes) (hwf : Spec.WF m) (macros : Option (List (Bytes × Bytes)))
    (ml : MatchList) (i : Nat) (mh : Match) (hty : mh.ty = .label) (r : Match × Option (Nat × Msg))
    (h : matchInterpolate macros ml i mh (fun _ => parseMessage m) = some r) :
    ∃ v, r = (mh, some (mh.part, setHeader (parseMessage m) C08_xlabel v)) ∧ (∀ c ∈ v, c ≠ 0) ∧
      Spec.rewriteOk m [Proofs.seen (C08_xlabel, headerSafe v)]
        (messageWrite (setHeader (parseMessage m) C08_xlabel v)).1 = true := by
  obtain ⟨lab, rfl⟩ := c08_mi_label_shape macros ml i mh _ hty r h
  refine ⟨cstr lab, rfl, cstr_no_nul lab, ?_⟩
  have := C08_rewrite_preserves_seen m [(C08_xlabel, cstr lab)] hwf (by
    intro kv hkv; simp at hkv; subst hkv
    exact ⟨(by unfold Proofs.KeyOk C08_xlabel; decide +kernel : Proofs.KeyOk C08_xlabel), cstr_no_nul lab⟩)
  simpa [Proofs.applySets, Proofs.safeKvs] using this

/-- **`add-header` likewise**, for a configured NAME that keeps the line structure (`KeyOk mh.hkey`; the value may be
anything the interpolation yields - captures with line breaks, configured text with line breaks). -/
theorem C08_add_header_rewrite_preserves (m : Bytes) (hwf : Spec.WF m) (macros : Option (List (Bytes × Bytes)))
    (ml : MatchList) (i : Nat) (mh : Match) (hty : mh.ty = .addHeader) (hkey : Proofs.KeyOk mh.hkey)
    (r : Match × Option (Nat × Msg))
    (h : matchInterpolate macros ml i mh (fun _ => parseMessage m) = some r) :
    ∃ v, r = (mh, some (mh.part, setHeader (parseMessage m) mh.hkey v)) ∧ (∀ c ∈ v, c ≠ 0) ∧
      Spec.rewriteOk m [Proofs.seen (mh.hkey, headerSafe v)]
        (messageWrite (setHeader (parseMessage m) mh.hkey v)).1 = true := by
  obtain ⟨v, rfl⟩ := c08_mi_add_shape macros ml i mh _ hty r h
  refine ⟨cstr v, rfl, cstr_no_nul v, ?_⟩
  have := C08_rewrite_preserves_seen m [(mh.hkey, cstr v)] hwf (by
    intro kv hkv; simp at hkv; subst hkv
    exact ⟨hkey, cstr_no_nul v⟩)
  simpa [Proofs.applySets, Proofs.safeKvs] using this

/-! ### Evaluated on the messages that used to break the header block -/

/-- `X-Label: =?utf-8?Q?a=0A=0AINJECTED?=` (found by audit au2; repaired by 71eba6c). -/
def C08_hostile : Bytes := ofString "X-Label: =?utf-8?Q?a=0A=0AINJECTED?=\n\nbody\n"

/-- The match-list entry of `label "x"`. -/
def C08_labelEntry : Match := { ty := .label, lno := 1, part := 0, strings := [ofString "x"] }

/-- `label "x"` on it writes `X-Label: a  INJECTED x`; on `X-Label: =?utf-8?Q?_a?=` (decoded ` a`) it writes
`X-Label:  a x`, which a reader sees as `a x`: accepted for `a x`, not for ` a x`. -/
example :
    (matchInterpolate (some []) [{ ty := .mtch, lno := 1, part := 0 }, C08_labelEntry] 1 C08_labelEntry
        (fun _ => parseMessage C08_hostile)).map (fun r => r.2.map fun p => (messageWrite p.2).1) =
      some (some (ofString "X-Label: a  INJECTED x\n\nbody\n")) ∧
    (matchInterpolate (some []) [{ ty := .mtch, lno := 1, part := 0 }, C08_labelEntry] 1 C08_labelEntry
        (fun _ => parseMessage (ofString "X-Label: =?utf-8?Q?_a?=\n\nbody\n"))).map
        (fun r => r.2.map fun p => (messageWrite p.2).1) =
      some (some (ofString "X-Label:  a x\n\nbody\n")) ∧
    Spec.rewriteOk (ofString "X-Label: =?utf-8?Q?_a?=\n\nbody\n") [(C08_xlabel, ofString "a x")]
      (ofString "X-Label:  a x\n\nbody\n") = true ∧
    Spec.rewriteOk (ofString "X-Label: =?utf-8?Q?_a?=\n\nbody\n") [(C08_xlabel, ofString " a x")]
      (ofString "X-Label:  a x\n\nbody\n") = false := by
  decide +kernel

/-- `Subject: =?utf-8?Q?a=0A=0Ab?=` with `match header "Subject" /(a[[:space:]]+b)/ add-header "Subject" "\1"` (the capture
holds the two line breaks; found by audit au2, repaired by 4ac7c48; one table entry so that the kernel can evaluate the
sort): the file written is `Subject: a  b`, accepted for the value `a  b`. -/
def C08_captureMsg : Bytes := ofString "Subject: =?utf-8?Q?a=0A=0Ab?=\n\nbody\n"

def C08_captureBefore : MatchList :=
  [{ ty := .mtch, lno := 1, part := 0 },
   { ty := .header, lno := 1, part := 0, subs := [⟨ofString "a\n\nb", some (0, 4)⟩, ⟨ofString "a\n\nb", some (0, 4)⟩] }]

def C08_addEntry : Match := { ty := .addHeader, lno := 1, part := 0, hkey := ofString "Subject", hval := ofString "\\1" }

example :
    getHeader (parseMessage C08_captureMsg) (ofString "Subject") = some [ofString "a\n\nb"] ∧
    (matchInterpolate (some []) (C08_captureBefore ++ [C08_addEntry]) 2 C08_addEntry (fun _ => parseMessage C08_captureMsg)).map
      (fun r => r.2.map fun p => (messageWrite p.2).1) =
      some (some (ofString "Subject: a  b\n\nbody\n")) ∧
    Spec.rewriteOk C08_captureMsg [(ofString "Subject", ofString "a  b")] (ofString "Subject: a  b\n\nbody\n") = true := by
  decide +kernel

/-- The hypotheses of `C08_add_header_rewrite_preserves` on it. -/
example : Spec.WF C08_captureMsg ∧ C08_addEntry.ty = .addHeader ∧ Proofs.KeyOk C08_addEntry.hkey :=
  ⟨by unfold Spec.WF; decide +kernel, rfl, by unfold Proofs.KeyOk; decide +kernel⟩

/-! ## Copies and repeated writes -/

/-- A copy without header settings (move across file systems, exec stdin of a part)
has the same fields and body. -/
theorem C08_copy_identity (m : Bytes) (hwf : Spec.WF m) :
    Spec.rewriteOk m [] (messageWrite (parseMessage m)).1 = true := by
  simpa [Proofs.applySets, Proofs.safeKvs] using Proofs.rewrite_preserves_any m [] hwf (by simp)

/-- Non-vacuity, and what `rewriteOk m []` amounts to: `Spec.read` of the copy equals `Spec.read` of the original
up to the blanks after a colon (the copy of `received:  c` is `received: c`). -/
example : Spec.rewriteOk C08_sample [] (messageWrite (parseMessage C08_sample)).1 = true :=
  C08_copy_identity _ c08_sample_wf

/-- A second `message_write` of the IN-MEMORY message left by the first gives the same bytes (no hypothesis).
This is not "re-parsing the output yields the same table" (`C08_reparse_stable` of DESIGN.md section 4 is not
proved; for settings outside `SetOk` it is false, see the witness above). -/
theorem C08_rewrite_stable (m : Bytes) (kvs : List (Bytes × Bytes)) :
    let w := messageWrite (Proofs.applySets (parseMessage m) kvs)
    (messageWrite w.2).1 = w.1 :=
  Proofs.second_write_same_any m kvs

end Mdsort.Props
