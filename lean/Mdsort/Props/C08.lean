import Mdsort.Proofs.Header

/-!
# C08 - rewriting a message preserves everything it is not meant to change

`Spec.read` is the line-by-line reading of a well-formed message (no NUL, header block
of fields only, one empty line, body not starting with a newline - the domain the
property names).  `Spec.rewriteOk m kvs out` is the decidable statement of the property
for one rewrite: same body, same other fields (names, raw values incl. folding, order),
every set name exactly once with its last value, a replaced name at the position of
its first occurrence.  The same predicate is evaluated on the real output of
`message_write` by the correspondence run.
-/

namespace Mdsort.Props
open Mdsort Mdsort.Model

/-- Parsing a well-formed message yields exactly its fields, in file order with ids
1..n, and its body. -/
theorem C08_parse (m : Bytes) (fs : List (Bytes × Bytes)) (b : Bytes) (h : Spec.read m = some (fs, b)) :
    Proofs.fileOrder (parseMessage m) = fs ∧ (parseMessage m).body = b ∧
    (sortById (parseMessage m).headers).map (·.id) = (List.range fs.length).map (· + 1) :=
  Proofs.parseMessage_eq_read m fs b h

/-- Any sequence of header settings followed by `message_write` preserves everything else. -/
theorem C08_rewrite_preserves (m : Bytes) (kvs : List (Bytes × Bytes)) (hwf : Spec.WF m)
    (hk : ∀ kv ∈ kvs, Proofs.SetOk kv) :
    Spec.rewriteOk m kvs (messageWrite (Proofs.applySets (parseMessage m) kvs)).1 = true :=
  Proofs.rewrite_preserves m kvs hwf hk

/-- A copy without header settings (move across file systems, exec stdin of a part)
has the same fields and body. -/
theorem C08_copy_identity (m : Bytes) (hwf : Spec.WF m) :
    Spec.rewriteOk m [] (messageWrite (parseMessage m)).1 = true := by
  simpa [Proofs.applySets] using Proofs.rewrite_preserves m [] hwf (by simp)

/-- A second write gives the same bytes (later actions see the same message). -/
theorem C08_rewrite_stable (m : Bytes) (kvs : List (Bytes × Bytes)) :
    let w := messageWrite (Proofs.applySets (parseMessage m) kvs)
    (messageWrite w.2).1 = w.1 :=
  Proofs.second_write_same m kvs

end Mdsort.Props
