import Mdsort.Proofs.Header
import Mdsort.Model.Eval
import Mdsort.Proofs.Captures

/-!
# C08 - rewriting a message preserves everything it is not meant to change

`Spec.read` is the line-by-line reading of a well-formed message (no NUL, header block
of fields only, one empty line, body not starting with a newline - the domain the
property names).  `Spec.rewriteOk m kvs out` is the decidable statement of the property
for one rewrite: same body, same other fields (names, raw values incl. folding, order),
every set name exactly once with its last value, a replaced name at the position of
its first occurrence.  The same predicate is evaluated on the real output of
`message_write` by the correspondence run.

Domain (audit au2).  `Spec.WF` admits folded values (SP / TAB continuation lines), duplicate and
mixed-case names, 8-bit bytes and an mbox `From ` line; it EXCLUDES a NUL anywhere, a message without an
empty line, CRLF line ends (the separator line `\r` is not empty), a header line that is neither a field start
nor a continuation, and a body that starts with an empty line (findings F16a-d; examples below).
`Spec.read` removes the blanks after the colon, so "same value" is blind to their number
(`message_write` normalises them to one space).  `Proofs.SetOk` (value without newline / NUL / leading
blank, name without colon / white space / NUL) is a hypothesis on the settings.  For the `label` action - whose
value contains the RFC 2047-DECODED existing `X-Label` of the message - it is discharged by
`C08_label_value_safe` / `C08_label_rewrite_preserves` (after /repo 71eba6c; before it the decoded newline was
written back).  For values built from captures it cannot be: `C08_capture_newline_breaks_rewrite`.
-/

namespace Mdsort.Props
open Mdsort Mdsort.Model

/-- Parsing a well-formed message yields exactly its fields, in file order with ids
1..n, and its body. -/
theorem C08_parse (m : Bytes) (fs : List (Bytes × Bytes)) (b : Bytes) (h : Spec.read m = some (fs, b)) :
    Proofs.fileOrder (parseMessage m) = fs ∧ (parseMessage m).body = b ∧
    (sortById (parseMessage m).headers).map (·.id) = (List.range fs.length).map (· + 1) :=
  Proofs.parseMessage_eq_read m fs b h

/-- Any sequence of header settings that satisfy `Proofs.SetOk`, followed by `message_write`, preserves
everything else.  PARTIAL: the hypothesis `hk` restricts the VALUES set (no newline, no NUL, no leading blank);
the statement without it is `C08_rewrite_preserves` below, which is false. -/
theorem C08_rewrite_preserves_partial (m : Bytes) (kvs : List (Bytes × Bytes)) (hwf : Spec.WF m)
    (hk : ∀ kv ∈ kvs, Proofs.SetOk kv) :
    Spec.rewriteOk m kvs (messageWrite (Proofs.applySets (parseMessage m) kvs)).1 = true :=
  Proofs.rewrite_preserves m kvs hwf hk

/-- The full statement the property asks for (every well-formed message, EVERY sequence of settings).  False:
`C08_rewrite_preserves_false`. -/
def C08_rewrite_preserves : Prop :=
  ∀ (m : Bytes) (kvs : List (Bytes × Bytes)), Spec.WF m →
    Spec.rewriteOk m kvs (messageWrite (Proofs.applySets (parseMessage m) kvs)).1 = true

/-! ### Non-vacuity of `WF` and `SetOk`, and what they exclude -/

/-- mbox line, a TAB-folded and a SP-folded value, a duplicate name in another letter case with two blanks after
its colon, an empty line inside the body, no final newline. -/
def C08_sample : Bytes := ofString
  "From x@y Thu Jan  1 00:00:00 1970\nReceived: a\n\tb\nSubject: hi\n there\nX-Label: old\nreceived:  c\n\nbody\n\nmore"

/-- `label` (replacing, name in another case) and `add-header` (new name). -/
def C08_sampleSets : List (Bytes × Bytes) := [(ofString "x-label", ofString "old new"), (ofString "X-New", ofString "v")]

/-- The reference reading of the sample: folding kept verbatim, blanks after the colon dropped. -/
example : Spec.read C08_sample = some
    ([(ofString "Received", ofString "a\n\tb"), (ofString "Subject", ofString "hi\n there"),
      (ofString "X-Label", ofString "old"), (ofString "received", ofString "c")], ofString "body\n\nmore") := by
  decide +kernel

theorem c08_sample_wf : Spec.WF C08_sample := by unfold Spec.WF; decide +kernel

theorem c08_sampleSets_ok : ∀ kv ∈ C08_sampleSets, Proofs.SetOk kv := by
  intro kv hkv
  simp only [C08_sampleSets, List.mem_cons, List.not_mem_nil, or_false] at hkv
  rcases hkv with rfl | rfl
  · refine ⟨by decide +kernel, by decide +kernel, ?_⟩
    show ∀ c, (ofString "old new").head? = some c → isblank c = false
    rw [show (ofString "old new").head? = some 111 by decide +kernel]
    intro c h; cases h; decide
  · refine ⟨by decide +kernel, by decide +kernel, ?_⟩
    show ∀ c, (ofString "v").head? = some c → isblank c = false
    rw [show (ofString "v").head? = some 118 by decide +kernel]
    intro c h; cases h; decide

/-- Both hypotheses of `C08_rewrite_preserves_partial` hold of the sample: the theorem applies. -/
example : Spec.rewriteOk C08_sample C08_sampleSets
    (messageWrite (Proofs.applySets (parseMessage C08_sample) C08_sampleSets)).1 = true :=
  C08_rewrite_preserves_partial _ _ c08_sample_wf c08_sampleSets_ok

/-- Outside `WF` (nothing is proved about these): CRLF line ends, a body starting with an empty line, no empty
line at all, a line in the header block that is neither field nor continuation, a NUL. -/
example : ¬ Spec.WF (ofString "A: 1\r\n\r\nx\r\n") ∧ ¬ Spec.WF (ofString "A: 1\n\n\nx\n") ∧
    ¬ Spec.WF (ofString "A: 1\n") ∧ ¬ Spec.WF (ofString "A: 1\nno colon here\n\nx\n") ∧
    ¬ Spec.WF [65, 58, 32, 0, 10, 10, 120] := by
  unfold Spec.WF; decide +kernel

/-! ### The value `label` computes satisfies `SetOk` (after /repo 71eba6c)

`match_interpolate` builds the value of `label` from the existing `X-Label` fields as `message_get_header` returns
them, i.e. unfolded and RFC 2047-DECODED (`Model.matchInterpolate`, case `.label`).  A Q-encoded word can hold `=0A`:
before 71eba6c the decoded newline was written back and the header block ended inside the value (found by audit au2,
reproduced on the real binary).  Since 71eba6c every `\n` and `\r` of an existing value is copied as a space
(`Model.labelSafe`).  Below: the hypothesis `SetOk` of `C08_rewrite_preserves_partial` is DISCHARGED for the value the
label action computes, for every message, under a condition on the configured strings only - except for its third
clause (no leading blank), which a message can still falsify and whose effect is stated exactly. -/

def C08_xlabel : Bytes := ofString "X-Label"

/-- The existing labels as `match_interpolate` copies them (71eba6c): every occurrence of `X-Label`, unfolded and
RFC 2047-decoded, `\n` / `\r` replaced by a space, joined by one space. -/
def C08_existingLabels (M : Msg) : Bytes :=
  match getHeader M C08_xlabel with
  | none => []
  | some ls => ((ls.map labelSafe).intersperse [32]).flatten

/-- The condition on the CONFIGURED strings of a `label` action: no `\` and no `$` (so the string is its own
interpolation: no back-reference, no macro), no newline, no leading blank. -/
def C08_LabelCfgOk (ss : List Bytes) : Prop :=
  ∀ s ∈ ss, Proofs.Plain s ∧ (10 : UInt8) ∉ s ∧ ∀ c, s.head? = some c → isblank c = false

theorem c08_labelSafe_no_nl (v : Bytes) : (10 : UInt8) ∉ labelSafe v := by
  unfold labelSafe
  intro h
  obtain ⟨c, _, hc⟩ := List.mem_map.1 h
  split at hc
  · cases hc
  · rename_i hn
    subst hc
    simp at hn

theorem c08_mem_flatten_intersperse {α} (sep : List α) : ∀ (l : List (List α)) (x : α),
    x ∈ (l.intersperse sep).flatten → x ∈ sep ∨ ∃ a ∈ l, x ∈ a
  | [], x, h => by simp at h
  | [a], x, h => by
    simp only [List.intersperse_singleton, List.flatten_cons, List.flatten_nil, List.append_nil] at h
    exact .inr ⟨a, by simp, h⟩
  | a :: b :: r, x, h => by
    simp only [List.intersperse_cons_cons, List.flatten_cons, List.mem_append] at h
    rcases h with h | h | h
    · exact .inr ⟨a, by simp, h⟩
    · exact .inl h
    · rcases c08_mem_flatten_intersperse sep (b :: r) x h with h | ⟨c, hc, hx⟩
      · exact .inl h
      · exact .inr ⟨c, by simp [hc], hx⟩

theorem c08_existing_no_nl (M : Msg) : (10 : UInt8) ∉ C08_existingLabels M := by
  unfold C08_existingLabels
  split
  · simp
  · rename_i ls _
    intro h
    rcases c08_mem_flatten_intersperse _ _ _ h with h | ⟨a, ha, hx⟩
    · simp at h
    · obtain ⟨v, _, rfl⟩ := List.mem_map.1 ha
      exact c08_labelSafe_no_nl v hx

/-- The loop over the configured strings: with `C08_LabelCfgOk` every interpolation succeeds and returns the string. -/
theorem c08_add_cfgOk (before : MatchList) (macros : Option (List (Bytes × Bytes))) (ss : List Bytes) (buf : Bytes)
    (hcfg : C08_LabelCfgOk ss) (hb : (10 : UInt8) ∉ buf) :
    ∃ r, matchInterpolate.add macros before ss buf = some r ∧ (10 : UInt8) ∉ r ∧
      (buf ≠ [] → r.head? = buf.head?) ∧
      (buf = [] → ∀ c, r.head? = some c → isblank c = false) := by
  induction ss generalizing buf with
  | nil => exact ⟨buf, rfl, hb, fun _ => rfl, fun h c hc => by subst h; cases hc⟩
  | cons s ss ih =>
    obtain ⟨hp, hn, hh⟩ := hcfg s (by simp)
    have hcfg2 : C08_LabelCfgOk ss := fun t ht => hcfg t (by simp [ht])
    unfold matchInterpolate.add
    rw [Proofs.interpolate_plain before macros s hp]
    by_cases hbe : buf = []
    · subst hbe
      obtain ⟨r, h1, h2, h3, h4⟩ := ih ([] ++ s) hcfg2 (by simpa using hn)
      refine ⟨r, by simpa using h1, h2, fun h => absurd rfl h, fun _ c hc => ?_⟩
      by_cases hs : s = []
      · subst hs; exact h4 rfl c hc
      · have := h3 (by simpa using hs)
        rw [this] at hc
        exact hh c (by simpa using hc)
    · have hne : buf.isEmpty = false := by cases buf with | nil => exact absurd rfl hbe | cons _ _ => rfl
      obtain ⟨r, h1, h2, h3, _⟩ := ih (buf ++ [32] ++ s) hcfg2 (by
        intro h
        simp only [List.mem_append, List.mem_singleton] at h
        rcases h with (h | h) | h
        · exact hb h
        · cases h
        · exact hn h)
      refine ⟨r, by simpa [hne] using h1, h2, fun _ => ?_, fun h => absurd h hbe⟩
      rw [h3 (by simp)]
      cases buf with
      | nil => exact absurd rfl hbe
      | cons x xs => rfl

theorem c08_cstr_head (l : Bytes) (c : UInt8) (h : (cstr l).head? = some c) : l.head? = some c := by
  cases l with
  | nil => simp [cstr] at h
  | cons x r =>
    unfold cstr at h
    rw [List.takeWhile_cons] at h
    split at h
    · simpa using h
    · cases h

theorem c08_cstr_sub (l : Bytes) : ∀ c ∈ cstr l, c ∈ l := fun _ h => (List.takeWhile_sublist _).subset h

/-- **What `label` sets, for EVERY message** (`msgs mh.part` is any parsed message or part - no hypothesis on it):
under the condition on the CONFIGURED strings, `match_interpolate` succeeds and sets `X-Label` to a value `v` that
contains no newline and no NUL; and `v` begins with a blank only if the (sanitised, decoded) existing label text
does - which a message can still bring about (`X-Label: =?utf-8?Q?_a?=`, or an encoded leading newline, now a
space). -/
theorem C08_label_value_safe (macros : Option (List (Bytes × Bytes))) (ml : MatchList) (i : Nat) (mh : Match)
    (msgs : Nat → Msg) (hty : mh.ty = .label) (hcfg : C08_LabelCfgOk mh.strings) :
    ∃ v, matchInterpolate macros ml i mh msgs = some (mh, some (mh.part, setHeader (msgs mh.part) C08_xlabel v)) ∧
      (∀ c ∈ v, c ≠ 10 ∧ c ≠ 0) ∧
      (∀ c, v.head? = some c → isblank c = true → (C08_existingLabels (msgs mh.part)).head? = some c) := by
  obtain ⟨r, h1, h2, h3, h4⟩ := c08_add_cfgOk (ml.take i) macros mh.strings (C08_existingLabels (msgs mh.part)) hcfg
    (c08_existing_no_nl _)
  refine ⟨cstr r, ?_, fun c hc => ⟨fun e => h2 (e ▸ c08_cstr_sub r c hc), cstr_no_nul r c hc⟩, fun c hc hb => ?_⟩
  · unfold matchInterpolate
    simp only [hty]
    generalize hx : matchInterpolate.add _ _ _ _ = x
    have hxr : x = some r := hx.symm.trans h1
    subst hxr
    rfl
  · have hr := c08_cstr_head r c hc
    by_cases he : C08_existingLabels (msgs mh.part) = []
    · have := h4 he c hr
      rw [this] at hb; cases hb
    · rw [← h3 he]; exact hr

/-- **`label` preserves everything else.**  For every well-formed message, every `label` entry whose configured strings
satisfy `C08_LabelCfgOk`, whatever the match list and the macros: the entry is interpolated, the value `v` it sets
satisfies the first two clauses of `SetOk` unconditionally, and - provided the existing label text does not begin with a
blank (`hhead`: the first `X-Label` field, decoded, does not start with SP, TAB, CR or LF) - all of `SetOk`, so that
`C08_rewrite_preserves_partial` applies: the file `message_write` produces is accepted by `Spec.rewriteOk`.
When `hhead` fails nothing is lost either, but this is only evaluated, not proved in general
(`C08_label_leading_blank_witness`: the file then reads `X-Label` with the leading blanks removed, every other field and
the body as before); the general proof needs `Proofs.ValOk` (Proofs/HeaderReparse.lean) widened to values with leading
blanks, through `fields_lines`, `write_read` and `chain_rewriteOk`. -/
theorem C08_label_rewrite_preserves (m : Bytes) (hwf : Spec.WF m) (macros : Option (List (Bytes × Bytes)))
    (ml : MatchList) (i : Nat) (mh : Match) (hty : mh.ty = .label) (hcfg : C08_LabelCfgOk mh.strings)
    (hhead : ∀ c, (C08_existingLabels (parseMessage m)).head? = some c → isblank c = false) :
    ∃ v, matchInterpolate macros ml i mh (fun _ => parseMessage m) =
        some (mh, some (mh.part, setHeader (parseMessage m) C08_xlabel v)) ∧
      Proofs.SetOk (C08_xlabel, v) ∧
      Spec.rewriteOk m [(C08_xlabel, v)] (messageWrite (setHeader (parseMessage m) C08_xlabel v)).1 = true := by
  obtain ⟨v, h1, h2, h3⟩ := C08_label_value_safe macros ml i mh (fun _ => parseMessage m) hty hcfg
  have hset : Proofs.SetOk (C08_xlabel, v) := by
    refine ⟨(by decide +kernel : ∀ c ∈ C08_xlabel, c ≠ 58 ∧ isspace c = false ∧ c ≠ 0), h2, fun c hc => ?_⟩
    cases hb : isblank c with
    | false => rfl
    | true => have := hhead c (h3 c hc hb); rw [this] at hb; cases hb
  refine ⟨v, h1, hset, ?_⟩
  have := C08_rewrite_preserves_partial m [(C08_xlabel, v)] hwf (by intro kv hkv; simp at hkv; subst hkv; exact hset)
  simpa [Proofs.applySets] using this

/-- The formerly hostile message: `X-Label: =?utf-8?Q?a=0A=0AINJECTED?=`. -/
def C08_hostile : Bytes := ofString "X-Label: =?utf-8?Q?a=0A=0AINJECTED?=\n\nbody\n"

/-- The match-list entry of `label "x"`. -/
def C08_labelEntry : Match := { ty := .label, lno := 1, part := 0, strings := [ofString "x"] }

theorem c08_hostile_wf : Spec.WF C08_hostile := by unfold Spec.WF; decide +kernel

/-- Non-vacuity of `C08_label_rewrite_preserves` on it: the hypotheses hold (`C08_LabelCfgOk ["x"]`, the existing text
`a  INJECTED` does not start with a blank), and the file written is `X-Label: a  INJECTED x` + the untouched body. -/
example : C08_LabelCfgOk C08_labelEntry.strings ∧
    C08_existingLabels (parseMessage C08_hostile) = ofString "a  INJECTED" ∧
    (matchInterpolate (some []) [{ ty := .mtch, lno := 1, part := 0 }, C08_labelEntry] 1 C08_labelEntry
        (fun _ => parseMessage C08_hostile)).map (fun r => r.2.map fun p => (messageWrite p.2).1) =
      some (some (ofString "X-Label: a  INJECTED x\n\nbody\n")) := by
  refine ⟨?_, by decide +kernel, by decide +kernel⟩
  intro s hs
  simp only [C08_labelEntry, List.mem_singleton] at hs
  subst hs
  exact ⟨by decide +kernel, by decide +kernel, by
    rw [show (ofString "x").head? = some 120 by decide +kernel]; intro c h; cases h; decide⟩

example : ∃ v, Spec.rewriteOk C08_hostile [(C08_xlabel, v)]
    (messageWrite (setHeader (parseMessage C08_hostile) C08_xlabel v)).1 = true := by
  obtain ⟨v, _, _, h⟩ := C08_label_rewrite_preserves C08_hostile c08_hostile_wf (some [])
    [{ ty := .mtch, lno := 1, part := 0 }, C08_labelEntry] 1 C08_labelEntry rfl
    (by intro s hs
        simp only [C08_labelEntry, List.mem_singleton] at hs
        subst hs
        exact ⟨by decide +kernel, by decide +kernel, by
          rw [show (ofString "x").head? = some 120 by decide +kernel]; intro c h; cases h; decide⟩)
    (by rw [show C08_existingLabels (parseMessage C08_hostile) = ofString "a  INJECTED" by decide +kernel,
          show (ofString "a  INJECTED").head? = some 97 by decide +kernel]
        intro c h; cases h; decide)
  exact ⟨v, h⟩

/-- **The leading blank, evaluated.**  `X-Label: =?utf-8?Q?_a?=` decodes to ` a`; `label "x"` sets ` a x` (not `SetOk`:
leading blank) and writes `X-Label:  a x`.  A reader of that file sees the value `a x`: `Spec.rewriteOk` accepts the
file for the setting `a x` and rejects it for ` a x`; the body and (here absent) other fields are untouched. -/
theorem C08_label_leading_blank_witness :
    (matchInterpolate (some []) [{ ty := .mtch, lno := 1, part := 0 }, C08_labelEntry] 1 C08_labelEntry
        (fun _ => parseMessage (ofString "X-Label: =?utf-8?Q?_a?=\n\nbody\n"))).map
        (fun r => r.2.map fun p => (messageWrite p.2).1) =
      some (some (ofString "X-Label:  a x\n\nbody\n")) ∧
    Spec.rewriteOk (ofString "X-Label: =?utf-8?Q?_a?=\n\nbody\n") [(C08_xlabel, ofString "a x")]
      (ofString "X-Label:  a x\n\nbody\n") = true ∧
    Spec.rewriteOk (ofString "X-Label: =?utf-8?Q?_a?=\n\nbody\n") [(C08_xlabel, ofString " a x")]
      (ofString "X-Label:  a x\n\nbody\n") = false := by
  decide +kernel

/-! ### What still prevents the full statement

`C08_rewrite_preserves` quantifies over ARBITRARY settings and stays false: a value with a newline breaks the header
block, and two sources of such values remain after 71eba6c.
(1) The configuration: a string literal may contain a newline (`add-header "K" "a<newline>b"`); not message content.
(2) Captures: `add-header "K" "\1"` and `label "\1"` insert captured text verbatim, and a capture CAN contain a
newline although every pattern is compiled with `REG_NEWLINE`: `.` and a non-matching list `[^x]` never match a newline,
but a matching list (`[[:space:]]`) and a literal newline in the pattern do.  On the real binary (098cbec), message
`Subject: =?utf-8?Q?a=0A=0Ab?=`: `match header "Subject" /(a[[:space:]]+b)/ add-header "X-Copy" "\1"` writes
`X-Copy: a`, an empty line, `b` - header block broken, exit 0; `/(a[^x]+b)/` and `/(a.+b)/` do not match; a body
pattern `/(line1[[:space:]]line2)/` does the same.  The model agrees (`C08_capture_newline_breaks_rewrite`). -/

def C08_captureMsg : Bytes := ofString "Subject: =?utf-8?Q?a=0A=0Ab?=\n\nbody\n"

/-- The match list after `match header "Subject" /(a[[:space:]]+b)/` matched the decoded value `a\n\nb`. -/
def C08_captureBefore : MatchList :=
  [{ ty := .mtch, lno := 1, part := 0 },
   { ty := .header, lno := 1, part := 0, subs := [⟨ofString "a\n\nb", some (0, 4)⟩, ⟨ofString "a\n\nb", some (0, 4)⟩] }]

/-- `add-header "Subject" "\1"` (replacing: one table entry, so that the kernel can evaluate the sort). -/
def C08_addEntry : Match := { ty := .addHeader, lno := 1, part := 0, hkey := ofString "Subject", hval := ofString "\\1" }

/-- Witness (model = real binary, with `X-Copy` there): the decoded `Subject` is `a\n\nb`; with that text as capture
`add-header "Subject" "\1"` writes `Subject: a\n\nb\n\nbody\n`, which `Spec.rewriteOk` rejects. -/
theorem C08_capture_newline_breaks_rewrite :
    getHeader (parseMessage C08_captureMsg) (ofString "Subject") = some [ofString "a\n\nb"] ∧
    (matchInterpolate (some []) (C08_captureBefore ++ [C08_addEntry]) 2 C08_addEntry (fun _ => parseMessage C08_captureMsg)).map
      (fun r => r.2.map fun p => (messageWrite p.2).1) =
      some (some (ofString "Subject: a\n\nb\n\nbody\n")) ∧
    Spec.rewriteOk C08_captureMsg [(ofString "Subject", ofString "a\n\nb")]
      (messageWrite (Proofs.applySets (parseMessage C08_captureMsg) [(ofString "Subject", ofString "a\n\nb")])).1 = false := by
  decide +kernel

theorem C08_rewrite_preserves_false : ¬ C08_rewrite_preserves := by
  intro h
  have h1 := h C08_captureMsg [(ofString "Subject", ofString "a\n\nb")] (by unfold Spec.WF; decide +kernel)
  rw [C08_capture_newline_breaks_rewrite.2.2] at h1
  cases h1

/-- A copy without header settings (move across file systems, exec stdin of a part)
has the same fields and body. -/
theorem C08_copy_identity (m : Bytes) (hwf : Spec.WF m) :
    Spec.rewriteOk m [] (messageWrite (parseMessage m)).1 = true := by
  simpa [Proofs.applySets] using Proofs.rewrite_preserves m [] hwf (by simp)

/-- Non-vacuity, and what `rewriteOk m []` amounts to: `Spec.read` of the copy equals `Spec.read` of the original
up to the blanks after a colon (the copy of `received:  c` is `received: c`). -/
example : Spec.rewriteOk C08_sample [] (messageWrite (parseMessage C08_sample)).1 = true :=
  C08_copy_identity _ c08_sample_wf

/-- A second `message_write` of the IN-MEMORY message left by the first gives the same bytes (no hypothesis).
This is not "re-parsing the output yields the same table" (`C08_reparse_stable` of DESIGN.md section 4 is not
proved; for settings outside `SetOk` it is false, see the witness above). -/
theorem C08_rewrite_stable (m : Bytes) (kvs : List (Bytes × Bytes)) :
    let w := messageWrite (Proofs.applySets (parseMessage m) kvs)
    (messageWrite w.2).1 = w.1 :=
  Proofs.second_write_same m kvs

end Mdsort.Props
